"""C09 — KAURI trees respect their structural limits and reproduce their own partition."""
import json
import numpy as np
from core import Check, enc_list, enc_opt, enc_mat
import impl
import gemclus.tree.kauri as kauri_mod
from sklearn.metrics.pairwise import pairwise_kernels

NAMED_KERNELS = ["linear", "rbf", "laplacian", "poly", "cosine", "sigmoid"]


# ------------------------------------------------------------------ case generation
def gen_data(rng, n, d):
    style = ["grid", "normal", "blobs", "dup", "const", "binary"][int(rng.integers(0, 6))]
    if style == "grid":
        X = rng.integers(0, int(rng.integers(2, 6)), size=(n, d)).astype(float)
    elif style == "normal":
        X = rng.normal(size=(n, d))
    elif style == "blobs":
        X = impl.blobs(rng, n, d, k=int(rng.integers(2, 5)))
    elif style == "dup":
        base = rng.normal(size=(max(1, n // 3), d)).round(1)
        X = base[rng.integers(0, len(base), size=n)]
    elif style == "binary":
        X = (rng.random(size=(n, d)) < 0.5).astype(float)
    else:
        X = rng.normal(size=(n, d)).round(1)
        X[:, int(rng.integers(0, d))] = float(rng.integers(-2, 3))
        if d > 1 and rng.random() < 0.5:
            X[:, int(rng.integers(0, d))] = 0.0
    return style, np.ascontiguousarray(X, dtype=float)


def gen_case(chk, rng, force_small=False):
    big = chk.tier == "thorough"
    r = rng.random()
    if force_small or r < 0.15:
        n = int(rng.integers(1, 6))
    elif r < 0.7:
        n = int(rng.integers(4, 25))
    else:
        n = int(rng.integers(20, 60 if big else 41))
    d = int(rng.integers(1, 5))
    style, X = gen_data(rng, n, d)
    msl = min(n, int(rng.choice([1, 1, 1, 1, 2, 2, 3, 4])))      # n < min_samples_leaf is refused by fit: malformed stream
    mss = max(2, 2 * msl + int(rng.choice([0, 0, 0, 0, 1, 2, 5])))
    p = dict(
        max_clusters=int(rng.choice([1, 2, 3, 3, 4, 5, 6, 8, 10])),
        max_depth=None if rng.random() < 0.35 else int(rng.integers(1, 7)),
        min_samples_split=mss, min_samples_leaf=msl,
        max_features=None if rng.random() < 0.5 else int(rng.integers(1, d + 2)),
        max_leaves=None if rng.random() < 0.4 else int(rng.integers(2, n + 3)),
        random_state=int(rng.integers(0, 10 ** 6)))
    kr = rng.random()
    if kr < 0.4:
        kernel = "linear"
    elif kr < 0.6:
        kernel = "rbf"
    elif kr < 0.8:
        kernel = "precomputed"
    else:
        kernel = NAMED_KERNELS[int(rng.integers(0, len(NAMED_KERNELS)))]
    p["kernel"] = kernel
    Kmat = None
    if kernel == "precomputed":
        A = rng.normal(size=(n, n))
        Kmat = (A + A.T) / 2            # symmetric, not PSD in general
        if rng.random() < 0.3:
            Kmat = np.round(Kmat * 4) / 4
    return style, X, p, Kmat


def fresh_points(rng, X, thresholds):
    """Rows to predict that were not (necessarily) seen: perturbed rows, rows sitting exactly on
    thresholds / observed values, midpoints, far-away rows."""
    n, d = X.shape
    m = int(rng.integers(3, 10))
    out = []
    for _ in range(m):
        r = rng.random()
        base = X[int(rng.integers(0, n))].copy()
        if r < 0.25:
            base = base + rng.normal(size=d) * 0.3
        elif r < 0.5:
            for (f, th) in thresholds:
                if rng.random() < 0.6:
                    base[f] = th if rng.random() < 0.5 else np.nextafter(th, np.inf if rng.random() < 0.5 else -np.inf)
        elif r < 0.7:
            other = X[int(rng.integers(0, n))]
            base = (base + other) / 2
        elif r < 0.85:
            base = np.array([X[int(rng.integers(0, n)), f] for f in range(d)])
        else:
            base = base + rng.choice([-1e6, 1e6], size=d)
        out.append(base)
    return np.array(out, dtype=float).reshape(m, d)


# ------------------------------------------------------------------ running the implementation
class Recorder:
    """Wraps the module attribute gemclus.tree.kauri.find_best_split and records every call."""

    def __init__(self):
        self.calls = []

    def __enter__(self):
        self.orig = kauri_mod.find_best_split

        def wrapped(kernel, X, leaves_to_explore, Y, Z, n_clusters, K_max, n_leaves, min_leaf, feature_subset):
            s = self.orig(kernel, X, leaves_to_explore, Y, Z, n_clusters, K_max, n_leaves, min_leaf, feature_subset)
            self.calls.append(dict(gain=float(s.gain), leaf=int(s.leaf), feature=int(s.feature), threshold=float(s.threshold),
                                   left=int(s.left_target), right=int(s.right_target), queue=[int(v) for v in leaves_to_explore],
                                   n_clusters=int(n_clusters), n_leaves=int(n_leaves), features=[int(v) for v in feature_subset],
                                   K_max=int(K_max), min_leaf=int(min_leaf)))
            return s
        kauri_mod.find_best_split = wrapped
        return self

    def __exit__(self, *a):
        kauri_mod.find_best_split = self.orig


def run_fit(X, p, Kmat):
    est = impl.Kauri(**p)
    with Recorder() as rec:
        est.fit(X, Kmat)
    return est, rec.calls


# ------------------------------------------------------------------ rank encoding (order-preserving map to integers)
class Ranks:
    """Feature value v of feature f -> integer: 2*j if v is the j-th smallest observed value, 2*j-1 if it
    lies strictly between the (j-1)-th and j-th (so v <= u_j  <=>  rank(v) <= 2*j)."""

    def __init__(self, X):
        self.u = [np.unique(X[:, f]) for f in range(X.shape[1])]

    def enc(self, f, v):
        u = self.u[f]
        pos = int(np.searchsorted(u, v, side="left"))
        return 2 * pos if pos < len(u) and u[pos] == v else 2 * pos - 1

    def rows(self, A):
        return [[self.enc(f, A[i, f]) for f in range(A.shape[1])] for i in range(A.shape[0])]


def enc_rows(rows):
    return enc_list(rows, lambda r: enc_list(r))


def ask_model(chk, X, p, calls, fresh):
    n, d = X.shape
    rk = Ranks(X)
    splits = [c for c in calls if c["gain"] > 0]
    terminal = len(calls) > 0 and not (calls[-1]["gain"] > 0)
    sp_tokens = enc_list(splits, lambda c: f"{c['leaf']} {c['feature']} {rk.enc(c['feature'], c['threshold']) if 0 <= c['feature'] < d else 0} {c['left']} {c['right']}")
    line = (f"{p['max_clusters']} {enc_opt(p['max_depth'])} {p['min_samples_split']} {p['min_samples_leaf']} {enc_opt(p['max_leaves'])} "
            f"{d} {enc_rows(rk.rows(X))} {sp_tokens} {1 if terminal else 0} {enc_rows(rk.rows(fresh))}")
    # the proved model (golden rules) is what the implementation is compared with; the model under the rules
    # regenerated from the current source must say the same thing, token for token
    t = chk.ask("c09.fit_golden " + line)
    regen = chk.ask("c09.fit " + line)
    regen_same = (regen.t == t.t)
    status = t.int()
    if status == 3:
        return {"status": 3, "regen_same": regen_same}
    res = {"status": status, "bad": t.int(), "n_leaves": t.int(), "n_clusters": t.int(), "queue": t.list(t.int)}
    nn = t.int()
    nodes = []
    for _ in range(nn):
        l, r, f = t.int(), t.int(), t.int()
        th = t.opt(t.int)
        nodes.append((l, r, f, th, t.int(), t.int()))
    res["nodes"] = nodes
    res["labels"] = t.list(t.int)
    res["leaves"] = t.list(t.int)
    res["pred_train"] = t.list(lambda: t.opt(t.int))
    res["pred_fresh"] = t.list(lambda: t.opt(t.int))
    res["leaf_fresh"] = t.list(lambda: t.opt(t.int))
    res["node_counts"] = t.list(t.int)
    res["count_leaves"] = t.int()
    res["depth"] = t.int()
    res["trace"] = t.list(lambda: (t.int(), t.int(), t.list(t.int)))
    res["ranks"] = rk
    res["regen_same"] = regen_same
    return res


STATUS = {1: "the implementation stopped splitting although the model's loop guard still holds and no gain<=0 was returned",
          2: "a split chosen by find_best_split is not admissible in the model state (leaf not explorable / feature / threshold not an observed value of the leaf / side smaller than min_samples_leaf / targets)",
          3: "the model loop ran out of fuel", 4: "the implementation kept splitting after the model's loop guard had become false"}


def compare_l2(chk, est, X, p, Kmat, calls, fresh, replay):
    """Correspondence: model loop replayed with the recorded splits vs the fitted estimator."""
    ok = True
    m = ask_model(chk, X, p, calls, fresh)
    if not m["regen_same"]:
        chk.fail("fit:regenerated-rules-diverge", "the model instantiated with the rules regenerated from the current kauri.py (Gen/KauriFitRules.v) "
                 "behaves differently from the model with the golden rules the theorems were proved for, on this fit", replay)
    if m["status"] != 0:
        chk.fail(f"fit:replay-status-{m['status']}", STATUS[m["status"]] + (f" (split #{m.get('bad')})" if m["status"] == 2 else ""), replay)
        return False
    tr = est.tree_
    rk = m["ranks"]
    impl_nodes = []
    for a in range(len(tr.children_left)):
        f = tr.features[a]
        th = tr.thresholds[a]
        impl_nodes.append((int(tr.children_left[a]), int(tr.children_right[a]), -1 if f is None else int(f),
                           None if th is None else rk.enc(int(f), float(th)), int(tr.target[a]), int(tr.depths[a])))
    if impl_nodes != m["nodes"] or tr.n_nodes != len(m["nodes"]):
        chk.fail("fit:tree-arrays", f"tree arrays differ from the model: impl={impl_nodes} n_nodes={tr.n_nodes} model={m['nodes']}", replay)
        ok = False
    if [int(v) for v in est.labels_] != m["labels"]:
        chk.fail("fit:labels", f"labels_ differ from the model: impl={est.labels_.tolist()} model={m['labels']}", replay)
        ok = False
    if [int(v) for v in est.leaves_] != m["leaves"]:
        chk.fail("fit:leaves", f"leaves_ differ from the model: impl={est.leaves_.tolist()} model={m['leaves']}", replay)
        ok = False
    # loop state handed to find_best_split at every iteration (n_leaves, n_clusters, leaves_to_explore)
    itrace = [(c["n_leaves"], c["n_clusters"], c["queue"]) for c in calls]
    if itrace != m["trace"]:
        j = next((a for a in range(min(len(itrace), len(m["trace"]))) if itrace[a] != m["trace"][a]), min(len(itrace), len(m["trace"])))
        chk.fail("fit:loop-state", f"loop state (n_leaves, n_clusters, leaves_to_explore) at find_best_split call #{j} differs: "
                                   f"impl={itrace[j] if j < len(itrace) else None} model={m['trace'][j] if j < len(m['trace']) else None}", replay)
        ok = False
    paths = [route_np(tr, X[i]) for i in range(len(X))]
    if all(q is not None for q in paths):
        cnt = [0] * tr.n_nodes
        for q in paths:
            for a in q:
                cnt[a] += 1
        if cnt != m["node_counts"]:
            chk.fail("fit:node-counts", f"number of training rows through each node differs: impl={cnt} model={m['node_counts']}", replay)
            ok = False
    if m["count_leaves"] != sum(1 for a in tr.children_left if a == -1) or m["depth"] != tr.get_depth():
        chk.fail("fit:leaves-depth", f"leaf count / get_depth() differ: impl={sum(1 for a in tr.children_left if a == -1)}/{tr.get_depth()} model={m['count_leaves']}/{m['depth']}", replay)
        ok = False
    lf = [None if (q := route_np(tr, fresh[j])) is None else q[-1] for j in range(len(fresh))]
    if lf != m["leaf_fresh"]:
        chk.fail("predict:fresh-leaf", f"leaf reached by fresh points differs: impl={lf} model={m['leaf_fresh']}", dict(replay, fresh=fresh.tolist()))
        ok = False
    pt = [int(v) for v in est.predict(X)]
    if [None if v is None else int(v) for v in m["pred_train"]] != pt:
        chk.fail("predict:train", f"predict(X) differs from the model routing: impl={pt} model={m['pred_train']}", replay)
        ok = False
    pf = [int(v) for v in est.predict(fresh)]
    if m["pred_fresh"] != pf:
        chk.fail("predict:fresh", f"predict on fresh points differs from the model routing: impl={pf} model={m['pred_fresh']}", dict(replay, fresh=fresh.tolist()))
        ok = False
    # score: float instance of the model objective on the implementation's predicted labels
    Kfull = Kmat if p["kernel"] == "precomputed" else pairwise_kernels(X, metric=p["kernel"])
    sc = float(est.score(X, Kmat))
    t = chk.ask(f"c09.objective {p['max_clusters']} {enc_list(pt)} {enc_mat(Kfull)}")
    msc = t.float()
    scale = float(np.abs(Kfull).sum())
    if not abs(sc - msc) <= 1e-9 * (1 + scale):
        chk.fail("score:model", f"score(X)={sc!r} differs from the model objective {msc!r}", replay)
        ok = False
    return ok


# ------------------------------------------------------------------ L3: the property itself, on the fitted estimator
def route_np(tr, x):
    """Independent iterative router; returns the list of visited nodes."""
    a, path = 0, [0]
    for _ in range(len(tr.children_left) + 1):
        if tr.children_left[a] == -1:
            return path
        a = tr.children_left[a] if x[tr.features[a]] <= tr.thresholds[a] else tr.children_right[a]
        path.append(a)
    return None


def leaf_boxes(tr, d):
    """Region of every leaf as per-feature half-open intervals (lo, hi], by a traversal from the root."""
    boxes = {}
    stack = [(0, [(-np.inf, np.inf)] * d, 0)]
    seen = set()
    while stack:
        a, box, depth = stack.pop()
        if a in seen:
            return None
        seen.add(a)
        if tr.children_left[a] == -1:
            boxes[a] = (box, depth)
            continue
        f, th = tr.features[a], tr.thresholds[a]
        lo, hi = box[f]
        lb = list(box); lb[f] = (lo, min(hi, th))
        rb = list(box); rb[f] = (max(lo, th), hi)
        stack.append((tr.children_left[a], lb, depth + 1))
        stack.append((tr.children_right[a], rb, depth + 1))
    return boxes, seen


def oracle_l3(chk, est, X, p, Kmat, fresh, replay, calls=()):
    n, d = X.shape
    tr = est.tree_
    fl = lambda key, what, extra=None: chk.fail(key, what, dict(replay, **(extra or {})), layer="L3")
    ok = True
    max_leaves = p["max_leaves"] if p["max_leaves"] is not None else n
    max_depth = p["max_depth"] if p["max_depth"] is not None else n
    nn = tr.n_nodes
    arrays = [tr.children_left, tr.children_right, tr.features, tr.thresholds, tr.target, tr.depths, tr.categorical_nodes]
    if any(len(a) != nn for a in arrays):
        fl("tree:array-lengths", f"tree arrays do not all have n_nodes={nn} entries")
        return False
    if any(tr.categorical_nodes):
        fl("tree:categorical", "a node is flagged categorical")
        ok = False
    leaves = [a for a in range(nn) if tr.children_left[a] == -1]
    internal = [a for a in range(nn) if tr.children_left[a] != -1]
    for a in range(nn):
        if (tr.children_left[a] == -1) != (tr.children_right[a] == -1) or (tr.children_left[a] == -1) != (tr.features[a] is None) \
                or (tr.features[a] is None) != (tr.thresholds[a] is None):
            fl("tree:half-node", f"node {a} is neither a proper leaf nor a proper internal node")
            return False
    bx = leaf_boxes(tr, d)
    if bx is None or bx[1] != set(range(nn)):
        fl("tree:not-a-tree", "children pointers do not form a tree over all nodes")
        return False
    boxes = bx[0]
    # --- structural limits
    if len(leaves) > max_leaves:
        fl("limit:max_leaves", f"{len(leaves)} leaves > max_leaves={max_leaves}")
        ok = False
    if nn != 2 * len(leaves) - 1:
        fl("limit:nodes", f"n_nodes={nn} != 2*leaves-1 with {len(leaves)} leaves")
        ok = False
    true_depth = {}
    stack = [(0, 0)]
    while stack:
        a, dd = stack.pop()
        true_depth[a] = dd
        if tr.children_left[a] != -1:
            stack += [(tr.children_left[a], dd + 1), (tr.children_right[a], dd + 1)]
    if [true_depth[a] for a in range(nn)] != list(tr.depths):
        fl("tree:depths", f"depths array {tr.depths} is not the depth of the nodes {true_depth}")
        ok = False
    if max(true_depth.values()) > max_depth or tr.get_depth() > max_depth:
        fl("limit:max_depth", f"depth {max(true_depth.values())} > max_depth={max_depth}")
        ok = False
    labs = sorted(set(int(v) for v in est.labels_))
    if len(labs) > p["max_clusters"] or labs != list(range(len(labs))):
        fl("limit:clusters", f"labels used {labs} with max_clusters={p['max_clusters']}: not at most max_clusters labelled contiguously from 0")
        ok = False
    # --- samples per node, thresholds
    paths = [route_np(tr, X[i]) for i in range(n)]
    if any(q is None for q in paths):
        fl("tree:routing-loop", "routing a training row does not terminate")
        return False
    cnt = np.zeros(nn, dtype=int)
    for q in paths:
        for a in q:
            cnt[a] += 1
    for a in leaves:
        if cnt[a] < p["min_samples_leaf"]:
            fl("limit:min_samples_leaf", f"leaf node {a} holds {cnt[a]} samples < min_samples_leaf={p['min_samples_leaf']}")
            ok = False
    for a in internal:
        if cnt[a] < p["min_samples_split"]:
            fl("limit:min_samples_split", f"node {a} holding {cnt[a]} samples < min_samples_split={p['min_samples_split']} was split")
            ok = False
        f, th = tr.features[a], tr.thresholds[a]
        if not (0 <= f < d) or not any(X[i, f] == th for i in range(n) if a in paths[i]):
            fl("tree:threshold-observed", f"node {a}: threshold {th!r} of feature {f} is not an observed value of that feature among the samples reaching the node")
            ok = False
    # --- every split uses a feature find_best_split was offered (max_features distinct features of the data)
    mf = d if p["max_features"] is None else min(d, max(p["max_features"], 1))
    for j, c in enumerate(calls):
        if len(c["features"]) != mf or len(set(c["features"])) != mf or not all(0 <= f < d for f in c["features"]):
            fl("split:feature-subset", f"find_best_split call #{j} was offered features {c['features']} (max_features={p['max_features']}, d={d})")
            ok = False
        if c["gain"] > 0 and c["feature"] not in c["features"]:
            fl("split:feature-not-offered", f"split #{j} uses feature {c['feature']} outside the offered subset {c['features']}")
            ok = False
        if c["gain"] > 0 and c["leaf"] not in c["queue"]:
            fl("split:leaf-not-explorable", f"split #{j} splits leaf {c['leaf']} outside leaves_to_explore {c['queue']}")
            ok = False
    # --- the split find_best_split announced, the node stored in the tree and the partition applied are the same thing
    j = 0
    for c in calls:
        if not c["gain"] > 0:
            continue
        fathers = [a for a in internal if tr.children_left[a] == 2 * j + 1]
        if len(fathers) != 1 or tr.children_right[fathers[0]] != 2 * j + 2:
            fl("split:stored-node", f"split #{j} did not create the node pair ({2 * j + 1}, {2 * j + 2}) under one father")
            ok = False
            break
        a = fathers[0]
        if tr.features[a] != c["feature"] or not (tr.thresholds[a] == c["threshold"]) or not (tr.gains[a] == c["gain"]) \
                or tr.target[2 * j + 1] != c["left"] or tr.target[2 * j + 2] != c["right"]:
            fl("split:recorded-vs-stored", f"split #{j}: find_best_split returned feature {c['feature']} threshold {c['threshold']!r} gain {c['gain']!r} "
                                           f"targets ({c['left']}, {c['right']}) but node {a} stores feature {tr.features[a]} threshold {tr.thresholds[a]!r} "
                                           f"gain {tr.gains[a]!r} targets ({tr.target[2 * j + 1]}, {tr.target[2 * j + 2]})")
            ok = False
        at_father = [i for i in range(n) if a in paths[i]]
        announced_left = sorted(i for i in at_father if X[i, c["feature"]] <= c["threshold"])
        stored_left = sorted(i for i in at_father if (2 * j + 1) in paths[i])
        if announced_left != stored_left or not (p["min_samples_leaf"] <= len(stored_left) <= len(at_father) - p["min_samples_leaf"]):
            fl("split:partition", f"split #{j} (node {a}): rows sent left by the stored tree {stored_left} are not the rows at or below the announced "
                                  f"threshold {c['threshold']!r} {announced_left} (node holds {len(at_father)} rows, min_samples_leaf={p['min_samples_leaf']})")
            ok = False
        j += 1
    # --- each leaf one cluster, leaves_ / labels_ bookkeeping, predict reproduces labels_
    leaf_node = np.array([q[-1] for q in paths])
    pred = est.predict(X)
    if not np.array_equal(pred, est.labels_):
        fl("predict:labels", f"predict(X)={pred.tolist()} does not reproduce labels_={est.labels_.tolist()}")
        ok = False
    pairs = set(zip(est.leaves_.tolist(), leaf_node.tolist()))
    if len(pairs) != len(set(est.leaves_.tolist())) or len(pairs) != len(set(leaf_node.tolist())) or len(set(leaf_node.tolist())) != len(leaves):
        fl("leaves:bookkeeping", f"leaves_ is not a relabelling of the tree leaves reached by the training rows: {sorted(pairs)} leaves={leaves}")
        ok = False
    for a in leaves:
        ls = set(est.labels_[leaf_node == a].tolist())
        if len(ls) > 1 or (ls and ls != {tr.target[a]}):
            fl("leaves:one-cluster", f"leaf node {a} (target {tr.target[a]}) holds samples labelled {sorted(ls)}")
            ok = False
    # --- new points: label of the leaf region containing them
    pf = est.predict(fresh)
    for j in range(len(fresh)):
        inside = [a for a in leaves if all(boxes[a][0][f][0] < fresh[j, f] <= boxes[a][0][f][1] for f in range(d))]
        if len(inside) != 1 or int(pf[j]) != tr.target[inside[0]]:
            fl("predict:region", f"fresh point {fresh[j].tolist()} lies in the region of leaves {inside} "
                                 f"(targets {[tr.target[a] for a in inside]}) but predict gives {int(pf[j])}", {"fresh": fresh.tolist()})
            ok = False
            break
    # --- score = kernel-KMeans objective of the predicted labels
    for (A, Kk, tag) in ([(X, Kmat, "train")] + ([(fresh, None, "fresh")] if p["kernel"] != "precomputed" else [])):
        Kfull = Kk if p["kernel"] == "precomputed" else pairwise_kernels(A, metric=p["kernel"])
        yp = est.predict(A)
        ref = 0.0
        for k in np.unique(yp):
            idx = np.where(yp == k)[0]
            ref += Kfull[np.ix_(idx, idx)].sum() / len(idx)
        sc = float(est.score(A, Kk))
        same_nonfinite = (np.isnan(sc) and np.isnan(ref)) or (np.isinf(sc) and sc == ref)      # overflowing kernels: both sides overflow alike
        if not same_nonfinite and not abs(sc - ref) <= 1e-9 * (1 + float(np.abs(Kfull).sum())):
            fl("score:objective", f"score on {tag} data = {sc!r} but the kernel-KMeans objective of the predicted labels is {ref!r}")
            ok = False
    return ok


# ------------------------------------------------------------------ streams
def describe(p):
    return {k: p[k] for k in ("max_clusters", "max_depth", "min_samples_split", "min_samples_leaf", "max_features", "max_leaves", "kernel", "random_state")}


def same_bits(a, b):
    a, b = np.asarray(a), np.asarray(b)
    return a.dtype == b.dtype and a.shape == b.shape and a.tobytes() == b.tobytes()


def tree_sig(est):
    t = est.tree_
    return (list(map(int, t.children_left)), list(map(int, t.children_right)), list(t.features), list(t.thresholds), list(map(int, t.target)),
            list(map(int, t.depths)), t.n_nodes, [int(v) for v in est.labels_], [int(v) for v in est.leaves_])


def other_routes(chk, est, X, p, Kmat, fresh, replay):
    """fit_predict has its own route to labels_; Kauri.predict goes through tree_.predict; score through predict."""
    fp = impl.Kauri(**p).fit_predict(X.copy(), None if Kmat is None else Kmat.copy())
    if [int(v) for v in fp] != [int(v) for v in est.labels_]:
        chk.fail("route:fit_predict", f"fit_predict(X) = {fp.tolist()} differs from fit(X).labels_ = {est.labels_.tolist()}", replay, layer="L3")
    again = impl.Kauri(**p).fit(X.copy(), None if Kmat is None else Kmat.copy())
    if tree_sig(again) != tree_sig(est):
        chk.fail("route:refit", "a second fit with the same random_state on a copy of the data gives another tree", replay, layer="L3")
    f0 = fresh.copy()
    a, b = est.predict(fresh), est.tree_.predict(fresh)
    if not np.array_equal(a, b) or not same_bits(fresh, f0):
        chk.fail("route:predict", "Kauri.predict differs from tree_.predict on fresh rows, or modified them", dict(replay, fresh=f0.tolist()), layer="L3")
    chk.dist["routes-checked"] += 1


def one_case(chk, rng, style, X, p, Kmat, fresh=None, routes=False):
    n, d = X.shape
    replay = {"X": X.tolist(), "params": describe(p), "K": None if Kmat is None else Kmat.tolist()}
    X0, K0 = X.copy(), None if Kmat is None else Kmat.copy()
    est, calls = run_fit(X, p, Kmat)
    thresholds = [(est.tree_.features[a], est.tree_.thresholds[a]) for a in range(est.tree_.n_nodes) if est.tree_.features[a] is not None]
    if fresh is None:
        fresh = fresh_points(rng, X, thresholds)
    if style.startswith("adv:"):
        with np.errstate(over="ignore"):
            if any(np.nextafter(th, np.inf) in X[:, f] for f, th in thresholds):
                chk.dist["adversarial:cut-between-adjacent-doubles"] += 1
            if any(not np.isfinite(th + X[:, f][X[:, f] > th].min()) for f, th in thresholds if (X[:, f] > th).any()):
                chk.dist["adversarial:cut-with-overflowing-midpoint"] += 1
            if any(abs(th) < 2.3e-308 for f, th in thresholds):
                chk.dist["adversarial:cut-at-zero-or-denormal"] += 1
    ok3 = oracle_l3(chk, est, X, p, Kmat, fresh, replay, calls)
    r2 = compare_l2(chk, est, X, p, Kmat, calls, fresh, replay)
    if routes:
        other_routes(chk, est, X, p, Kmat, fresh, replay)
    if not same_bits(X, X0) or (Kmat is not None and not same_bits(Kmat, K0)):
        chk.fail("args:modified", "fit / predict / score modified the caller's X or kernel", replay, layer="L3")
    nsplit = sum(1 for c in calls if c["gain"] > 0)
    tr = est.tree_
    nleaves = nsplit + 1
    maxl = p["max_leaves"] if p["max_leaves"] is not None else n
    maxd = p["max_depth"] if p["max_depth"] is not None else n
    bound = []
    if nleaves == maxl and nleaves > 1: bound.append("leaves")
    if tr.get_depth() == maxd: bound.append("depth")
    if len(set(est.labels_.tolist())) == p["max_clusters"] and nsplit > 0: bound.append("clusters")
    if calls and not (calls[-1]["gain"] > 0): bound.append("gain")
    if n < p["min_samples_split"]: bound.append("root-too-small")
    kinds = set()
    for c in calls:
        if c["gain"] > 0:
            nc = c["n_clusters"]
            kinds.add("double-star" if c["left"] >= nc and c["right"] >= nc else "star" if (c["left"] >= nc or c["right"] >= nc) else "switch/realloc")
    chk.dist[f"splits={min(nsplit, 6)}{'+' if nsplit > 6 else ''}"] += 1
    chk.dist["data:" + style] += 1
    chk.dist["kernel:" + p["kernel"]] += 1
    for b in bound: chk.dist["stop:" + b] += 1
    for k in kinds: chk.dist["kind:" + k] += 1
    chk.traces += 1
    chk.count((n, d, tuple(sorted((k, str(v)) for k, v in describe(p).items())), nsplit, tuple(bound)) if (nsplit >= 2 or (bound and bound != ["gain"])) else None)
    chk.sample({"n": n, "d": d, "params": describe(p), "data": style, "splits": nsplit, "stopped_by": bound,
                "tree": {"children_left": list(map(int, tr.children_left)), "features": tr.features, "target": list(map(int, tr.target))}})
    return ok3 and bool(r2)


def stream_fit(chk, i, rng):
    style, X, p, Kmat = gen_case(chk, rng)
    one_case(chk, rng, style, X, p, Kmat)


def stream_tight(chk, i, rng):
    """Limits drawn to interact: tiny data, root near min_samples_split, depth 1/2, leaves 2/3, many clusters allowed."""
    style, X, p, Kmat = gen_case(chk, rng, force_small=(i % 4 == 0))
    n = len(X)
    p["max_clusters"] = int(rng.choice([2, 3, 4, 6]))
    p["min_samples_leaf"] = int(rng.choice([1, 2, max(1, n // 4)]))
    p["min_samples_split"] = max(2, 2 * p["min_samples_leaf"], int(rng.choice([2, 2, 3, n - 1, n, n + 1, max(2, n // 2), max(2, n // 3)])))
    p["max_depth"] = [None, 1, 2, 3][int(rng.integers(0, 4))]
    p["max_leaves"] = [None, 2, 3, 4, max(2, n), n + 1][int(rng.integers(0, 6))]
    if n < p["min_samples_leaf"]:
        p["min_samples_leaf"] = 1
        p["min_samples_split"] = max(2, p["min_samples_split"])
    one_case(chk, rng, "tight:" + style, X, p, Kmat)


def stream_malformed(chk, i, rng):
    """Contradictory limits / too few samples must be refused, not produce a tree breaking the limits."""
    style, X, p, Kmat = gen_case(chk, rng)
    n = len(X)
    kind = i % 3
    if kind == 0:
        p["min_samples_leaf"] = int(rng.integers(2, 6))
        p["min_samples_split"] = int(rng.integers(2, 2 * p["min_samples_leaf"]))
        if n < p["min_samples_leaf"]:
            kind = 1
    elif kind == 1:
        p["min_samples_leaf"] = n + int(rng.integers(1, 4))
        p["min_samples_split"] = 2 * p["min_samples_leaf"]
    else:
        name, bad = [("max_clusters", 0), ("max_depth", 0), ("min_samples_leaf", 0), ("max_leaves", 1), ("min_samples_split", 1),
                     ("max_clusters", -1), ("max_features", 0)][int(rng.integers(0, 7))]
        p[name] = bad
    replay = {"X": X.tolist(), "params": describe(p), "K": None if Kmat is None else Kmat.tolist()}
    try:
        est, calls = run_fit(X, p, Kmat)
    except (ValueError, TypeError):
        chk.dist["malformed:rejected"] += 1
        chk.count(("malformed", kind, n, p["min_samples_split"], p["min_samples_leaf"]))
        return
    chk.dist["malformed:accepted"] += 1
    # accepted although the limits are contradictory: the tree must still obey every stated limit
    fresh = fresh_points(rng, X, [])
    if not oracle_l3(chk, est, X, p, Kmat, fresh, replay):
        pass
    else:
        chk.fail("malformed:accepted", f"fit accepted contradictory limits {describe(p)} with n={n}", replay, layer="L3")
    chk.count(None)


# ------------------------------------------------------------------ adversarial floats, boundary limits (round-3 lessons, family 2 and 3)
def adversarial_column(rng, n, kind):
    x0 = float(rng.choice([0.3, 1.0, -2.5, 1e-3, 123456.789, 1e16]))
    if kind == "adjacent":        # the cut may fall between two consecutive doubles
        pool = [0.1, 0.2, 0.3, 0.1 + 0.2, 0.5, 0.6, x0, np.nextafter(x0, np.inf), np.nextafter(x0, -np.inf), np.nextafter(np.nextafter(x0, np.inf), np.inf)]
    elif kind == "huge":          # sums / midpoints of two values overflow
        pool = [1e300, -1e300, 1e300 * (1 + 2 ** -52), 8.9e307, 9.1e307, 1.7e308, -1.7e308, 0.0, 1.0]
    elif kind == "denormal":      # denormals and the two zeros
        pool = [5e-324, 1e-323, 1e-310, -5e-324, 0.0, -0.0, 2.2250738585072014e-308, 1.0]
    else:                         # ties: few distinct values, many duplicates
        pool = [x0, x0, np.nextafter(x0, np.inf), x0 + 1.0]
    return np.array([pool[int(rng.integers(0, len(pool)))] for _ in range(n)], dtype=float)


def stream_adversarial(chk, i, rng):
    kind = ["adjacent", "huge", "denormal", "ties"][i % 4]
    n = int(rng.integers(2, 13)) if i % 7 else 1
    d = 1 if i % 3 == 0 else int(rng.integers(1, 4))
    X = np.column_stack([adversarial_column(rng, n, kind if f == 0 or rng.random() < 0.5 else "ties") for f in range(d)])
    # kernel: bounded precomputed ones (the feature values are only ever compared); blocks follow the order of feature 0 so that the
    # best cut tends to sit between neighbouring values; sometimes asymmetric with negative entries; linear only for moderate magnitudes
    kk = int(rng.integers(0, 4))
    order = np.argsort(X[:, 0], kind="stable")
    grp = np.empty(n, dtype=int)
    grp[order] = (np.arange(n) * int(rng.integers(2, 4))) // max(n, 1)
    if kk == 0 and kind in ("adjacent", "ties"):
        kernel, Kmat = "linear", None
    else:
        kernel = "precomputed"
        Kmat = np.where(grp[:, None] == grp[None, :], 1.0, -0.5) + 0.01 * np.eye(n)
        if kk == 2:
            A = np.round(rng.normal(size=(n, n)) * 4) / 8
            Kmat = Kmat + (A + A.T) / 2
        if kk == 3:
            Kmat = Kmat + np.round(rng.normal(size=(n, n)) * 4) / 16        # asymmetric, negative entries
    msl = int(rng.choice([1, 1, 2]))
    msl = min(msl, n)
    bnd = int(rng.integers(0, 6))       # limits sitting exactly on their boundary
    p = dict(max_clusters=[1, 2, 3, n, n + 1, 4][bnd] or 1, max_depth=[None, 1, 2, None, None, 3][bnd], min_samples_split=max(2, 2 * msl),
             min_samples_leaf=msl, max_features=[None, 1, d, d + 1, None, 1][bnd], max_leaves=[None, 2, None, max(2, n), n + 1, 3][bnd],
             kernel=kernel, random_state=int(rng.integers(0, 10 ** 6)))
    if bnd == 3:
        p["min_samples_split"] = max(2, n, 2 * msl)             # root holds exactly min_samples_split rows (when n >= 2*min_samples_leaf)
    if bnd == 4:
        p["min_samples_leaf"], p["min_samples_split"] = 1, 2   # one sample per cluster is reachable
    # fresh rows sitting on / next to every observed value, on midpoints of neighbours (may round onto a neighbour), far away
    fr = []
    for _ in range(int(rng.integers(4, 9))):
        row = X[int(rng.integers(0, n))].copy()
        for f in range(d):
            u = np.unique(X[:, f])
            v = float(u[int(rng.integers(0, len(u)))])
            w = float(u[min(len(u) - 1, int(np.searchsorted(u, v)) + 1)])
            with np.errstate(over="ignore"):
                cand = [v, np.nextafter(v, np.inf), np.nextafter(v, -np.inf), (v + w) / 2, v / 2 + w / 2, -0.0, 0.0, 5e-324, 1e300, -1e300]
            c = float(cand[int(rng.integers(0, len(cand)))])
            row[f] = c if np.isfinite(c) else v
        fr.append(row)
    fresh = np.array(fr, dtype=float).reshape(len(fr), d)
    chk.dist["adversarial:" + kind] += 1
    chk.dist[f"adversarial:boundary={bnd}"] += 1
    one_case(chk, rng, "adv:" + kind, np.ascontiguousarray(X), p, Kmat, fresh=fresh, routes=True)


# ------------------------------------------------------------------ same values, other representation (round-3 lessons, family 1)
# Corners where the UNCHANGED tree raises although the float64 reference call succeeds would be listed here as
# (entry point, argument, representation) -> description: reported to the coordinator, recorded as observations (chk.notes), not failures.
OBSERVED = {}      # the buffer-dtype / read-only corners found here (float32 data in score; float32, integer and read-only precomputed
                   # kernels) were repaired in /repo by 70daa00: a representation that raises is a failure again


def representations(A, rng, integral, binary, exact32):
    """(name, object holding the same values as the float64 C-contiguous array A)"""
    out = [("fortran", np.asfortranarray(A)), ("view", np.repeat(A, 2, axis=0)[::2]), ("colrev-view", A[:, ::-1].copy()[:, ::-1]),
           ("list", A.tolist()), ("tuple", tuple(map(tuple, A.tolist())))]
    ro = A.copy()
    ro.setflags(write=False)
    out.append(("readonly", ro))
    if integral:
        out += [("int64", A.astype(np.int64)), ("int32", A.astype(np.int32))]
    if binary:
        out.append(("bool", A.astype(bool)))
    if exact32:
        out.append(("float32", A.astype(np.float32)))
    idx = rng.permutation(len(out))[:4]
    return [out[j] for j in idx]


def snapshot(v):
    return (v.dtype, v.shape, v.tobytes(), v.flags.writeable) if isinstance(v, np.ndarray) else json.dumps(v)


def unchanged(v, snap):
    return snapshot(v) == snap


def guarded(chk, entry, arg, name, fn, replay):
    """run fn(); an exception is a failure unless it is one of the reported corners of the unchanged tree"""
    try:
        return True, fn()
    except Exception as e:  # noqa
        key = (entry, arg, name)
        if key in OBSERVED:
            chk.dist[f"observed:{entry}:{arg}:{name}"] += 1
            note = f"observation (unchanged tree, reported): {OBSERVED[key]}"
            if note not in chk.notes:
                chk.notes.append(note)
            return False, None
        chk.fail(f"repr:{entry}:{arg}:{name}:exception", f"{entry} raises {type(e).__name__}: {e} when {arg} is given as {name} although the float64 call succeeds", replay, layer="L3")
        return False, None


def stream_repr(chk, i, rng):
    n, d = int(rng.integers(4, 13)), int(rng.integers(1, 4))
    binary = i % 5 == 0
    integral = binary or i % 2 == 0
    if binary:
        X = (rng.random((n, d)) < 0.5).astype(float)
    elif integral:
        X = rng.integers(-3, 4, size=(n, d)).astype(float)
    else:
        X = rng.integers(-24, 25, size=(n, d)) / 8.0          # exactly representable in float32
    X = np.ascontiguousarray(X)
    kernel = ["linear", "precomputed", "rbf", "precomputed"][i % 4]
    Kmat = None
    kint = False
    if kernel == "precomputed":
        A = rng.integers(-8, 9, size=(n, n)).astype(float)
        Kmat = A + A.T
        kint = rng.random() < 0.5
        if not kint:
            Kmat = Kmat / 8.0
    p = dict(max_clusters=int(rng.choice([2, 3, 4])), max_depth=None if rng.random() < 0.5 else int(rng.integers(1, 4)), min_samples_split=2,
             min_samples_leaf=1, max_features=None, max_leaves=None, kernel=kernel, random_state=int(rng.integers(0, 10 ** 6)))
    replay = {"X": X.tolist(), "params": describe(p), "K": None if Kmat is None else Kmat.tolist()}
    ref = impl.Kauri(**p).fit(X, Kmat)
    ref_sig, ref_pred, ref_score = tree_sig(ref), ref.predict(X).tolist(), float(ref.score(X, Kmat))
    tol = 1e-12 * (1 + abs(ref_score))
    # --- X in other representations: fit, fit_predict, predict, score
    for name, V in representations(X, rng, integral, binary, True):
        snap = snapshot(V)
        rp = dict(replay, representation=name)
        ok, est = guarded(chk, "fit", "X", name, lambda: impl.Kauri(**p).fit(V, Kmat), rp)
        if ok and tree_sig(est) != ref_sig:
            chk.fail(f"repr:fit:X:{name}", f"fit on the same values given as {name} gives another tree / labels_ / leaves_", rp, layer="L3")
        ok, lab = guarded(chk, "fit_predict", "X", name, lambda: impl.Kauri(**p).fit_predict(V, Kmat), rp)
        if ok and [int(v) for v in lab] != ref_sig[7]:
            chk.fail(f"repr:fit_predict:X:{name}", f"fit_predict on the same values given as {name} gives other labels", rp, layer="L3")
        ok, pr = guarded(chk, "predict", "X", name, lambda: ref.predict(V), rp)
        if ok and pr.tolist() != ref_pred:
            chk.fail(f"repr:predict:X:{name}", f"predict on the same values given as {name} gives other labels", rp, layer="L3")
        ok, sc = guarded(chk, "score", "X", name, lambda: float(ref.score(V, Kmat)), rp)
        # float32 rows: the linear kernel of multiples of 1/8 is exact; rbf is evaluated by scikit-learn in single precision
        if ok and not abs(sc - ref_score) <= (1e-5 * (1 + abs(ref_score)) if (name == "float32" and kernel == "rbf") else tol):
            chk.fail(f"repr:score:X:{name}", f"score on the same values given as {name} is {sc!r}, reference {ref_score!r}", rp, layer="L3")
        if not unchanged(V, snap):
            chk.fail(f"repr:args-modified:X:{name}", f"the caller's X ({name}) was modified", rp, layer="L3")
        chk.dist["repr:X:" + name] += 1
    # --- the precomputed kernel in other representations: fit, score
    if Kmat is not None:
        for name, V in representations(Kmat, rng, kint, False, True):
            snap = snapshot(V)
            rp = dict(replay, kernel_representation=name)
            ok, est = guarded(chk, "fit", "K", name, lambda: impl.Kauri(**p).fit(X, V), rp)
            if ok and tree_sig(est) != ref_sig:
                chk.fail(f"repr:fit:K:{name}", f"fit with the same kernel values given as {name} gives another tree / labels_ / leaves_", rp, layer="L3")
            ok, sc = guarded(chk, "score", "K", name, lambda: float(ref.score(X, V)), rp)
            if ok and not abs(sc - ref_score) <= tol:
                chk.fail(f"repr:score:K:{name}", f"score with the same kernel values given as {name} is {sc!r}, reference {ref_score!r}", rp, layer="L3")
            if not unchanged(V, snap):
                chk.fail(f"repr:args-modified:K:{name}", f"the caller's kernel ({name}) was modified", rp, layer="L3")
            chk.dist["repr:K:" + name] += 1
    # --- integer / bool / float32 query rows against a tree whose thresholds are fractional and negative
    Xh = X - 0.5 if integral else X + 1 / 16
    mh = impl.Kauri(**dict(p, kernel="linear")).fit(Xh)
    Q = rng.integers(-3, 4, size=(int(rng.integers(3, 9)), d)).astype(float)
    if binary:
        Q = (Q > 0).astype(float)
    refq = mh.predict(Q).tolist()
    box = leaf_boxes(mh.tree_, d)
    for j in range(len(Q)):     # independent reference: the leaf box containing the row
        inside = [a for a, (b, _) in box[0].items() if all(b[f][0] < Q[j, f] <= b[f][1] for f in range(d))]
        if len(inside) != 1 or mh.tree_.target[inside[0]] != refq[j]:
            chk.fail("repr:predict:region", f"query row {Q[j].tolist()} is not labelled by the leaf region containing it", dict(replay, Q=Q.tolist()), layer="L3")
    for name, V in representations(Q, rng, True, binary, True):
        snap = snapshot(V)
        rp = dict(replay, query=Q.tolist(), representation=name, thresholds=[t for t in mh.tree_.thresholds if t is not None])
        ok, pr = guarded(chk, "predict", "X", name, lambda: mh.predict(V), rp)
        if ok and pr.tolist() != refq:
            chk.fail(f"repr:predict:Q:{name}", f"predict of integer-valued rows given as {name} differs from the float64 call (fractional thresholds)", rp, layer="L3")
        if not unchanged(V, snap):
            chk.fail(f"repr:args-modified:Q:{name}", f"the caller's query array ({name}) was modified", rp, layer="L3")
        chk.dist["repr:Q:" + name] += 1
    # --- float32 query rows with ARBITRARY values (not exactly representable thresholds): predict must compare in double precision,
    #     i.e. give what the same rows widened to float64 give; rows sit on / next to the thresholds rounded to float32
    Xa = rng.normal(size=(n, d)) if i % 3 else np.round(rng.normal(size=(n, d)), 1)
    ma = impl.Kauri(**dict(p, kernel="linear")).fit(Xa)
    tha = [(f, t) for f, t in zip(ma.tree_.features, ma.tree_.thresholds) if t is not None]
    rows = [rng.normal(size=d).astype(np.float32) for _ in range(4)]
    for f, t in tha:
        t32 = np.float32(t)
        for v in (t32, np.nextafter(t32, np.float32(np.inf)), np.nextafter(t32, np.float32(-np.inf))):
            r = Xa[int(rng.integers(0, n))].astype(np.float32)
            r[f] = v
            rows.append(r)
    Q32 = np.array(rows, dtype=np.float32).reshape(len(rows), d)
    Q64 = Q32.astype(np.float64)
    snap = snapshot(Q32)
    rp = dict(replay, Xa=Xa.tolist(), Q32=Q64.tolist(), thresholds=[t for _, t in tha])
    ok, p32 = guarded(chk, "predict", "X", "float32-arbitrary", lambda: ma.predict(Q32), rp)
    p64 = ma.predict(Q64)
    boxa = leaf_boxes(ma.tree_, d)
    for j in range(len(Q64)):
        inside = [a for a, (b, _) in boxa[0].items() if all(b[f][0] < Q64[j, f] <= b[f][1] for f in range(d))]
        if len(inside) != 1 or ma.tree_.target[inside[0]] != int(p64[j]):
            chk.fail("repr:predict:region", f"query row {Q64[j].tolist()} is not labelled by the leaf region containing it", rp, layer="L3")
            break
    if ok and p32.tolist() != p64.tolist():
        chk.fail("repr:predict:float32-arbitrary", f"predict of float32 rows {p32.tolist()} differs from predict of the same rows widened to float64 {p64.tolist()} "
                                                   "(rows are compared with thresholds rounded to float32?)", rp, layer="L3")
    if not unchanged(Q32, snap):
        chk.fail("repr:args-modified:Q:float32", "the caller's float32 query array was modified", rp, layer="L3")
    chk.dist["repr:Q:float32-arbitrary"] += 1
    if any(float(np.float32(t)) != t for _, t in tha):
        chk.dist["repr:Q:float32-arbitrary:threshold-not-float32"] += 1
    nsplit = sum(1 for a in ref.tree_.children_left if a != -1)
    chk.count(("repr", n, d, kernel, integral, binary, nsplit) if nsplit >= 1 else None)


STREAMS = {"fit": (stream_fit, 2000, 24000), "tight": (stream_tight, 1000, 13000), "malformed": (stream_malformed, 100, 1200),
           "adversarial": (stream_adversarial, 160, 2400), "repr": (stream_repr, 60, 800)}


def replay_case(chk, rp):
    inp = rp["input"]
    if "X" in inp and "params" in inp:
        X = np.array(inp["X"], dtype=float)
        Kmat = None if inp.get("K") is None else np.array(inp["K"], dtype=float)
        p = dict(inp["params"])
        fresh = np.array(inp["fresh"], dtype=float).reshape(-1, X.shape[1]) if inp.get("fresh") else None
        one_case(chk, chk.rng("replay"), "replay", X, p, Kmat, fresh)
        return True
    return False


def main():
    chk = Check("C09")
    chk.build()
    chk.proofs()
    import os, glob
    for path in sorted(glob.glob(os.path.join(os.path.dirname(os.path.dirname(os.path.abspath(__file__))), "corpus", "C09", "*.json"))):
        try:
            chk.cur = ("corpus:" + os.path.basename(path), 0)
            replay_case(chk, {"input": json.load(open(path))})
        except Exception as e:  # noqa
            chk.fail("corpus:exception", f"{type(e).__name__}: {e}", {"file": path})
        chk.cur = None
    if chk.replay_path:
        rp = json.load(open(chk.replay_path))
        chk.seed = rp.get("seed", chk.seed)
        st, case = rp["input"].get("stream"), rp["input"].get("case")
        chk.cur = (st, case)
        done = False
        try:
            done = replay_case(chk, rp)
        except (ValueError, TypeError) as e:
            chk.notes.append(f"replayed input is rejected by fit: {e}")
            done = True
        chk.cur = None
        if not done and st in STREAMS:
            chk.run_stream(st, STREAMS[st][0], 0, only=case)
    else:
        for name, (fn, q, th) in STREAMS.items():
            cnt = q if chk.tier == "quick" else th
            if chk.l1_broken:
                cnt *= 3
            chk.run_stream(name, fn, cnt)
    chk.finish(rule="streams: real Kauri fits (n 1..40 quick / ..60 thorough, d 1..4; integer grids with ties, duplicates, constant and binary features, blobs; "
                    "max_clusters, max_depth, min_samples_split, min_samples_leaf (2*leaf<=split), max_features, max_leaves drawn jointly; kernels linear/rbf/"
                    "laplacian/poly/cosine/sigmoid/precomputed symmetric non-PSD); the sequence of splits returned by gemclus.tree.kauri.find_best_split is recorded, "
                    "each is checked admissible in the model state and replayed through the extracted model loop; tree arrays, labels_, leaves_, final loop state, "
                    "predict on training and fresh rows, score are compared (L2); every clause of the property is evaluated directly on tree_/labels_/predict/score "
                    "with an independent numpy router, leaf boxes and objective (L3). 'tight' draws limits that interact (root vs min_samples_split, depth 1-3, leaves 2-4); "
                    "'malformed' draws contradictory limits that must be rejected. 'adversarial' feeds adjacent doubles, exact ties, 1e300 / overflow-prone, denormal and signed-zero feature values with limits sitting exactly on their boundary (K=1, K=n, one feature, n=1, max_depth/max_leaves reached exactly, root size = min_samples_split) through fit, fit_predict, predict, score with argument copies compared; 'repr' re-runs fit/fit_predict/predict/score on the same values as int64/int32/bool/float32/Fortran/views/read-only/lists/tuples (X, precomputed kernel, integer query rows against fractional thresholds) and requires identical results and untouched arguments. non-trivial = at least two splits, or a structural limit (not only gain<=0) stopped the fit; "
                    "distinct = distinct (n, d, parameters, #splits, binding limits)")


if __name__ == "__main__":
    main()
