"""C04 — fit succeeds on every valid configuration and yields a coherent model.

The "never raises" half of the property is decided here by enumeration of the configuration grammar that
each estimator's own validation accepts (the option lists are read from `_parameter_constraints`, so a new
option value is enumerated automatically); the "coherent model" half is proved in Coq (Props/C04.v), tied to
the code by running the extracted model on the fitted parameters of every real fit (L2), and re-checked
directly on the fitted object (L3).

A case is a JSON-able *spec* {est, params (tokens), data}: it is its own replay.
"""
import os, sys, io, json, time, signal, traceback, contextlib, itertools, collections, copy
import multiprocessing as mp
import numpy as np
from core import Check, enc_mat, enc_vec
import impl
from sklearn.base import clone
from sklearn.metrics.pairwise import pairwise_kernels, pairwise_distances
from sklearn.utils._param_validation import Interval, StrOptions, InvalidParameterError
from gemclus.gemini._base_loss import _GEMINI

G = impl.G
GEM_CLASSES = {c.__name__: c for c in (G.KLGEMINI, G.TVGEMINI, G.HellingerGEMINI, G.ChiSquareGEMINI, G.MMDGEMINI, G.WassersteinGEMINI, G.MI)}
OBJ = {"KLGEMINI": "kl", "MI": "kl", "TVGEMINI": "tv", "HellingerGEMINI": "he", "ChiSquareGEMINI": "chi", "MMDGEMINI": "mmd"}
TIMEOUT = 120          # seconds per case: "terminates"
TOL = 1e-9
# metric preconditions documented by scikit-learn itself (the only exclusions of this check):
#   chi2 / additive_chi2 kernels are defined for non-negative data only; haversine for 2 features (lat, lon) only
NONNEG_KERNELS = {"chi2", "additive_chi2"}
TWO_FEATURE_METRICS = {"haversine"}


# ---------------------------------------------------------------------------------------------- callables
def callable_kernel(X, Y=None):
    """Valid as a GEMINI kernel (one matrix), a KernelRIM base_kernel (two matrices) and a Kauri kernel
    (scikit-learn calls it on two rows)."""
    X = np.asarray(X, dtype=float)
    Y = X if Y is None else np.asarray(Y, dtype=float)
    if X.ndim == 1:
        return float(np.dot(X, Y)) + 1.0
    return X @ Y.T + 1.0


def callable_metric(X, Y=None):
    X = np.asarray(X, dtype=float)
    Y = X if Y is None else np.asarray(Y, dtype=float)
    if X.ndim == 1:
        return float(np.abs(X - Y).sum())
    return np.abs(X[:, None, :] - Y[None, :, :]).sum(-1)


# ---------------------------------------------------------------------------------------------- tokens
def make_groups(kind, d):
    if kind == "full":          # a partition: pairs then a singleton
        return [list(range(j, min(j + 2, d))) for j in range(0, d, 2)]
    if kind == "partial":       # one group, the rest is completed with singletons by check_groups
        return [[1, 0]] if d >= 2 else [[0]]
    if kind == "single-last":
        return [[d - 1]]
    if kind == "empty":
        return []
    if kind == "one-group":
        return [list(range(d))]
    if kind == "duplicate":
        return [[0, 0]]
    if kind == "out-of-range":
        return [[d]]
    raise ValueError(kind)


def make_mask(kind, d):
    m = np.ones(d, dtype=bool)
    if kind == "drop-first" and d >= 2:
        m[0] = False
    if kind == "only-last":
        m[:] = False
        m[d - 1] = True
    if kind == "int-ones":
        return np.ones(d, dtype=int)
    if kind == "none":
        m[:] = False
    if kind == "too-long":
        return np.ones(d + 1, dtype=bool)
    return m


def resolve(tok, d):
    if isinstance(tok, dict):
        if "gem" in tok:
            return GEM_CLASSES[tok["gem"]](**{k: resolve(v, d) for k, v in tok.items() if k != "gem"})
        if "callable" in tok:
            return callable_metric if tok["callable"] == "metric" else callable_kernel
        if "rs" in tok:
            return np.random.RandomState(tok["rs"])
        if "groups" in tok:
            return make_groups(tok["groups"], d)
        if "mask" in tok:
            return make_mask(tok["mask"], d)
        if "dict" in tok:
            return dict(tok["dict"])
    return tok


def tok_str(tok):
    if isinstance(tok, dict):
        if "gem" in tok:
            return tok["gem"] + "(" + ",".join(f"{k}={tok_str(v)}" for k, v in tok.items() if k != "gem") + ")"
        if "callable" in tok:
            return "callable"
        if "rs" in tok:
            return "RandomState"
        if "groups" in tok:
            return "groups-" + tok["groups"]
        if "mask" in tok:
            return "mask-" + tok["mask"]
        if "dict" in tok:
            return "dict" + (repr(sorted(tok["dict"].items())) if tok["dict"] else "{}")
    return repr(tok) if not isinstance(tok, str) else tok


def gem_tokens():
    out = []
    for c in ("KLGEMINI", "TVGEMINI", "HellingerGEMINI", "ChiSquareGEMINI", "MMDGEMINI", "WassersteinGEMINI"):
        for ovo in (False, True):
            out.append({"gem": c, "ovo": ovo})
    out.append({"gem": "MI"})
    out += [{"gem": "MMDGEMINI", "kernel": "precomputed"}, {"gem": "MMDGEMINI", "ovo": True, "kernel": "rbf", "kernel_params": {"dict": {"gamma": 0.5}}},
            {"gem": "MMDGEMINI", "kernel": {"callable": "kernel"}}, {"gem": "WassersteinGEMINI", "metric": "precomputed"},
            {"gem": "WassersteinGEMINI", "ovo": True, "metric": {"callable": "metric"}}, {"gem": "KLGEMINI", "ovo": True, "epsilon": 1e-3}]
    return out


# ---------------------------------------------------------------------------------------------- enumeration
NUM = {
    "n_clusters": lambda n, d: [1, 2, 3, n],
    "max_clusters": lambda n, d: list(range(1, n + 1)),
    "max_iter": lambda n, d: [1, 2, 3],
    "learning_rate": lambda n, d: [1e-12, 1e-3, 0.5, 1e3],
    "batch_size": lambda n, d: list(range(1, n + 2)),
    "n_hidden_dim": lambda n, d: [1, 2, 20],
    "reg": lambda n, d: [0, 0.1, 1e6],
    "alpha": lambda n, d: [0, 0.01, 1e6],
    "M": lambda n, d: [0, 10, 1e6],
    "n_cuts": lambda n, d: [1, 2, 3],
    "temperature": lambda n, d: [1e-6, 0.1, 1e6],
    "max_depth": lambda n, d: [1, 2, n],
    "min_samples_split": lambda n, d: [2, 3, n, n + 1],
    "max_features": lambda n, d: [1, d, d + 2],
    "max_leaves": lambda n, d: [2, 3, n],
}
# values that only make sense together with another hyper-parameter (the estimator's own cross-checks)
COUPLED = {
    "min_samples_leaf": lambda n, d: [{"min_samples_leaf": 1}, {"min_samples_leaf": 2, "min_samples_split": 4},
                                      {"min_samples_leaf": max(1, n // 2), "min_samples_split": 2 * max(1, n // 2)},
                                      {"min_samples_leaf": n, "min_samples_split": 2 * n}],
    "kernel_params": lambda n, d: [{"kernel_params": None}, {"kernel_params": {"dict": {}}},
                                   {"kernel_params": {"dict": {"gamma": 0.5}}, "kernel": "rbf"},
                                   {"kernel_params": {"dict": {"degree": 2, "coef0": 1.0}}, "kernel": "poly"},
                                   {"kernel_params": {"dict": {"gamma": 0.5}}, "kernel": {"callable": "kernel"}}],
    "base_kernel_params": lambda n, d: [{"base_kernel_params": None}, {"base_kernel_params": {"dict": {}}},
                                        {"base_kernel_params": {"dict": {"gamma": 0.5}}, "base_kernel": "rbf"},
                                        {"base_kernel_params": {"dict": {"gamma": 0.5}}, "base_kernel": {"callable": "kernel"}}],
    "metric_params": lambda n, d: [{"metric_params": None}, {"metric_params": {"dict": {}}},
                                   {"metric_params": {"dict": {"squared": True}}, "metric": "euclidean"},
                                   {"metric_params": {"dict": {"squared": True}}, "metric": {"callable": "metric"}}],
}
# constructor arguments without an entry in _parameter_constraints (nothing is validated: every documented form is "accepted")
UNCONSTRAINED = {"groups": [None, {"groups": "full"}, {"groups": "partial"}, {"groups": "single-last"}, {"groups": "empty"}, {"groups": "one-group"}]}
SKIP_PARAMS = set()


def ctor_params(name):
    import inspect
    return [p for p in inspect.signature(impl.ALL_ESTIMATORS[name].__init__).parameters if p != "self"]


def constraints_of(name):
    return dict(getattr(impl.ALL_ESTIMATORS[name], "_parameter_constraints", {}))


def param_options(name, pname, n, d, notes=None):
    """Every alternative of one hyper-parameter as a list of override dicts (usually {pname: token})."""
    cons = constraints_of(name).get(pname)
    if pname in COUPLED:
        return COUPLED[pname](n, d)
    if cons is None:
        return [{pname: v} for v in UNCONSTRAINED.get(pname, [])]
    vals = []
    for c in cons:
        if isinstance(c, StrOptions):
            vals += sorted(c.options)
        elif isinstance(c, Interval):
            cand = NUM[pname](n, d) if pname in NUM else [v for v in (c.left, c.right, 1, 2, 0.5) if v is not None]
            vals += [v for v in cand if c.is_satisfied_by(v)]
        elif c is None:
            vals.append(None)
        elif c is callable:
            vals.append({"callable": "metric" if "metric" in pname else "kernel"})
        elif c is bool or c == "boolean":
            vals += [False, True]
        elif c == "random_state":
            vals += [0, 12345, None, {"rs": 7}]
        elif c is list:
            vals += [v for v in UNCONSTRAINED["groups"] if v is not None]
        elif c is np.ndarray:
            vals += [{"mask": "all"}, {"mask": "drop-first"}, {"mask": "only-last"}, {"mask": "int-ones"}]
        elif isinstance(c, type) and issubclass(c, _GEMINI):
            vals += gem_tokens()
        elif c is dict:
            vals += [{"dict": {}}]
        else:
            if notes is not None:
                notes.add(f"{name}.{pname}: constraint {c!r} not enumerated")
    seen, out = set(), []
    for v in vals:
        k = json.dumps(v, sort_keys=True, default=str) + type(v).__name__
        if k not in seen:
            seen.add(k)
            out.append({pname: v})
    return out


def base_params(name):
    ps = ctor_params(name)
    b = {}
    if "max_iter" in ps:
        b["max_iter"] = 2
    if "random_state" in ps:
        b["random_state"] = 0
    if "n_hidden_dim" in ps:
        b["n_hidden_dim"] = 3
    if "n_clusters" in ps:
        b["n_clusters"] = 3
    return b


def is_wasserstein(name, params):
    g = params.get("gemini", "wasserstein_ova" if name == "Douglas" else None)
    if "Wasserstein" in name:
        return True
    if "gemini" not in ctor_params(name):
        return False
    if isinstance(g, str):
        return g.startswith("wasserstein")
    return isinstance(g, dict) and g.get("gem") == "WassersteinGEMINI"


def names_in_use(params):
    """kernel / metric names the configuration hands to scikit-learn"""
    out = set()
    for k in ("kernel", "metric", "base_kernel"):
        v = params.get(k)
        if isinstance(v, str):
            out.add(v)
    g = params.get("gemini")
    if isinstance(g, dict):
        for k in ("kernel", "metric"):
            if isinstance(g.get(k), str):
                out.add(g[k])
    return out


def base_n(name, params):
    return 7 if is_wasserstein(name, params) else 9


def clusters_of(name, params):
    if name == "Kauri":
        return params.get("max_clusters", 3)
    return params.get("n_clusters", 3)


def min_rows(name, params):
    """fewest samples the estimator's own validation accepts for this configuration"""
    if name == "Kauri":
        return max(1, params.get("min_samples_leaf", 1))
    return max(1, clusters_of(name, params))


def make_spec(name, overrides, data=None, **dkw):
    params = dict(base_params(name))
    params.update(overrides)
    ds = {"n": base_n(name, params), "d": 3, "kind": "blobs", "seed": 0, "as_list": False}
    ds.update(data or {})
    ds.update(dkw)
    used = names_in_use(params)
    if used & NONNEG_KERNELS and not ds.get("violate"):
        ds["kind"] = "nonneg" if ds["kind"] != "dups" else "nonneg-dups"
    if used & TWO_FEATURE_METRICS and not ds.get("violate"):
        ds["d"] = 2
    if not ds.get("small_n"):
        ds["n"] = max(ds["n"], min_rows(name, params))
    if is_wasserstein(name, params):
        ds["n"] = min(ds["n"], 8)
        if ds["n"] < min_rows(name, params) and not ds.get("small_n"):
            return None
    return {"est": name, "params": params, "data": ds}


def make_data(ds):
    rng = np.random.default_rng(ds["seed"])
    n, d, kind = ds["n"], ds["d"], ds["kind"]

    def draw(m):
        X = np.round(impl.blobs(rng, m, d, k=3), 3)
        if "dups" in kind and m >= 2:
            X[m // 2:] = X[:m - m // 2]
        if "nonneg" in kind:
            X = np.abs(X)
        return X
    X, Xt, Xs = draw(n), draw(n + 2), draw(n)
    return X, Xt, Xs


def affinity_kind(est):
    if isinstance(est, impl.Kauri):
        return "kernel" if est.kernel == "precomputed" else None
    g = est.get_gemini()
    if getattr(g, "kernel", None) == "precomputed":
        return "kernel"
    if getattr(g, "metric", None) == "precomputed":
        return "metric"
    return None


def precomputed(kind, X):
    if kind == "kernel":
        return X @ X.T
    if kind == "metric":
        return pairwise_distances(X, metric="euclidean")
    return None


def materialise(spec):
    """Build the estimator and the data.  With a `first` data set (refit stream) the argument objects are resolved
    ONCE (for the first data set) and a first fit is run before the data of the case proper are returned:
    mode 'refit' fits the SAME estimator twice, mode 'shared' fits a first estimator built from the SAME argument
    objects (groups list, kernel_params dict, feature_mask array, GEMINI instance ...)."""
    name, ds = spec["est"], spec["data"]
    first = spec.get("first")
    d = (first or ds)["d"]
    kw = {k: resolve(v, d) for k, v in spec["params"].items()}
    cls = impl.ALL_ESTIMATORS[name]
    est = cls(**kw)
    est._c04_snapshot = snapshot_params(est)
    ak = affinity_kind(est)
    if first is not None:
        XA = make_data(first)[0]
        e0 = est if spec.get("mode", "refit") == "refit" else cls(**kw)
        with quiet():
            e0.fit(XA.tolist() if first.get("as_list") else XA, precomputed(ak, XA))
    X, Xt, Xs = make_data(ds)
    y, yt, ys = precomputed(ak, X), precomputed(ak, Xt), precomputed(ak, Xs)
    return est, X, y, (Xt, yt), (Xs, ys)


FAMILY = {"LinearModel": "lin", "LinearMMD": "lin", "LinearWasserstein": "lin", "RIM": "lin", "SparseLinearModel": "lin",
          "SparseLinearMMD": "lin", "SparseLinearMI": "lin", "KernelRIM": "krim", "MLPModel": "mlp", "MLPMMD": "mlp",
          "MLPWasserstein": "mlp", "SparseMLPModel": "smlp", "SparseMLPMMD": "smlp", "CategoricalModel": "cat",
          "CategoricalMMD": "cat", "CategoricalWasserstein": "cat", "Douglas": "logits"}


# ---------------------------------------------------------------------------------------------- running one case
def same_value(a, b):
    """bit-for-bit / structural equality of an argument with the copy taken before the call"""
    if isinstance(a, np.ndarray) or isinstance(b, np.ndarray):
        return (isinstance(a, np.ndarray) and isinstance(b, np.ndarray) and a.dtype == b.dtype and a.shape == b.shape
                and a.tobytes() == b.tobytes())
    if isinstance(a, dict) and isinstance(b, dict):
        return a.keys() == b.keys() and all(same_value(a[k], b[k]) for k in a)
    if isinstance(a, (list, tuple)) and isinstance(b, (list, tuple)):
        return type(a) is type(b) and len(a) == len(b) and all(same_value(x, y) for x, y in zip(a, b))
    if isinstance(a, _GEMINI) and isinstance(b, _GEMINI):
        return type(a) is type(b) and same_value({k: v for k, v in vars(a).items()}, {k: v for k, v in vars(b).items()})
    try:
        return bool(a == b) or (a != a and b != b)
    except Exception:
        return a is b


def snapshot_params(est):
    """copies of the mutable hyper-parameter objects (lists, dicts, arrays, GEMINI instances) of an unfitted estimator"""
    return {k: copy.deepcopy(v) for k, v in est.get_params(deep=False).items() if isinstance(v, (list, dict, np.ndarray, _GEMINI))}


def mutated_params(est, snap):
    now = est.get_params(deep=False)
    return [k for k, v in snap.items() if not same_value(now.get(k), v)]


class _Timeout(Exception):
    pass


def _alarm(signum, frame):
    raise _Timeout(f"no result after {TIMEOUT} s")


@contextlib.contextmanager
def quiet():
    import warnings
    with warnings.catch_warnings(), contextlib.redirect_stdout(io.StringIO()):
        warnings.simplefilter("ignore")
        yield


def kauri_objective(pred, kernel):
    """sum_k 1/|C_k| sum_{i,j in C_k} kernel_ij  (independent of gemclus.tree._utils)"""
    s = 0.0
    for k in np.unique(pred):
        idx = np.where(pred == k)[0]
        s += kernel[np.ix_(idx, idx)].sum() / len(idx)
    return float(s)


def family_arrays(est, name, Xa):
    """fitted parameters in the layout of the model families (Model/Coherence.v: params)"""
    fam = FAMILY.get(name)
    if fam == "lin":
        return fam, [Xa, est.W_, est.b_.ravel()]
    if fam == "krim":
        tr = np.asarray(est.input_data_, dtype=float)
        if callable(est.base_kernel):
            Kx = est.base_kernel(Xa, tr)
        else:
            Kx = pairwise_kernels(Xa, tr, metric=est.base_kernel, **(est.base_kernel_params or {}))
        return fam, [np.asarray(Kx, dtype=float), est.W_, est.b_.ravel()]
    if fam == "mlp":
        return fam, [Xa, est.W1_, est.b1_.ravel(), est.W2_, est.b2_.ravel()]
    if fam == "smlp":
        return fam, [Xa, est.W1_, est.b1_.ravel(), est.W2_, est.b2_.ravel(), est.W_skip_]
    if fam == "cat":
        return fam, [est.logits_]
    if fam == "logits":
        with quiet():
            est._infer(Xa, retain=True)
        return fam, [np.asarray(est._leaf @ est.leaf_scores_, dtype=float)]
    return None, None


def run_spec(spec):
    """Worker: build the configuration, fit, observe the public API.  Returns plain data."""
    out = {"exc": None, "rejected": None, "obs": {}}
    obs = out["obs"]
    stage = "construct"
    old = signal.signal(signal.SIGALRM, _alarm)
    signal.alarm(TIMEOUT)
    try:
        name = spec["est"]
        stage = "first-fit" if spec.get("first") else "construct"
        est, X, y, (Xt, yt), (Xs, ys) = materialise(spec)
        as_list = spec["data"].get("as_list")
        Xin, Xtin, Xsin = [(a.tolist() if as_list else a) for a in (X, Xt, Xs)]
        before = {"X": copy.deepcopy(Xin), "X_new": copy.deepcopy(Xtin), "X_same_n": copy.deepcopy(Xsin),
                  "y": copy.deepcopy(y), "y_new": copy.deepcopy(yt), "y_same_n": copy.deepcopy(ys)}
        kauri = name == "Kauri"
        stage = "validate"
        try:
            est._validate_params()
        except InvalidParameterError as e:
            out["rejected"] = str(e)[:300]
            return out
        stage = "fit"
        with quiet():
            ret = est.fit(Xin, y)
        obs["fit_returns_self"] = ret is est
        stage = "attributes"
        obs["labels"] = np.asarray(est.labels_)
        obs["has_tree"] = hasattr(est, "tree_")
        if kauri:
            t = est.tree_
            obs["tree"] = {"class": type(t).__name__, "n_nodes": int(t.n_nodes), "n_left": len(t.children_left),
                           "leaves": int(sum(1 for c in t.children_left if c == -1)), "targets": [int(v) for v in t.target],
                           "depth": int(t.get_depth())}
        else:
            obs["n_iter"] = est.n_iter_
            obs["opt"] = type(est.optimiser_).__name__
            obs["opt_module"] = type(est.optimiser_).__module__
            obs["opt_lr"] = float(est.optimiser_.learning_rate_init)
        inductive = name not in impl.NONPARAMETRIC
        # training data, new data with n+2 rows, new data with exactly n rows (a stale training affinity would fit its shape)
        for tag, Xi, Xa, yy in (("", Xin, X, y), ("_t", Xtin, Xt, yt), ("_s", Xsin, Xs, ys)):
            if tag == "_t" and not inductive:
                continue
            with quiet():
                if not kauri:
                    stage = "predict_proba" + tag
                    P = np.asarray(est.predict_proba(Xi))
                    obs["P" + tag] = P
                stage = "predict" + tag
                pred = np.asarray(est.predict(Xi))
                obs["pred" + tag] = pred
                stage = "score" + tag
                sc = est.score(Xi, yy)
                obs["score" + tag] = sc if isinstance(sc, (float, int)) else float(np.asarray(sc))
                obs["score_type" + tag] = type(sc).__name__
                stage = "score-recompute" + tag
                if kauri:
                    kern = est._compute_kernel(Xa, yy) if not isinstance(est.kernel, str) else (
                        yy if est.kernel == "precomputed" else pairwise_kernels(Xa, metric=est.kernel))
                    obs["score_ref" + tag] = kauri_objective(pred, np.asarray(kern, dtype=float))
                else:
                    g = est.get_gemini()
                    A = g.compute_affinity(Xa, yy)
                    obs["score_ref" + tag] = float(np.asarray(g(P, A)))
                    obs["A" + tag] = None if A is None else np.asarray(A, dtype=float)
                    obs["gem"] = (type(g).__name__, bool(getattr(g, "ovo", False)), float(g.epsilon))
                    stage = "family" + tag
                    fam, arrs = family_arrays(est, name, Xa)
                    obs["family"] = fam
                    obs["arrs" + tag] = arrs
        rs = spec["params"].get("random_state")
        if isinstance(rs, int) and not isinstance(rs, bool):
            stage = "fit_predict"
            with quiet():
                obs["fit_predict"] = np.asarray(clone(est).fit_predict(Xin, y))
        stage = "arguments"
        after = {"X": Xin, "X_new": Xtin, "X_same_n": Xsin, "y": y, "y_new": yt, "y_same_n": ys}
        obs["mutated"] = [k for k in before if not same_value(before[k], after[k])] + \
                         ["hyper-parameter " + k for k in mutated_params(est, est._c04_snapshot)]
    except BaseException as e:  # noqa
        if isinstance(e, (KeyboardInterrupt, SystemExit)):
            raise
        tb = traceback.extract_tb(e.__traceback__)
        files = [f.filename for f in tb]
        out["exc"] = {"stage": stage, "type": type(e).__name__, "msg": str(e)[:300], "is_value_error": isinstance(e, ValueError),
                      "where": [f"{os.path.basename(f.filename)}:{f.lineno}:{f.name}" for f in tb[-4:]],
                      "in_metric": any("/sklearn/metrics/" in f for f in files[-4:]),
                      "in_repo": any("/gemclus/" in f for f in files)}
    finally:
        signal.alarm(0)
        signal.signal(signal.SIGALRM, old)
    return out


# ---------------------------------------------------------------------------------------------- L3: the property on the fitted object
def close(a, b, tol=TOL):
    return abs(a - b) <= tol * (1 + abs(b))


def oracle(spec, res, counters=None):
    """[(check, what)] — the statement of C04 on the observed public API, independent of the model."""
    name, params, ds = spec["est"], spec["params"], spec["data"]
    bad = []
    if res["exc"] is not None:
        e = res["exc"]
        return [(f"raises-{e['stage']}:{e['type']}", f"{e['stage']} raised {e['type']}: {e['msg']} at {' < '.join(reversed(e['where']))}")]
    o = res["obs"]
    n, K = ds["n"], clusters_of(name, params)
    kauri = name == "Kauri"
    if not o.get("fit_returns_self"):
        bad.append(("fit-returns-self", "fit did not return the estimator"))
    lab = o["labels"]
    if lab.shape != (n,) or lab.dtype.kind not in "iu":
        bad.append(("labels-shape", f"labels_ has shape {lab.shape} dtype {lab.dtype}, expected ({n},) integers"))
    elif lab.min() < 0 or lab.max() >= K:
        bad.append(("labels-range", f"labels_ outside [0, {K}): min {lab.min()} max {lab.max()}"))
    if kauri:
        t = o.get("tree")
        if not o.get("has_tree") or t is None or t["class"] != "Tree":
            bad.append(("kauri-tree", "no tree_ of class Tree after fit"))
        else:
            ml = params.get("max_leaves")
            if not (t["n_nodes"] >= 1 and t["n_nodes"] == t["n_left"] == 2 * t["leaves"] - 1):
                bad.append(("kauri-tree", f"tree is not a binary tree with 2*leaves-1 nodes: {t}"))
            if t["leaves"] > (ml if ml is not None else n):
                bad.append(("kauri-tree", f"{t['leaves']} leaves exceed max_leaves"))
            if any(v < 0 or v >= K for v in t["targets"]):
                bad.append(("kauri-tree", f"a node target lies outside [0, {K})"))
    else:
        if o["n_iter"] != params["max_iter"]:
            bad.append(("n_iter", f"n_iter_={o['n_iter']} but max_iter={params['max_iter']}"))
        want = {"sgd": "SGDOptimizer", "adam": "AdamOptimizer"}[params.get("solver", "adam")]
        if o["opt"] != want or "sklearn" not in o["opt_module"]:
            bad.append(("optimiser", f"optimiser_ is {o['opt_module']}.{o['opt']} for solver={params.get('solver', 'adam')!r}"))
        lr = params.get("learning_rate", None)
        if lr is not None and o["opt_lr"] != float(lr):
            bad.append(("optimiser-lr", f"optimiser_ learning rate {o['opt_lr']} but learning_rate={lr}"))
    for tag, m in (("", n), ("_t", n + 2), ("_s", n)):
        if "pred" + tag not in o:
            continue
        pred = o["pred" + tag]
        where = {"": "training data", "_t": "new data (n+2 rows)", "_s": "new data (n rows)"}[tag]
        if pred.shape != (m,) or pred.dtype.kind not in "iu" or pred.min() < 0 or pred.max() >= K:
            bad.append(("predict-range", f"predict on {where}: shape {pred.shape} dtype {pred.dtype} values outside [0, {K})"))
        if not kauri:
            P = o["P" + tag]
            if P.shape != (m, K):
                bad.append(("proba-shape", f"predict_proba on {where} has shape {P.shape}, expected {(m, K)}"))
            else:
                if not np.all(np.isfinite(P)) or P.min() < 0 or np.abs(P.sum(1) - 1).max() > TOL:
                    bad.append(("proba-simplex", f"predict_proba rows on {where} are not probability vectors: min {P.min()} max row-sum error {np.abs(P.sum(1) - 1).max()}"))
                elif pred.shape == (m,) and not np.array_equal(pred, np.argmax(P, axis=1)):
                    bad.append(("predict-argmax", f"predict != argmax(predict_proba) on {where}: {pred.tolist()} vs {np.argmax(P, 1).tolist()}"))
        if tag == "" and pred.shape == lab.shape and not np.array_equal(pred, lab):
            bad.append(("predict-train-labels", f"predict(X_train) != labels_: {pred.tolist()} vs {lab.tolist()}"))
        sc, ref = o["score" + tag], o["score_ref" + tag]
        if o["score_type" + tag] not in ("float", "float64"):
            bad.append(("score-type", f"score returned a {o['score_type' + tag]}"))
        if np.isnan(sc) and np.isnan(ref):
            if counters is not None:
                counters["score-nan"] += 1
        elif not close(sc, ref):
            bad.append(("score-gemini", f"score on {where} = {sc!r} but GEMINI(predict_proba, affinity) = {ref!r}"))
    if o.get("mutated"):
        bad.append(("arguments-mutated", f"fit / predict / score changed the caller's objects: {o['mutated']}"))
    if "fit_predict" in o and not np.array_equal(o["fit_predict"], lab):
        bad.append(("fit_predict", f"fit_predict of an identical clone returns {o['fit_predict'].tolist()}, labels_ = {lab.tolist()}"))
    return bad


# ---------------------------------------------------------------------------------------------- L2: extracted model on the fitted parameters
def fam_tokens(fam, arrs):
    toks = [fam]
    for a in arrs:
        a = np.asarray(a, dtype=float)
        toks.append(enc_vec(a) if a.ndim == 1 else enc_mat(a))
    return " ".join(toks)


def correspond(chk, spec, res):
    """Returns [(check, what)]: disagreements between the implementation and the extracted Coq model."""
    name, params, ds = spec["est"], spec["params"], spec["data"]
    o = res["obs"]
    bad = []
    if name == "Kauri" or res["exc"] is not None:
        return bad
    K = clusters_of(name, params)
    # n_iter_ / optimiser_
    t = chk.ask(f"c04.fitmeta {params['max_iter']} {params.get('solver', 'adam')}")
    m_iter, m_epochs, m_opt, m_acc = t.int(), t.int(), t.next(), t.bool()
    if o["n_iter"] != m_iter or m_iter != m_epochs:
        bad.append(("model-n_iter", f"n_iter_={o['n_iter']}, model {m_iter} (epochs {m_epochs})"))
    if {"sgd": "SGDOptimizer", "adam": "AdamOptimizer"}[m_opt] != o["opt"] or not m_acc:
        bad.append(("model-optimiser", f"optimiser_={o['opt']}, model {m_opt} (accepted={m_acc}) for solver {params.get('solver', 'adam')!r}"))
    for tag in ("", "_t", "_s"):
        if "P" + tag not in o:
            continue
        P, pred = o["P" + tag], o["pred" + tag]
        m = P.shape[0]
        if P.ndim != 2 or P.shape[1] != K or not np.all(np.isfinite(P)):
            continue                       # already an L3 failure; nothing to feed the model
        # (a) labels_of on the implementation's own probabilities: bit-identical input, exact answer
        t = chk.ask(f"c04.labels {m} {K} {enc_mat(P)}")
        ml = [t.int() for _ in range(m)]
        if ml != pred.tolist():
            bad.append(("model-labels-of-proba", f"predict{tag}={pred.tolist()} but model arg-max of the returned probabilities={ml}"))
        if tag == "" and ml != o["labels"].tolist():
            bad.append(("model-labels-train", f"labels_={o['labels'].tolist()} but model arg-max of predict_proba(X_train)={ml}"))
        # (b) the whole forward pass from the fitted parameters
        fam, arrs = o.get("family"), o.get("arrs" + tag)
        if fam is None or arrs is None or not all(np.all(np.isfinite(np.asarray(a, dtype=float))) for a in arrs):
            continue
        ft = fam_tokens(fam, arrs)
        t = chk.ask(f"c04.model {m} {K} {ft}")
        MP = np.array(t.floats(m * K)).reshape(m, K)
        mpred = [t.int() for _ in range(m)]
        mfit = [t.int() for _ in range(m)]
        if mpred != mfit:
            bad.append(("model-internal", "model predict and fit_labels differ"))
        if np.abs(MP - P).max() > TOL:
            bad.append(("model-proba", f"predict_proba{tag} differs from the model's forward pass on the fitted parameters by {np.abs(MP - P).max():.3e}"))
        else:
            for i in range(m):
                if mpred[i] != int(pred[i]):
                    srt = np.sort(MP[i])
                    margin = srt[-1] - srt[-2] if K >= 2 else 1.0
                    if margin > TOL or MP[i, pred[i]] < srt[-1] - TOL:
                        bad.append(("model-predict", f"row {i}: predict{tag}={int(pred[i])}, model {mpred[i]} (margin {margin:.3e})"))
                        break
        # (c) score = GEMINI-model(model predict_proba, affinity)
        gname, ovo, eps = o["gem"]
        obj = OBJ.get(gname)
        sc = o["score" + tag]
        if obj is not None and np.isfinite(sc) and m * K <= 150:
            A = o.get("A" + tag)
            At = enc_mat(A) if (obj == "mmd" and A is not None) else "0 0"
            if obj != "mmd" or A is not None:
                t = chk.ask(f"c04.score {obj} {int(ovo)} {float(eps).hex()} {m} {K} {ft} {At}")
                ms = t.float()
                tol = 1e-6 if obj == "mmd" else 1e-9       # sqrt(max(.,0)) of a difference that may vanish
                if not (abs(ms - sc) <= tol * (1 + abs(sc))):
                    bad.append(("model-score", f"score{tag}={sc!r}, model GEMINI({obj},ovo={ovo}) of the model's predict_proba={ms!r}"))
    return bad


# ---------------------------------------------------------------------------------------------- failure keys
def diff_from_base(spec):
    name = spec["est"]
    base = make_spec(name, {})
    items = []
    for k, v in spec["params"].items():
        if k not in base["params"] or base["params"][k] != v:
            items.append(("p", k))
    for k in ("n", "d", "kind", "as_list"):
        if spec["data"].get(k) != base["data"].get(k):
            items.append(("d", k))
    return base, items


def minimise(spec, checks, budget=40):
    """Greedy reduction towards the base configuration while the same check still fails."""
    target = set(checks)
    base, items = diff_from_base(spec)
    msg0 = spec.get("_msg")
    cur = copy.deepcopy(spec)
    for kind, k in items:
        if budget <= 0:
            break
        trial = copy.deepcopy(cur)
        if kind == "p":
            if k in base["params"]:
                trial["params"][k] = base["params"][k]
            else:
                del trial["params"][k]
        else:
            trial["data"][k] = base["data"][k]
        t2 = make_spec(trial["est"], {k2: v for k2, v in trial["params"].items()}, data=trial["data"])
        if t2 is None or t2["data"]["n"] < min_rows(t2["est"], t2["params"]):
            continue
        for extra in ("first", "mode"):
            if extra in spec:
                t2[extra] = spec[extra]
        budget -= 1
        r = run_spec(t2)
        if r["rejected"]:
            continue
        got = {c for c, _ in oracle(t2, r)}
        same_exc = r["exc"] is None or msg0 is None or r["exc"]["msg"][:40] == msg0[:40]
        if got & target and same_exc:
            cur = t2
    return cur


def failure_key(spec, check):
    base, items = diff_from_base(spec)
    parts = []
    for kind, k in items:
        v = spec["params"][k] if kind == "p" else spec["data"][k]
        parts.append(f"{k}={tok_str(v)}")
    if spec.get("first"):
        parts.append(("refit" if spec.get("mode", "refit") == "refit" else "shared-arguments") + f"-after-d={spec['first']['d']}")
    return f"{spec['est']}:{','.join(sorted(parts)) or 'base'}:{check}"


# ---------------------------------------------------------------------------------------------- streams of specs
SOLVERS = ["adam", "sgd"]


def rotate(name, overrides, rng, full=True):
    """Secondary dimensions drawn per case so that option values meet each other across cases."""
    ps = ctor_params(name)
    ov = dict(overrides)
    if "solver" in ps and "solver" not in ov:
        ov["solver"] = SOLVERS[int(rng.integers(0, 2))]
    params = dict(base_params(name), **ov)
    n0 = base_n(name, params)
    lo = min_rows(name, params)
    n = [n0, lo, max(lo, 4), 12][int(rng.integers(0, 4))] if full else n0
    n = max(n, lo)
    if "batch_size" in ps and "batch_size" not in ov:
        ov["batch_size"] = [None, 1, 2, max(1, n - 1), n, n + 1][int(rng.integers(0, 6))]
    data = {"n": n, "d": int(rng.integers(1, 4)), "kind": ["blobs", "blobs", "dups"][int(rng.integers(0, 3))],
            "seed": int(rng.integers(0, 1000)), "as_list": bool(rng.random() < 0.3)}
    if name == "Douglas" and "feature_mask" in ov and ov["feature_mask"] is not None:
        data["d"] = max(data["d"], 2)
    return make_spec(name, ov, data=data)


def specs_ofat(chk, notes, reps):
    """one factor at a time: every option value of every hyper-parameter of every estimator, `reps` rotations each"""
    out = []
    for name in impl.ALL_ESTIMATORS:
        n0, d0 = base_n(name, base_params(name)), 3
        for pname in ctor_params(name):
            for ov in param_options(name, pname, n0, d0, notes):
                for r in range(reps):
                    rng = chk.rng("ofat", name, pname, json.dumps(ov, sort_keys=True, default=str), r)
                    # numeric values were sized for the base n: keep n when the value depends on it
                    sp = rotate(name, ov, rng, full=pname not in ("n_clusters", "max_clusters", "batch_size", "max_depth", "max_leaves", "min_samples_split", "min_samples_leaf"))
                    if sp is not None:
                        sp["focus"] = f"{pname}={tok_str(ov[pname])}"
                        out.append(sp)
    return out


def specs_data(chk, sample=None):
    """dataset shapes with the base configuration: n == n_clusters, d == 1, duplicated rows, list input, n = 1"""
    out = []
    for name in impl.ALL_ESTIMATORS:
        ps = ctor_params(name)
        kname = "max_clusters" if name == "Kauri" else "n_clusters"
        for K in (1, 2, 3):
            for d in (1, 2, 3):
                for kind in ("blobs", "dups"):
                    for as_list in (False, True):
                        for solver in (SOLVERS if "solver" in ps else [None]):
                            ov = {kname: K}
                            if solver:
                                ov["solver"] = solver
                            for n in sorted({K, base_n(name, ov)}):
                                if name == "Kauri" and n < 1:
                                    continue
                                sp = make_spec(name, ov, data={"n": n, "d": d, "kind": kind, "as_list": as_list, "seed": 3})
                                if sp is not None:
                                    sp["focus"] = f"data:n={n},d={d},{kind},list={as_list}"
                                    out.append(sp)
    if sample is not None and sample < len(out):
        rng = chk.rng("data-sample")
        out = [out[i] for i in sorted(rng.choice(len(out), size=sample, replace=False).tolist())]
    return out


def specs_pairs(chk, count, notes):
    """random full combinations: every hyper-parameter draws one of its options"""
    out = []
    names = list(impl.ALL_ESTIMATORS)
    opts = {}
    for i in range(count):
        rng = chk.rng("pairs", i)
        name = names[i % len(names)]
        n0 = base_n(name, base_params(name))
        if name not in opts:
            opts[name] = {p: param_options(name, p, n0, 3, notes) for p in ctor_params(name)}
        ov = {}
        order = [p for p in opts[name] if p not in COUPLED] + [p for p in opts[name] if p in COUPLED]
        for p in order:
            lst = opts[name][p]
            if p == "verbose" or not lst:
                continue
            if rng.random() < 0.6:
                choice = lst[int(rng.integers(0, len(lst)))]
                if p in COUPLED:
                    ov.update(choice)          # coupled values are set together (kernel with its kernel_params ...)
                else:
                    for k, v in choice.items():
                        ov.setdefault(k, v)
        if name == "Kauri" and ov.get("min_samples_leaf", 1) * 2 > ov.get("min_samples_split", 2):
            ov["min_samples_split"] = 2 * ov.get("min_samples_leaf", 1)
        sp = rotate(name, ov, rng, full=False)
        if sp is not None:
            sp["focus"] = "random-combination"
            out.append(sp)
    return out


def objective_options(name, notes):
    ps = ctor_params(name)
    n0 = base_n(name, base_params(name))
    main = None
    for cand in ("gemini", "kernel", "metric", "base_kernel"):
        if cand in ps:
            main = cand
            break
    if main is None:
        return [{}]
    opts = [o for o in param_options(name, main, n0, 3, notes)]
    if "ovo" in ps:
        opts = [dict(o, ovo=b) for o in opts for b in (False, True)]
    return opts


def specs_grid(chk, notes, sample=None):
    """thorough tier: objective (GEMINI name/instance, kernel, metric x ovo) x solver x batch size x dataset"""
    out = []
    for name in impl.ALL_ESTIMATORS:
        ps = ctor_params(name)
        if name == "Kauri":
            n = 9
            for kern in objective_options(name, notes):
                for mc in range(1, n + 1):
                    for dv in ({"d": 3}, {"d": 1}, {"kind": "dups"}, {"as_list": True}, {"n": max(mc, 2)}):
                        out.append(make_spec(name, dict(kern, max_clusters=mc), data=dict({"n": n, "seed": 5}, **dv)))
            for mc, md, (mss, msl), mf, ml in itertools.product((1, 2, 3, n), (None, 1, 2), ((2, 1), (4, 2), (n, 1), (n + 1, 4)), (None, 1, 5), (None, 2, 3, n)):
                for dv in ({"d": 3}, {"d": 1, "kind": "dups"}):
                    out.append(make_spec(name, {"max_clusters": mc, "max_depth": md, "min_samples_split": mss, "min_samples_leaf": msl,
                                                "max_features": mf, "max_leaves": ml}, data=dict({"n": n, "seed": 6}, **dv)))
            continue
        for obj in objective_options(name, notes):
            for solver in SOLVERS:
                n = base_n(name, dict(base_params(name), **obj))
                bss = [None, 1, 2, n - 1, n, n + 1] if "batch_size" in ps else [None]
                for bs in bss:
                    for dv in ({}, {"n": 3}, {"d": 1}, {"kind": "dups"}, {"as_list": True}):
                        ov = dict(obj, solver=solver)
                        if "batch_size" in ps:
                            ov["batch_size"] = bs
                        out.append(make_spec(name, ov, data=dict({"n": n, "seed": 4}, **dv)))
    out = [s for s in out if s is not None]
    for s in out:
        s["focus"] = "grid"
    if sample is not None:
        rng = chk.rng("grid-sample")
        idx = sorted(rng.choice(len(out), size=min(sample, len(out)), replace=False).tolist())
        out = [out[i] for i in idx]
    return out


def specs_refit(chk, reps, notes):
    """fit, then fit again: the SAME object on a second data set with another n and (where the configuration allows) another d,
    also a smaller one; and two estimators built from the SAME mutable argument objects.  The coherence checks run after the
    second fit.  A valid configuration stays valid whatever was fitted before."""
    out = []
    pick = {"groups": [None, {"groups": "partial"}, {"groups": "empty"}],
            "kernel": ["precomputed", {"callable": "kernel"}, "rbf"], "metric": ["precomputed", {"callable": "metric"}, "cityblock"],
            "base_kernel": [{"callable": "kernel"}, "rbf"],
            "gemini": ["mmd_ovo", "wasserstein_ova", "kl_ovo", {"gem": "MMDGEMINI", "kernel": "precomputed"},
                       {"gem": "WassersteinGEMINI", "metric": "precomputed"}, {"gem": "TVGEMINI", "ovo": True}],
            "n_clusters": [2], "max_clusters": [2, 5], "max_leaves": [3], "dynamic": [True]}
    for name in impl.ALL_ESTIMATORS:
        ps = ctor_params(name)
        n0 = base_n(name, base_params(name))
        variants = [{}]
        for pname in ps:
            if pname in pick:
                variants += [{pname: v} for v in pick[pname]]
            elif pname in ("feature_mask", "kernel_params", "metric_params", "base_kernel_params"):
                variants += param_options(name, pname, n0, 3, notes)
        for ov in variants:
            for mode in ("refit", "shared"):
                for r in range(reps):
                    rng = chk.rng("refit", name, json.dumps(ov, sort_keys=True, default=str), mode, r)
                    ov2 = dict(ov)
                    if "solver" in ps:
                        ov2["solver"] = SOLVERS[int(rng.integers(0, 2))]
                    fixed_d = ov.get("feature_mask") is not None and "feature_mask" in ov
                    dA, dB = [(3, 2), (3, 3), (2, 3), (3, 1), (4, 2)][int(rng.integers(0, 5))]
                    if ov.get("groups") == {"groups": "partial"}:
                        dA, dB = [(3, 2), (4, 2), (2, 3), (4, 3)][int(rng.integers(0, 4))]     # [[1, 0]] is valid for every d >= 2
                    if fixed_d:
                        dB = dA
                    nB = [n0 + 3, max(2, n0 - 3), n0][int(rng.integers(0, 3))]
                    A = make_spec(name, ov2, data={"n": n0, "d": dA, "seed": int(rng.integers(0, 1000)), "as_list": bool(rng.random() < 0.2)})
                    B = make_spec(name, ov2, data={"n": nB, "d": dB, "seed": int(rng.integers(0, 1000)), "as_list": bool(rng.random() < 0.2)})
                    if A is None or B is None:
                        continue
                    if fixed_d:
                        B["data"]["d"] = A["data"]["d"]
                    B["first"], B["mode"] = A["data"], mode
                    B["focus"] = f"{mode}:" + (",".join(f"{k}={tok_str(v)}" for k, v in ov.items()) or "base")
                    out.append(B)
    return out


def specs_precondition(chk):
    """data violating a metric's own documented precondition: a failure inside scikit-learn's metric is out of scope (documented)"""
    out = []
    for name in impl.ALL_ESTIMATORS:
        ps = ctor_params(name)
        for pname, bad in (("kernel", sorted(NONNEG_KERNELS)), ("base_kernel", sorted(NONNEG_KERNELS)), ("metric", sorted(TWO_FEATURE_METRICS))):
            if pname not in ps:
                continue
            for v in bad:
                sp = make_spec(name, {pname: v}, data={"violate": True, "d": 3, "kind": "blobs", "seed": 9})
                sp["focus"] = f"precondition:{pname}={v}"
                out.append(sp)
    return out


def specs_rejection(chk):
    """regression cases: configurations the estimator's own validation must reject with a ValueError-family error
    (they are outside the accepted set of C04; a TypeError / IndexError / silent fit instead is a failure)"""
    out = []

    def add(name, ov, why, **data):
        sp = make_spec(name, ov, data=dict({"seed": 11}, **data))
        sp["focus"] = "rejection:" + why
        out.append(sp)
    add("Douglas", {"feature_mask": {"mask": "none"}}, "feature_mask selects no feature")
    add("Douglas", {"feature_mask": {"mask": "too-long"}}, "feature_mask of the wrong length")
    add("Kauri", {"min_samples_leaf": 3, "min_samples_split": 4}, "2*min_samples_leaf > min_samples_split")
    for name in impl.SPARSE:
        add(name, {"groups": {"groups": "duplicate"}}, "duplicate index in groups")
        add(name, {"groups": {"groups": "out-of-range"}}, "group index out of range")
    for name in impl.GRADIENT_ESTIMATORS:
        add(name, {"n_clusters": 4}, "fewer samples than n_clusters", n=3, small_n=True)
    return out


# ---------------------------------------------------------------------------------------------- per-case evaluation
class State:
    def __init__(self):
        self.results = {}
        self.coverage = collections.defaultdict(lambda: collections.defaultdict(int))   # est -> "param=value" -> fits completed
        self.counters = collections.Counter()
        self.excluded = collections.defaultdict(list)
        self.rejected = []
        self.minimised = {}
        self.groups = {}


def evaluate(chk, st, spec, res, stream):
    name = spec["est"]
    replay = {"spec": spec}
    chk.dist["est:" + name] += 1
    if stream == "rejection":
        e = res["exc"]
        if res["rejected"] or (e is not None and e["stage"] == "fit" and e["is_value_error"]):
            chk.dist["rejected-cleanly"] += 1
            chk.count(("rejection", name, spec["focus"]))
        else:
            got = "no error at all" if e is None else f"{e['type']} in {e['stage']}: {e['msg']}"
            chk.fail(f"{name}:{spec['focus']}:not-a-clean-rejection", f"expected a ValueError from the estimator's own validation, got {got}", replay, layer="L3")
            chk.count(None)
        return
    if res["rejected"]:
        # every value comes from the estimator's own constraint: a rejection is contradictory unless cross-parameter
        st.rejected.append({"spec": spec, "message": res["rejected"]})
        chk.fail(f"{name}:{spec.get('focus', '')}:rejected-by-own-validation", f"_validate_params rejects a value taken from its own constraint: {res['rejected']}", replay, layer="L3")
        chk.count(None)
        return
    if stream == "precondition" and res["exc"] is not None and res["exc"]["in_metric"]:
        e = res["exc"]
        st.excluded[spec["focus"]].append(f"{name}: {e['type']}: {e['msg'][:80]}")
        chk.dist["excluded:metric-precondition"] += 1
        chk.count(None)
        return
    bad = oracle(spec, res, st.counters)
    for c, what in bad[:3]:
        # failures are grouped by (estimator, check, exception text): the first of a group is reduced towards the
        # base configuration and names the group; later members are counted under the same key
        sig = (name, c, res["exc"]["msg"][:40] if res["exc"] else "")
        if sig not in st.groups:
            mspec = spec
            if len(st.groups) < 40:
                try:
                    mspec = minimise(dict(spec, _msg=res["exc"]["msg"] if res["exc"] else None), [c])
                    mspec.pop("_msg", None)
                except Exception:
                    mspec = spec
            st.groups[sig] = (failure_key(mspec, c), mspec)
        key, mspec = st.groups[sig]
        chk.fail(key, what + f"  [reduced configuration of this failure group: {json.dumps({'est': name, 'params': mspec['params'], 'data': mspec['data']}, default=str)}]",
                 {"spec": spec, "reduced_spec": mspec}, layer="L3")
        st.minimised[key] = mspec
    if res["exc"] is None:
        l2 = []
        try:
            l2 = correspond(chk, spec, res)
        except RuntimeError as e:
            l2 = [("model-error", str(e)[:200])]
        for c, what in l2[:3]:
            chk.fail(f"{name}:{c}", what, replay, layer="L2")
        chk.traces += 1
        for k, v in spec["params"].items():
            st.coverage[name][f"{k}={tok_str(v)}"] += 1
        st.coverage[name][f"data:d={spec['data']['d']}"] += 1
        st.coverage[name][f"data:{spec['data']['kind']}"] += 1
        st.coverage[name][f"data:list={spec['data']['as_list']}"] += 1
        st.coverage[name]["data:n==K" if spec["data"]["n"] == clusters_of(name, spec["params"]) else "data:n>K"] += 1
        chk.dist["solver:" + str(spec["params"].get("solver", "-"))] += 1
        chk.dist["batch:" + ("None" if spec["params"].get("batch_size") is None else "int")] += 1
        chk.dist["n==K" if spec["data"]["n"] == clusters_of(name, spec["params"]) else "n>K"] += 1
        if spec.get("first"):
            chk.dist["refit:" + spec.get("mode", "refit") + (":smaller-d" if spec["data"]["d"] < spec["first"]["d"] else ":larger-d" if spec["data"]["d"] > spec["first"]["d"] else ":same-d")] += 1
        chk.count((name, json.dumps(spec["params"], sort_keys=True, default=str), json.dumps(spec["data"], sort_keys=True),
                   json.dumps(spec.get("first"), sort_keys=True), spec.get("mode")))
    else:
        chk.count(None)
    if spec.get("focus", "").startswith(("gemini=", "kernel=", "metric=", "groups=")):
        chk.sample({"stream": stream, "est": name, "params": {k: tok_str(v) for k, v in spec["params"].items()}, "data": spec["data"],
                    "labels": res["obs"].get("labels", np.array([])).tolist() if res["exc"] is None else None,
                    "score": res["obs"].get("score")}, limit=4)


def run_all(specs, procs):
    if procs <= 1 or len(specs) < 64:
        return [run_spec(s) for s in specs]
    ctx = mp.get_context("fork")
    with ctx.Pool(procs) as pool:
        return pool.map(run_spec, specs, chunksize=max(1, min(32, len(specs) // (procs * 4))))


# ---------------------------------------------------------------------------------------------- pure model streams
def stream_softmax(chk, i, rng):
    """softmax_row / argmax_row of the extracted model vs scikit-learn's softmax / numpy's argmax on raw logits"""
    from sklearn.utils.extmath import softmax
    K = int(rng.integers(1, 9))
    scale = [0.0, 0.1, 1.0, 30.0, 700.0][int(rng.integers(0, 5))]
    z = rng.normal(size=K) * scale
    mode = int(rng.integers(0, 4))
    if mode == 0 and K >= 2:                   # exact ties, dyadic values
        z = np.round(z * 4) / 4
        z[int(rng.integers(0, K))] = z.max()
    if mode == 1:
        z = np.round(z)
    t = chk.ask(f"c04.softmax {K} {enc_vec(z)}")
    row = np.array(t.floats(K))
    s, vm, am, amp = t.float(), t.float(), t.int(), t.int()
    ref = softmax(z.reshape(1, -1))[0]
    replay = {"K": K, "z": z.tolist()}
    if np.abs(row - ref).max() > TOL:
        chk.fail("softmax:model-mismatch", f"softmax differs from the model by {np.abs(row - ref).max():.3e}", replay)
    if am != int(np.argmax(z)) or vm != z.max():
        chk.fail("argmax:model-mismatch", f"argmax/max of {z.tolist()}: numpy {int(np.argmax(z))}/{z.max()}, model {am}/{vm}", replay)
    # the theorems, on the float instance (exp underflows to exactly 0 only at the largest scale)
    positive = bool(np.all(row > 0)) or scale >= 700.0
    first_max = 0 <= am < K and not np.any(z > z[am]) and not np.any(z[:am] >= z[am])
    if not positive or abs(s - 1) > TOL or np.any(row > 1) or not first_max:
        chk.fail("softmax:theorem-on-floats", f"simplex / first-maximiser statement fails on floats: row={row.tolist()} sum={s} argmax={am}", replay, layer="L3")
    # the implementation's softmax is a probability vector and orders the clusters like the model's
    srt = np.sort(row)
    clear = K == 1 or srt[-1] - srt[-2] > TOL
    if np.any(ref < 0) or abs(ref.sum() - 1) > TOL or (clear and int(np.argmax(ref)) != amp):
        chk.fail("softmax:impl", "scikit-learn softmax row is not a probability vector / disagrees with the model on the arg-max", replay, layer="L3")
    chk.dist[f"softmax:scale={scale}"] += 1
    chk.count(("softmax", K, scale, mode) if K >= 2 else None)


# ---------------------------------------------------------------------------------------------- round-3 streams (in-process)
REPRS = ["int64", "int32", "bool", "float32", "fortran", "strided-rows", "reversed-view", "transposed-transpose", "readonly", "list", "tuple"]


def represent(a, kind):
    """the same values in another representation (a is float64 C-contiguous); returns (object handed to the call, keep-alive base)"""
    if a is None:
        return None
    if kind in ("int64", "int32", "float32"):
        return a.astype(kind)
    if kind == "bool":
        return a.astype(bool)
    if kind == "fortran":
        return np.asfortranarray(a)
    if kind == "strided-rows":
        big = np.repeat(a, 2, axis=0)
        big[1::2] += 100.0
        return big[::2]
    if kind == "reversed-view":
        return np.ascontiguousarray(a[:, ::-1])[:, ::-1]
    if kind == "transposed-transpose":
        return np.ascontiguousarray(a.T).T
    if kind == "readonly":
        b = a.copy()
        b.setflags(write=False)
        return b
    if kind == "list":
        return a.tolist()
    if kind == "tuple":
        return tuple(tuple(r) for r in a.tolist())
    raise ValueError(kind)


def repr_data(rng, n, d, kind):
    """exactly representable values: integers for the integer dtypes, 0/1 for bool, multiples of 1/8 otherwise"""
    B = impl.blobs(rng, n, d, k=3)
    if kind in ("int64", "int32"):
        return np.round(B)
    if kind == "bool":
        X = (B > np.median(B, axis=0)).astype(float)
        X[0, :] = 0.0
        X[-1, :] = 1.0
        return X
    return np.round(B * 8) / 8


def exact_affinity(kind, X):
    """precomputed affinities whose entries are exactly representable in float32 as well"""
    if kind == "kernel":
        return X @ X.T
    if kind == "metric":
        return pairwise_distances(X, metric="cityblock")
    return None


def observe_api(est, X, y, kauri):
    o = {}
    with quiet():
        if not kauri:
            o["proba"] = np.asarray(est.predict_proba(X), dtype=float)
        o["predict"] = np.asarray(est.predict(X))
        o["score"] = float(est.score(X, y))
    return o


def compare_api(ref, got, tol_score, tol_proba=1e-12):
    out = []
    if tol_proba > 1e-12 and "proba" in ref and ref["proba"].shape == got["proba"].shape and ref["proba"].shape[1] > 1:
        srt = np.sort(ref["proba"], axis=1)          # float32 resolution: decisions compared where the reference margin is clear
        clear = (srt[:, -1] - srt[:, -2]) > 1e-4
        ref, got = dict(ref, predict=ref["predict"][clear]), dict(got, predict=got["predict"][clear])
    if "proba" in ref and (ref["proba"].shape != got["proba"].shape or np.abs(ref["proba"] - got["proba"]).max() > tol_proba):
        out.append("predict_proba")
    if not np.array_equal(ref["predict"], got["predict"]):
        out.append("predict")
    if not (abs(ref["score"] - got["score"]) <= tol_score * (1 + abs(ref["score"])) or (np.isnan(ref["score"]) and np.isnan(got["score"]))):
        out.append(f"score ({ref['score']!r} vs {got['score']!r})")
    return out


REPR_CONFIGS = {   # per estimator: the configurations rotated through the representations
    "generic": [{}, {"gemini": "kl_ova"}, {"gemini": {"gem": "MMDGEMINI", "kernel": "precomputed"}}, {"gemini": "wasserstein_ovo"},
                {"gemini": {"gem": "WassersteinGEMINI", "metric": "precomputed"}}],
    "kernel": [{}, {"kernel": "precomputed"}, {"kernel": "rbf", "ovo": True}],
    "metric": [{}, {"metric": "precomputed"}, {"metric": "cityblock", "ovo": True}],
    "base_kernel": [{}, {"base_kernel": "rbf"}],
    "none": [{}],
}


def stream_repr(chk, i, rng):
    """metamorphic: the same values as int64/int32/bool/float32/Fortran/views/read-only/list/tuple give the same fitted model,
    the same predictions and score as the float64 C-contiguous reference, raise nothing new and leave the caller's objects unchanged"""
    names = list(impl.ALL_ESTIMATORS)
    name = names[i % len(names)]
    kind = REPRS[(i // len(names)) % len(REPRS)]
    ps = ctor_params(name)
    fam = "generic" if "gemini" in ps else "kernel" if "kernel" in ps else "metric" if "metric" in ps else "base_kernel" if "base_kernel" in ps else "none"
    cfgs = REPR_CONFIGS[fam]
    ov = {k: v for k, v in cfgs[(i // (len(names) * len(REPRS)) + i // len(names)) % len(cfgs)].items() if k in ps}
    if "batch_size" in ps:
        ov["batch_size"] = [None, 3, 100][i % 3]
    if "solver" in ps:
        ov["solver"] = SOLVERS[(i // 2) % 2]
    repr_case(chk, rng, name, kind, ov, 7)


def stream_repr_kauri(chk, i, rng):
    """every representation of X and of a precomputed kernel through Kauri.fit / fit_predict / predict / score (the compiled
    routines take float64 writable buffers: regression of 70daa00)"""
    kind = REPRS[i % len(REPRS)]
    ov = [{"kernel": "precomputed"}, {}, {"kernel": "precomputed", "max_clusters": 2, "max_depth": 2}][(i // len(REPRS)) % 3]
    repr_case(chk, rng, "Kauri", kind, ov, 10)


def repr_case(chk, rng, name, kind, ov, n0):
    sp = make_spec(name, ov, data={"n": n0, "d": 2 if kind == "bool" else 3, "seed": int(rng.integers(0, 1000))})
    n, d = sp["data"]["n"], sp["data"]["d"]
    X = repr_data(rng, n, d, kind)
    Q = repr_data(rng, n + 2, d, kind)             # query points (integral for the integer dtypes) for a model with fractional parameters
    Xfrac = np.round(impl.blobs(rng, n, d, k=3) * 8) / 8 + 1 / 16
    kw = {k: resolve(v, d) for k, v in sp["params"].items()}
    cls = impl.ALL_ESTIMATORS[name]
    kauri = name == "Kauri"
    ref, var, frac = cls(**copy.deepcopy(kw)), cls(**copy.deepcopy(kw)), cls(**copy.deepcopy(kw))
    ak = affinity_kind(ref)
    y, yq, yfrac = exact_affinity(ak, X), exact_affinity(ak, Q), exact_affinity(ak, Xfrac)
    ykind = "fortran" if kind == "bool" else "readonly" if kind in ("list", "tuple") else kind     # a precomputed affinity is documented as an ndarray
    Xv, yv, Qv, yqv = represent(X, kind), represent(y, ykind), represent(Q, kind), represent(yq, ykind)
    keep = [copy.deepcopy(v) for v in (Xv, yv, Qv, yqv)]
    replay = {"estimator": name, "representation": kind, "params": {k: tok_str(v) for k, v in sp["params"].items()}, "n": n, "d": d}
    key = f"repr:{name}:{kind}"
    chk.dist["repr:" + kind] += 1
    with quiet():
        ref.fit(X, y)
        frac.fit(Xfrac, yfrac)
    R = observe_api(ref, X, y, kauri)
    RQ = observe_api(ref, Q, yq, kauri) if name not in impl.NONPARAMETRIC else None
    FQ = observe_api(frac, Q, yq, kauri) if name not in impl.NONPARAMETRIC else None
    # the affinity inside score is computed from the raw float32 / in float32 by scikit-learn: float32 resolution there
    # float32 only: where scikit-learn computes a kernel / distance on the data as given it computes in float32 (score's affinity,
    # KernelRIM's base kernel); linear and precomputed kernels of these exactly representable values stay exact
    exact32 = kauri and sp["params"].get("kernel", "linear") in ("linear", "precomputed")
    tol = 1e-5 if (kind == "float32" and not exact32) else 1e-9
    # ... and a float32 precomputed affinity is used as given by the GEMINI arithmetic (affinity / N**2 ... in float32)
    lib32 = kind == "float32" and (name == "KernelRIM" or (ak is not None and not kauri))
    tp = 1e-5 if lib32 else 1e-12
    margin_rule = lib32
    if lib32:
        chk.dist["repr:float32-resolution-compare"] += 1
    try:
        with quiet():
            var.fit(Xv, yv)
        problems = []
        clear = np.ones(n, dtype=bool)
        if margin_rule:       # labels compared only where the reference margin between the two best probabilities is clear
            srt = np.sort(R["proba"], axis=1)
            clear = (srt[:, -1] - srt[:, -2]) > 1e-4 if srt.shape[1] > 1 else clear
        if not np.array_equal(np.asarray(var.labels_)[clear], np.asarray(ref.labels_)[clear]):
            problems.append("labels_")
        problems += ["fit+" + w for w in compare_api(R, observe_api(var, Xv, yv, kauri), tol, tp)]
        problems += ["ref-model(" + w + ")" for w in compare_api(R, observe_api(ref, Xv, yv, kauri), tol, tp)]
        if RQ is not None:
            problems += ["query:" + w for w in compare_api(RQ, observe_api(ref, Qv, yqv, kauri), tol, tp)]
            problems += ["fractional-model-query:" + w for w in compare_api(FQ, observe_api(frac, Qv, yqv, kauri), tol, tp)]
        with quiet():
            fp_ref = np.asarray(cls(**copy.deepcopy(kw)).fit_predict(X, y))
            fp_var = np.asarray(cls(**copy.deepcopy(kw)).fit_predict(Xv, yv))
        if not np.array_equal(fp_ref[clear], fp_var[clear]) or not np.array_equal(fp_ref, np.asarray(ref.labels_)):
            problems.append("fit_predict")
        if problems:
            chk.fail(key + ":differs", f"{kind} input gives other results than the float64 C-contiguous reference: {problems[:5]}", replay, layer="L3")
    except Exception as e:  # noqa
        tb = traceback.extract_tb(e.__traceback__)
        chk.fail(key + f":raises:{type(e).__name__}", f"{kind} input raises {type(e).__name__}: {str(e)[:160]} at {os.path.basename(tb[-1].filename)}:{tb[-1].lineno} although the reference call succeeds", replay, layer="L3")
    changed = [nm for nm, b, a in zip(("X", "y", "X_query", "y_query"), keep, (Xv, yv, Qv, yqv)) if not same_value(b, a)]
    if changed:
        chk.fail(key + ":argument-changed", f"the caller's {changed} changed during fit / predict / score", replay, layer="L3")
    chk.count(("repr", name, kind, json.dumps(replay["params"], sort_keys=True)))


def adversarial_columns(rng, n):
    """feature columns that stress every comparison of data with a stored number"""
    base = rng.normal(size=n)
    cols = {
        "adjacent-doubles": np.where(np.arange(n) % 2 == 0, 0.3, 0.1 + 0.2),
        "nextafter": np.array([np.nextafter(1.0, np.inf) if k % 3 == 0 else 1.0 if k % 3 == 1 else np.nextafter(1.0, -np.inf) for k in range(n)]),
        "ties": np.round(base),
        "signed-zero": np.where(np.arange(n) % 2 == 0, 0.0, -0.0) + np.where(np.arange(n) == n - 1, 1.0, 0.0),
        "denormal": base * 5e-324 * 1e3,
        "huge": np.where(np.arange(n) % 2 == 0, 1e300, -1e300) * (1 + np.arange(n) % 3),
        "tiny-gap": 1.0 + np.arange(n) * 2.0 ** -52,
    }
    return cols


def stream_extreme(chk, i, rng):
    """degenerate and adversarial data through fit itself: Kauri's recorded thresholds must reproduce its own partition;
    the gradient models stay coherent.  The affinity is a bounded one (rbf of a benign copy / precomputed) so that the
    comparison logic, not overflow in a kernel (C17), is what is exercised."""
    n = 8
    cols = adversarial_columns(rng, n)
    cname = list(cols)[i % len(cols)]
    which = ["Kauri", "Kauri", "Douglas", "LinearMMD", "SparseMLPModel", "KernelRIM"][(i // len(cols)) % 6]
    benign = impl.blobs(rng, n, 2, k=3)
    X = np.column_stack([cols[cname], benign[:, 0]]) if (i // 3) % 2 == 0 else cols[cname].reshape(-1, 1)
    Kmat = pairwise_kernels(benign, metric="rbf")
    if which == "Kauri":
        est = impl.Kauri(max_clusters=[2, 3, n][i % 3], kernel="precomputed", min_samples_leaf=1, random_state=0)
        y = Kmat
    elif which == "Douglas":
        est = impl.Douglas(n_clusters=2, gemini=G.MMDGEMINI(kernel="precomputed"), max_iter=2, random_state=0, n_cuts=1 + i % 2)
        y = Kmat
    elif which == "LinearMMD":
        est = impl.LinearMMD(n_clusters=2, kernel="precomputed", max_iter=2, random_state=0, batch_size=[None, n, n + 1][i % 3])
        y = Kmat
    elif which == "SparseMLPModel":
        est = impl.SparseMLPModel(n_clusters=2, gemini=G.MMDGEMINI(kernel="precomputed"), max_iter=2, random_state=0, alpha=0, n_hidden_dim=2,
                                  groups=[list(range(X.shape[1]))])
        y = Kmat
    else:
        est = impl.KernelRIM(n_clusters=2, base_kernel=callable_bounded_kernel, max_iter=2, random_state=0)
        y = None
    replay = {"estimator": which, "column": cname, "X": [[float(v).hex() for v in r] for r in X], "params": {k: str(v)[:40] for k, v in est.get_params(deep=False).items()}}
    key = f"extreme:{which}:{cname}"
    chk.dist["extreme:" + cname] += 1
    Xc, yc = X.copy(), None if y is None else y.copy()
    huge = cname in ("huge",) and which != "Kauri"
    try:
        with quiet():
            est.fit(X, y)
            pred = np.asarray(est.predict(X))
            sc = float(est.score(X, y))
            P = None if which == "Kauri" else np.asarray(est.predict_proba(X))
        K = est.max_clusters if which == "Kauri" else est.n_clusters
        lab = np.asarray(est.labels_)
        bad = []
        if lab.shape != (n,) or lab.min() < 0 or lab.max() >= K:
            bad.append("labels_ range")
        if not np.array_equal(pred, lab):
            bad.append(f"predict(X_train) {pred.tolist()} != labels_ {lab.tolist()}")
        if P is not None:
            if P.shape != (n, K) or not np.all(np.isfinite(P)) or P.min() < 0 or np.abs(P.sum(1) - 1).max() > TOL:
                bad.append("predict_proba not probability vectors")
            elif not np.array_equal(pred, P.argmax(1)):
                bad.append("predict != argmax predict_proba")
            g = est.get_gemini()
            refs = float(np.asarray(g(P, g.compute_affinity(X, y))))
            if not (close(sc, refs) or (np.isnan(sc) and np.isnan(refs))):
                bad.append(f"score {sc} != gemini {refs}")
        else:
            if not close(sc, kauri_objective(pred, y)):
                bad.append(f"score {sc} != objective of predict {kauri_objective(pred, y)}")
            t = est.tree_
            for node in range(t.n_nodes):        # every recorded threshold splits the samples that reach the node as fit did
                if t.children_left[node] != -1 and not np.isfinite(t.thresholds[node]):
                    bad.append("non-finite threshold")
        if bad:
            if huge:      # magnitudes whose products overflow inside the model's own arithmetic: C17's subject; observed, not failed here
                chk.notes.append(f"observation (not failed): {which} on a feature of magnitude 1e300: {bad[:2]}")
                chk.dist["extreme:observed-overflow"] += 1
            else:
                chk.fail(key + ":incoherent", f"{which} on a '{cname}' feature: {bad[:3]}", replay, layer="L3")
    except Exception as e:  # noqa
        tb = traceback.extract_tb(e.__traceback__)
        msg = f"{which} on a '{cname}' feature raises {type(e).__name__}: {str(e)[:160]} at {os.path.basename(tb[-1].filename)}:{tb[-1].lineno}"
        if huge:
            chk.notes.append("observation (not failed): " + msg)
            chk.dist["extreme:observed-overflow"] += 1
        else:
            chk.fail(key + f":raises:{type(e).__name__}", msg, replay, layer="L3")
    if not same_value(Xc, X) or not same_value(yc, y):
        chk.fail(key + ":argument-changed", "the caller's X / affinity changed", replay, layer="L3")
    chk.count(("extreme", which, cname, X.shape[1], i % 3))


def callable_bounded_kernel(X, Y=None):
    X = np.asarray(X, dtype=float)
    Y = X if Y is None else np.asarray(Y, dtype=float)
    return np.cos(np.arctan(X[:, -1:]) - np.arctan(Y[:, -1:]).T)


def stream_path(chk, i, rng):
    """path() has its own training loop: the model it leaves must satisfy the same relations (except the documented
    switch to SGD), with every batch size class, precomputed affinities, group structures and dynamic mode; arguments unchanged"""
    name = impl.SPARSE[i % len(impl.SPARSE)]
    ps = ctor_params(name)
    n, d = 9, 4
    X = np.round(impl.blobs(rng, n, d, k=3), 3)
    bs = [None, n, n + 1, 4, 1][(i // len(impl.SPARSE)) % 5]
    mode = ["plain", "precomputed", "groups", "dynamic"][(i // 2) % 4]
    kw = dict(n_clusters=2, max_iter=2, random_state=0, batch_size=bs, alpha=[0.5, 1e-3][i % 2], solver=SOLVERS[i % 2])
    if "n_hidden_dim" in ps:
        kw["n_hidden_dim"] = 3
    y = None
    groups = None
    if mode == "precomputed":
        if "kernel" in ps:
            kw["kernel"], y = "precomputed", X @ X.T
        elif "gemini" in ps:
            kw["gemini"], y = G.MMDGEMINI(kernel="precomputed"), X @ X.T
    if mode == "groups":
        groups = [[1, 0]]
        kw["groups"] = groups
    if mode == "dynamic" and "dynamic" in ps:
        kw["dynamic"] = True
    est = impl.ALL_ESTIMATORS[name](**kw)
    replay = {"estimator": name, "batch_size": bs, "mode": mode, "alpha": kw["alpha"], "solver": kw["solver"], "seed_case": i}
    key = f"path:{name}:{mode}"
    chk.dist["path:" + mode] += 1
    chk.dist["path:batch=" + ("None" if bs is None else "n" if bs == n else ">n" if bs > n else "<n")] += 1
    Xc, yc, gc = X.copy(), None if y is None else y.copy(), copy.deepcopy(groups)
    snap = snapshot_params(est)
    try:
        with quiet():
            res = est.path(X, y, alpha_multiplier=3.0, min_features=2, max_patience=2)
            P = np.asarray(est.predict_proba(X))
            pred = np.asarray(est.predict(X))
            sc = float(est.score(X, y))
            g = est.get_gemini()
            refs = float(np.asarray(g(P, g.compute_affinity(X, y))))
        bad = []
        if not (isinstance(res, tuple) and len(res) == 5 and len({len(res[k]) for k in (1, 2, 3, 4)}) == 1):
            bad.append("path result is not (weights, 4 histories of equal length)")
        if P.shape != (n, 2) or not np.all(np.isfinite(P)) or P.min() < 0 or np.abs(P.sum(1) - 1).max() > TOL:
            bad.append("predict_proba not probability vectors")
        elif not np.array_equal(pred, P.argmax(1)):
            bad.append("predict != argmax predict_proba")
        if not (close(sc, refs) or (np.isnan(sc) and np.isnan(refs))):
            bad.append(f"score {sc} != gemini {refs}")
        lab = np.asarray(est.labels_)
        if lab.shape != (n,) or lab.min() < 0 or lab.max() >= 2:
            bad.append("labels_ range")
        if est.n_iter_ != 2:
            bad.append(f"n_iter_ {est.n_iter_}")
        if bad:
            chk.fail(key + ":incoherent", f"after path(): {bad[:3]}", replay, layer="L3")
        if not np.array_equal(pred, lab):      # path() retrains after the labelling pass of its initial fit: labels_ describe the alpha=0 model
            chk.dist["path:labels_-stale-after-path"] += 1
    except Exception as e:  # noqa
        tb = traceback.extract_tb(e.__traceback__)
        chk.fail(key + f":raises:{type(e).__name__}", f"path() raises {type(e).__name__}: {str(e)[:160]} at {os.path.basename(tb[-1].filename)}:{tb[-1].lineno}", replay, layer="L3")
    changed = [nm for nm, b, a in (("X", Xc, X), ("y", yc, y), ("groups", gc, groups)) if not same_value(b, a)] + mutated_params(est, snap)
    if changed:
        chk.fail(key + ":argument-changed", f"path() changed the caller's objects / hyper-parameters: {changed}", replay, layer="L3")
    chk.traces += 1
    chk.count(("path", name, bs, mode, i % 2))


# ---------------------------------------------------------------------------------------------- main
def main():
    chk = Check("C04")
    chk.build()
    chk.proofs()
    st = State()
    notes = set()
    procs = int(os.environ.get("VERIF_PROCS", str(min(16, os.cpu_count() or 1))))
    quick = chk.tier == "quick"
    if chk.replay_path:
        rp = json.load(open(chk.replay_path))
        chk.seed = rp.get("seed", chk.seed)
        spec = rp["input"].get("spec")
        if spec is not None:
            plan = [("replay", [dict(spec, stream=rp["input"].get("stream", "replay"))])]
        else:
            plan = []
            chk.run_stream("softmax", stream_softmax, 1, only=rp["input"].get("case", 0))
    else:
        widen = 3 if chk.l1_broken else 1
        plan = [("ofat", specs_ofat(chk, notes, reps=(1 if quick else 6) * widen)),
                ("data", specs_data(chk, sample=(800 * widen if quick else None))),
                ("pairs", specs_pairs(chk, (300 if quick else 4000) * widen, notes)),
                ("precondition", specs_precondition(chk)),
                ("rejection", specs_rejection(chk)),
                ("refit", specs_refit(chk, (1 if quick else 4) * widen, notes)),
                ("grid", specs_grid(chk, notes, sample=(400 * widen if quick else None)))]
        chk.run_stream("softmax", stream_softmax, 300 if quick else 5000)
        for nm, fn, cnt in (("repr", stream_repr, 198 if quick else 990), ("repr_kauri", stream_repr_kauri, 33 if quick else 99), ("extreme", stream_extreme, 84 if quick else 420), ("path", stream_path, 40 if quick else 200)):
            t0 = time.time()
            chk.run_stream(nm, fn, cnt * widen)
            chk.notes.append(f"stream {nm}: {cnt * widen} cases in {time.time() - t0:.1f}s")
        stale = chk.dist.get("path:labels_-stale-after-path", 0)
        if stale:
            chk.notes.append(f"observation (not failed, reported): after path() predict(X_train) != labels_ in {stale} of {chk.dist.get('path:plain', 0) + chk.dist.get('path:precomputed', 0) + chk.dist.get('path:groups', 0) + chk.dist.get('path:dynamic', 0)} runs: "
                             "labels_ is written by the initial alpha=0 fit inside path() and not refreshed after the path's own training loop")
    sizes = {}
    CHUNK = 3000                      # results carry small arrays: evaluate and drop them chunk by chunk
    for stream, specs in plan:
        sizes[stream] = len(specs)
        t_fit = t_eval = 0.0
        for start in range(0, len(specs), CHUNK):
            part = specs[start:start + CHUNK]
            t0 = time.time()
            results = run_all(part, procs)
            t1 = time.time()

            def case(chk_, i, rng, part=part, results=results, stream=stream):
                evaluate(chk_, st, part[i], results[i], part[i].get("stream", stream))
            chk.run_stream(stream, case, len(part))
            t_fit += t1 - t0
            t_eval += time.time() - t1
        chk.notes.append(f"stream {stream}: {len(specs)} configurations, fits {t_fit:.1f}s on {procs} processes, evaluation (L3 + model) {t_eval:.1f}s")
    # every enumerated option value must have been fitted at least once per estimator (self-check of the covering sample)
    if not chk.replay_path:
        for name in impl.ALL_ESTIMATORS:
            n0 = base_n(name, base_params(name))
            for pname in ctor_params(name):
                for ov in param_options(name, pname, n0, 3):
                    lbl = f"{pname}={tok_str(ov[pname])}"
                    if st.coverage[name].get(lbl, 0) == 0:
                        known_fail = any(f.key.startswith(name + ":") and lbl in f.key for f in chk.failures)
                        if not known_fail:
                            chk.notes.append(f"option value never fitted successfully: {name}.{lbl}")
                            chk.dist["uncovered-option"] += 1
    for n_ in sorted(notes):
        chk.notes.append(n_)
    extra = {
        "no_raise_half": "decided by enumeration (not a theorem): every configuration below was accepted by _validate_params and fitted, predicted and scored without raising",
        "stream_sizes": sizes,
        "option_coverage": {e: dict(sorted(c.items())) for e, c in st.coverage.items()},
        "exclusions": {"rule": "a failure raised inside sklearn.metrics on data violating that metric's own documented precondition is out of scope; "
                               "all other streams generate data satisfying the precondition (non-negative data for chi2/additive_chi2, two features for haversine)",
                       "chi2, additive_chi2": "scikit-learn: 'X contains negative values' — kernels defined for non-negative data",
                       "haversine": "scikit-learn: 'Haversine distance only valid in 2 dimensions'",
                       "observed": {k: v[:3] for k, v in st.excluded.items()}},
        "nan_scores_equal_on_both_sides": st.counters.get("score-nan", 0),
        "failing_configurations_minimised": {k: {"params": v["params"], "data": v["data"]} for k, v in list(st.minimised.items())[:40]},
    }
    chk.finish(rule="configurations: for each of the 18 estimators every option value of every constructor argument read from _parameter_constraints "
                    "(GEMINI names and instances, kernels, metrics, precomputed with a matrix, callables, solvers, booleans, None) and boundary/interior numeric values, one factor at a time "
                    "with solver / batch size (1..n+1, None) / n (n==n_clusters..12) / d (1..3) / duplicated rows / list input rotated per case; dataset shapes x K in 1..3; random full combinations; "
                    "objective x solver x batch x dataset grid (sampled in the quick tier, complete in the thorough tier); refit stream: the same object fitted a second time on data with another n and another "
                    "(also smaller) d, and two estimators built from the same mutable argument objects (groups list, kernel_params dict, feature mask, GEMINI instance), checks after the second fit. Each case: validate, fit, predict_proba/predict/score on training and new data, fit_predict of a clone; "
                    "L3 = statement of C04 on the fitted object, L2 = extracted model (labels_of, forward pass from the fitted parameters, GEMINI score, n_iter, optimiser) against it. "
                    "non-trivial = accepted configuration whose fit and all observations completed; distinct = distinct (estimator, parameters, data) triple",
               extra=extra)


if __name__ == "__main__":
    main()
