"""C11 — kernel, metric and GEMINI choices are forwarded faithfully; precomputed = named."""
import inspect
import json
import warnings
import numpy as np
from core import Check
import impl
from impl import G
from sklearn.metrics import pairwise_kernels, pairwise_distances
from sklearn.metrics.pairwise import PAIRWISE_KERNEL_FUNCTIONS, PAIRWISE_DISTANCE_FUNCTIONS
from gemclus.gemini import _utils as gutils

KERNELS = sorted(PAIRWISE_KERNEL_FUNCTIONS)
METRICS = sorted(m for m in PAIRWISE_DISTANCE_FUNCTIONS if m != "precomputed")
GEM_CLASSES = {c.__name__: c for c in (G.MMDGEMINI, G.WassersteinGEMINI, G.KLGEMINI, G.MI, G.TVGEMINI, G.HellingerGEMINI, G.ChiSquareGEMINI)}
PY_CLASSES = dict(impl.ALL_ESTIMATORS, **GEM_CLASSES)
# the documentation, written by hand and independently of the Coq tables (L3 oracle)
DOC_REGISTRY = {"mmd_ova": (G.MMDGEMINI, False), "mmd_ovo": (G.MMDGEMINI, True), "wasserstein_ova": (G.WassersteinGEMINI, False),
                "wasserstein_ovo": (G.WassersteinGEMINI, True), "kl_ova": (G.KLGEMINI, False), "kl_ovo": (G.KLGEMINI, True),
                "mi": (G.KLGEMINI, False), "tv_ova": (G.TVGEMINI, False), "tv_ovo": (G.TVGEMINI, True),
                "hellinger_ova": (G.HellingerGEMINI, False), "hellinger_ovo": (G.HellingerGEMINI, True),
                "chi2_ova": (G.ChiSquareGEMINI, False), "chi2_ovo": (G.ChiSquareGEMINI, True)}
MMD_EST = ["LinearMMD", "MLPMMD", "SparseLinearMMD", "SparseMLPMMD", "CategoricalMMD"]
WAS_EST = ["LinearWasserstein", "MLPWasserstein", "CategoricalWasserstein"]
MI_EST = ["RIM", "KernelRIM", "SparseLinearMI"]
GEN_EST = list(impl.GENERIC_GEMINI)
DOC_DEFAULT_GEMINI = {"Douglas": "wasserstein_ova"}


# ------------------------------------------------------------------ token protocol (mirrors ocaml/drv_c11.ml)
def xs(s):
    return "x" + s.encode().hex()


def unx(tok):
    assert tok[0] == "x", tok
    return bytes.fromhex(tok[1:]).decode()


class Objs:
    """Per-case table of user objects: identity decides, so 'stored unmodified' means 'the same object'."""

    def __init__(self):
        self.objs = []

    def tok(self, v):
        if v is None:
            return "N"
        if v is True:
            return "T"
        if v is False:
            return "F"
        if type(v) is str:
            return "s" + v.encode().hex()
        if type(v) in (int, float):
            return "n" + repr(v).encode().hex()
        for i, o in enumerate(self.objs):
            if o is v:
                break
        else:
            self.objs.append(v)
            i = len(self.objs) - 1
        return ("c" if callable(v) else "d" if isinstance(v, dict) else "o") + str(i)

    def kwargs(self, kw):
        return " ".join([str(len(kw))] + [xs(k) + " " + self.tok(v) for k, v in kw.items()])

    def untok(self, tok):
        k = tok[0]
        if k == "N":
            return None
        if k in "TF":
            return k == "T"
        if k == "s":
            return bytes.fromhex(tok[1:]).decode()
        if k == "n":
            return eval(bytes.fromhex(tok[1:]).decode(), {"__builtins__": {}}, {})
        return self.objs[int(tok[1:])]


def read_attrs(t):
    return {unx(k): v for k, v in t.list(lambda: (t.next(), t.next()))}


def read_outcome(t):
    k = t.next()
    if k == "CU":
        return ("CU", t.int())
    if k in ("UG", "EM", "E", "NONE"):
        return (k,)
    assert k == "PW", k
    kind, metric, p = t.next(), t.next(), t.next()
    return ("PW", kind, metric, t.next() if p == "PG" else None)


def read_desc(t):
    k = t.next()
    if k == "DU":
        return ("DU", t.next())
    cls = unx(t.next())
    fam = t.opt(lambda: unx(t.next()))
    ovo = t.opt(t.next)
    a = t.next()
    aff = (a,) if a != "AS" else ("AS", t.next(), t.opt(t.next), t.opt(t.next))
    return ("DB", cls, fam, ovo, aff)


def read_gobj(t):
    k = t.next()
    if k == "E":
        return ("E",), None
    g = ("U", t.next()) if k == "U" else ("G", unx(t.next()), read_attrs(t))
    return g, read_desc(t)


def impl_gobj(objs, g, given):
    """The implementation's GEMINI object in the model's vocabulary."""
    if any(g is o for o in given):
        return ("U", objs.tok(g))
    return ("G", type(g).__name__, {k: objs.tok(v) for k, v in vars(g).items()})


def family_of(g):
    return next((c.__name__ for c in type(g).__mro__ if "evaluate" in vars(c) and not getattr(vars(c)["evaluate"], "__isabstractmethod__", False)), None)


# ------------------------------------------------------------------ generators
def some_callable():
    M = {}

    def user_affinity(X, Y=None):
        user_affinity.calls.append((X, Y))
        key = (id(X), id(Y))
        if key not in M:
            n, m = len(X), (len(X) if Y is None else len(Y))
            M[key] = np.arange(n * m, dtype=float).reshape(n, m) / 7.0 + 0.5
        return M[key]
    user_affinity.calls = []
    return user_affinity


def kernel_params_for(rng, name):
    if name in ("rbf", "laplacian", "chi2"):
        return {"gamma": float(rng.choice([0.05, 0.3, 1.7]))}
    if name in ("poly", "polynomial"):
        return {"degree": int(rng.integers(2, 5)), "coef0": float(rng.choice([0.0, 0.5, 2.0])), "gamma": float(rng.choice([0.1, 0.7]))}
    if name == "sigmoid":
        return {"gamma": float(rng.choice([0.05, 0.4])), "coef0": float(rng.choice([0.0, 1.5]))}
    if name == "cosine":
        return {"dense_output": bool(rng.integers(0, 2))}
    if name == "linear":
        return {"dense_output": True}
    return {}


def metric_params_for(rng, name):
    if name in ("euclidean", "l2"):
        return {"squared": bool(rng.integers(0, 2))}
    if name == "nan_euclidean":
        return {"squared": True}
    return {}


def data_for(rng, name, n=None, d=None):
    n = int(rng.integers(1, 22)) if n is None else n
    d = int(rng.integers(1, 6)) if d is None else d
    if name == "haversine":
        d = 2
    X = rng.normal(size=(n, d))
    if name in ("chi2", "additive_chi2"):
        X = np.abs(X) + 0.1
    if name == "haversine":
        X = X / 4.0
    if n > 2 and rng.random() < 0.2:
        X[1] = X[0]                     # duplicated sample
    return np.ascontiguousarray(X)


def arbitrary_value(rng, objs_keep):
    k = int(rng.integers(0, 10))
    if k == 0:
        return None
    if k == 1:
        return bool(rng.integers(0, 2))
    if k == 2:
        return int(rng.integers(-3, 50))
    if k == 3:
        return float(rng.choice([0.0, 0.25, 1e-3, 7.5]))
    if k == 4:
        return str(rng.choice(["linear", "rbf", "precomputed", "mi", "adam", "x y", ""]))
    if k == 5:
        v = {"gamma": 0.5}
    elif k == 6:
        v = some_callable()
    elif k == 7:
        v = object()
    elif k == 8:
        v = [1, 2]
    else:
        v = G.MMDGEMINI(ovo=True)
    objs_keep.append(v)
    return v


def gemini_value(rng, param):
    """A valid argument for a GEMINI constructor (those validate on construction)."""
    if param == "ovo":
        return bool(rng.integers(0, 2))
    if param == "epsilon":
        return float(rng.choice([1e-12, 1e-9, 1e-3]))
    if param == "kernel":
        return some_callable() if rng.random() < 0.2 else str(rng.choice(KERNELS + ["precomputed"]))
    if param == "metric":
        return some_callable() if rng.random() < 0.2 else str(rng.choice(METRICS + ["precomputed"]))
    if param in ("kernel_params", "metric_params"):
        return None if rng.random() < 0.4 else {"gamma": 0.5}
    raise KeyError(param)


_CLASSES = {}


def model_classes(chk):
    if not _CLASSES:
        t = chk.ask("c11.classes")
        for name, parent, owner, params in t.list(lambda: (unx(t.next()), t.opt(lambda: unx(t.next())), t.opt(lambda: unx(t.next())),
                                                          t.list(lambda: (unx(t.next()), t.opt(t.next))))):
            _CLASSES[name] = {"parent": parent, "gg_owner": owner, "params": params}
    return _CLASSES


# ------------------------------------------------------------------ stream: constructors
def stream_ctor(chk, i, rng):
    classes = model_classes(chk)
    names = [n for n in classes if n in PY_CLASSES and not inspect.isabstract(PY_CLASSES[n])]
    name = names[i % len(names)]
    cls = PY_CLASSES[name]
    sig = inspect.signature(cls.__init__)
    py_params = [p for p in sig.parameters if p != "self"]
    model_params = [p for p, _ in classes[name]["params"]]
    replay = {"class": name}
    if py_params != model_params:
        chk.fail("ctor:signature", f"{name}: constructor parameters {py_params} differ from the regenerated table {model_params}", replay)
        return
    objs, keep = Objs(), []
    for p, d in classes[name]["params"]:
        dflt = sig.parameters[p].default
        if d is None or objs.tok(dflt) != d:
            chk.fail("ctor:default", f"{name}.{p}: default {dflt!r} differs from the regenerated table ({d})", replay)
    is_gem = name in GEM_CLASSES
    mode = "kw" if rng.random() < 0.75 else ("pos" if rng.random() < 0.7 else "bad")
    value = (lambda p: gemini_value(rng, p)) if is_gem else (lambda p: arbitrary_value(rng, keep))
    pos, kw = [], {}
    npos = int(rng.integers(1, len(py_params) + 1)) if mode == "pos" else 0
    for j, p in enumerate(py_params):
        if j < npos:
            pos.append(value(p))
        elif rng.random() < 0.6:
            kw[p] = value(p)
    if mode == "bad":
        if rng.random() < 0.5 or not py_params:
            kw["no_such_parameter"] = 1
        else:                                   # the same parameter positionally and by keyword
            pos = [value(py_params[0])]
            kw[py_params[0]] = value(py_params[0])
    t = chk.ask(f"c11.construct {xs(name)} {len(pos)} {' '.join(objs.tok(v) for v in pos)} {objs.kwargs(kw)}")
    ok = t.next() == "S"
    exp = read_attrs(t) if ok else None
    replay.update(mode=mode, positional=[repr(v) for v in pos], kwargs={k: repr(v) for k, v in kw.items()})
    try:
        obj = cls(*pos, **kw)
    except TypeError as e:
        obj = None
        if ok:
            chk.fail("ctor:model-mismatch", f"{name}: constructor raised {e!r} but the model accepts the call", replay)
    if obj is not None:
        got = {k: objs.tok(v) for k, v in vars(obj).items()}
        if not ok:
            chk.fail("ctor:model-mismatch", f"{name}: constructor accepted a call the model rejects", replay)
        elif got != exp:
            diff = {k: (got.get(k), exp.get(k)) for k in set(got) | set(exp) if got.get(k) != exp.get(k)}
            chk.fail("ctor:model-mismatch", f"{name}: attributes after construction differ from the model (impl, model): {diff}", replay)
        # L3: every argument is stored under its own name, unmodified (the same object); omitted ones hold the default
        given = dict(zip(py_params, pos), **{k: v for k, v in kw.items() if k in py_params})
        for p in py_params:
            want = given[p] if p in given else sig.parameters[p].default
            have = getattr(obj, p, KeyError)
            same = have is want or (type(want) in (int, float, str) and type(have) is type(want) and have == want)
            if not same:
                chk.fail(f"ctor:stored:{name}.{p}", f"{name}({p}={want!r}) stores {have!r} under {p}", replay, layer="L3")
        if hasattr(obj, "get_params"):
            gp = obj.get_params(deep=False)
            if any(gp[p] is not getattr(obj, p) for p in py_params):
                chk.fail(f"ctor:get_params:{name}", "get_params does not return the stored constructor arguments", replay, layer="L3")
    chk.dist["ctor:" + mode] += 1
    chk.count(("ctor", name, mode, tuple(sorted(kw)), len(pos)) if (kw or pos) else None)
    if i < 2:
        chk.sample({"stream": "ctor", **replay})


# ------------------------------------------------------------------ stream: get_gemini
def affinity_config(rng, kind, keep):
    """(value of kernel/metric, value of *_params) over all names, callables, 'precomputed'."""
    names = KERNELS if kind == "K" else METRICS
    r = rng.random()
    if r < 0.12:
        fn = some_callable()
        keep.append(fn)
    elif r < 0.24:
        fn = "precomputed"
    else:
        fn = str(rng.choice(names))
    r = rng.random()
    if r < 0.3:
        ps = None
    else:
        ps = kernel_params_for(rng, fn) if kind == "K" else metric_params_for(rng, fn)
        if not isinstance(fn, str) or fn == "precomputed":
            ps = {"gamma": 0.5}
        keep.append(ps)
    return fn, ps


def random_gemini_instance(rng, keep):
    cname = str(rng.choice(sorted(GEM_CLASSES)))
    cls = GEM_CLASSES[cname]
    kw = {}
    for p in inspect.signature(cls.__init__).parameters:
        if p != "self" and rng.random() < 0.5:
            kw[p] = gemini_value(rng, p)
    g = cls(**kw)
    keep.append(g)
    return g


def doc_oracle(chk, name, est, cfg, g, replay):
    """L3: what the documentation promises, checked on the returned object itself."""
    def bad(what):
        chk.fail(f"get_gemini:{name}", f"{name}.get_gemini(): {what}", replay, layer="L3")
    if name in MMD_EST:
        if type(g) is not G.MMDGEMINI:
            return bad(f"returned a {type(g).__name__}, documented MMDGEMINI")
        for a in ("ovo", "kernel", "kernel_params"):
            if getattr(g, a) is not getattr(est, a):
                bad(f"{a}={getattr(g, a)!r} is not the estimator's {a}={getattr(est, a)!r}")
    elif name in WAS_EST:
        if type(g) is not G.WassersteinGEMINI:
            return bad(f"returned a {type(g).__name__}, documented WassersteinGEMINI")
        for a in ("ovo", "metric", "metric_params"):
            if getattr(g, a) is not getattr(est, a):
                bad(f"{a}={getattr(g, a)!r} is not the estimator's {a}={getattr(est, a)!r}")
    elif name in MI_EST:
        if not isinstance(g, G.KLGEMINI) or g.ovo is not False or family_of(g) != "KLGEMINI" or g.compute_affinity(np.zeros((2, 1))) is not None:
            bad("is not the mutual information (KL one-vs-all, no affinity)")
    else:
        v = est.gemini
        if v is None or isinstance(v, str):
            want = DOC_REGISTRY.get("mmd_ova" if v is None else v)
            if want is None:
                return bad(f"accepted the unknown name {v!r}")
            if not isinstance(g, want[0]) or family_of(g) != want[0].__name__ or g.ovo is not want[1]:
                return bad(f"gemini={v!r} gave {type(g).__name__}(ovo={getattr(g, 'ovo', None)}), documented {want[0].__name__}(ovo={want[1]})")
            if want[0] is G.MMDGEMINI and (g.kernel != "linear" or g.kernel_params is not None):
                bad(f"gemini={v!r}: kernel {g.kernel!r}/{g.kernel_params!r}, documented the linear kernel")
            if want[0] is G.WassersteinGEMINI and (g.metric != "euclidean" or g.metric_params is not None):
                bad(f"gemini={v!r}: metric {g.metric!r}/{g.metric_params!r}, documented the Euclidean metric")
        elif g is not v:
            bad("did not return the GEMINI instance it was given")


def stream_get_gemini(chk, i, rng):
    classes = model_classes(chk)
    names = [n for n in classes if classes[n]["gg_owner"] and n in impl.ALL_ESTIMATORS and not inspect.isabstract(PY_CLASSES[n])]
    name = names[i % len(names)]
    params = [p for p, _ in classes[name]["params"]]
    objs, keep, cfg = Objs(), [], {}
    if "kernel" in params:
        cfg["kernel"], cfg["kernel_params"] = affinity_config(rng, "K", keep)
    if "metric" in params:
        cfg["metric"], cfg["metric_params"] = affinity_config(rng, "D", keep)
    if "base_kernel" in params:
        cfg["base_kernel"], cfg["base_kernel_params"] = affinity_config(rng, "K", keep)
    if "ovo" in params:
        cfg["ovo"] = bool(rng.integers(0, 2))
    if "gemini" in params:
        r = rng.random()
        if r < 0.12:
            cfg["gemini"] = None
        elif r < 0.62:
            cfg["gemini"] = str(rng.choice(sorted(DOC_REGISTRY)))
        elif r < 0.7:
            cfg["gemini"] = str(rng.choice(["mmd", "MI", "kl", "tv_ova ", "wasserstein"]))
        else:
            cfg["gemini"] = random_gemini_instance(rng, keep)
    cfg = {k: v for k, v in cfg.items() if rng.random() < 0.85}
    via_set = rng.random() < 0.35
    replay = {"estimator": name, "config": {k: repr(v) for k, v in cfg.items()}, "set_params": via_set}
    est = PY_CLASSES[name]().set_params(**cfg) if via_set else PY_CLASSES[name](**cfg)
    t = chk.ask(f"c11.gemini {xs(name)} {objs.kwargs(cfg)}")
    exp, desc = read_gobj(t)
    try:
        g = est.get_gemini()
    except ValueError as e:
        g = e
    if isinstance(g, Exception):
        if exp != ("E",):
            chk.fail("get_gemini:model-mismatch", f"{name}: get_gemini raised {g!r}, model returns {exp}", replay)
        elif not (isinstance(cfg.get("gemini"), str) and cfg["gemini"] not in DOC_REGISTRY):
            chk.fail(f"get_gemini:{name}", f"get_gemini raised {g!r} on a documented configuration", replay, layer="L3")
        chk.dist["gg:error"] += 1
        chk.count(("gg-err", name, cfg.get("gemini")))
        return
    got = impl_gobj(objs, g, keep)
    if got != exp:
        chk.fail("get_gemini:model-mismatch", f"{name}: get_gemini returned {got}, model {exp}", replay)
    elif desc[0] == "DB" and desc[2] != family_of(g):
        chk.fail("get_gemini:model-mismatch", f"{name}: objective class {family_of(g)}, model {desc[2]}", replay)
    doc_oracle(chk, name, est, cfg, g, replay)
    kind = "instance" if got[0] == "U" else type(g).__name__
    chk.dist["gg:" + kind] += 1
    sig = (name, kind, getattr(g, "ovo", None), str(cfg.get("kernel", cfg.get("metric", cfg.get("gemini"))))[:24],
           None if not (cfg.get("kernel_params") or cfg.get("metric_params")) else tuple(sorted((cfg.get("kernel_params") or cfg.get("metric_params")).items())))
    chk.count(sig if cfg else None)
    if i < 3:
        chk.sample({"stream": "get_gemini", **replay, "returned": str(got)[:200]})


# ------------------------------------------------------------------ stream: registry
def stream_registry(chk, i, rng):
    t = chk.ask("c11.registry")
    avail, chain = t.list(lambda: unx(t.next())), t.list(lambda: unx(t.next()))
    if list(gutils.AVAILABLE_GEMINIS) != avail:
        chk.fail("registry:available", f"AVAILABLE_GEMINIS {gutils.AVAILABLE_GEMINIS} differs from the regenerated table {avail}", {})
    if sorted(gutils.AVAILABLE_GEMINIS) != sorted(DOC_REGISTRY):
        chk.fail("registry:documented", f"AVAILABLE_GEMINIS {sorted(gutils.AVAILABLE_GEMINIS)} is not the documented set", {}, layer="L3")
    pool = sorted(set(avail) | set(DOC_REGISTRY)) + ["", "mmd", "MI", "kl_ova ", "tv", "wasserstein_ovo_", "chi2-ova"]
    name = pool[i % len(pool)]
    objs = Objs()
    exp, desc = read_gobj(chk.ask(f"c11.str {xs(name)}"))
    replay = {"name": name}
    try:
        g = gutils._str_to_gemini(name)
    except ValueError:
        g = None
        if exp != ("E",):
            chk.fail("registry:model-mismatch", f"_str_to_gemini({name!r}) raised, model returns {exp}", replay)
        if name in DOC_REGISTRY:
            chk.fail(f"registry:{name}", f"_str_to_gemini({name!r}) raised on a documented name", replay, layer="L3")
        chk.count(("reg-err", name))
        chk.dist["registry:error"] += 1
        return
    got = ("U", "N") if g is None else impl_gobj(objs, g, [])
    if got != exp:
        chk.fail("registry:model-mismatch", f"_str_to_gemini({name!r}) = {got}, model {exp}", replay)
    if name not in DOC_REGISTRY:
        chk.fail(f"registry:{name}", f"_str_to_gemini accepted the undocumented name {name!r}", replay, layer="L3")
    else:
        # L3: the object behaves like the documented class in the documented mode (value and gradient), default affinity
        cls, ovo = DOC_REGISTRY[name]
        ref = cls(ovo=ovo)
        n, k = int(rng.integers(3, 9)), int(rng.integers(2, 5))
        X = rng.normal(size=(n, 3))
        P = impl.softmax_rows(rng.normal(size=(n, k)) * float(rng.choice([0.3, 2.0])))
        if g is None or not isinstance(g, cls) or getattr(g, "ovo", None) is not ovo:
            chk.fail(f"registry:{name}", f"{name!r} gave {type(g).__name__}(ovo={getattr(g, 'ovo', None)}), documented {cls.__name__}(ovo={ovo})", replay, layer="L3")
        else:
            A, Aref = g.compute_affinity(X), ref.compute_affinity(X)
            want = pairwise_kernels(X, metric="linear") if cls is G.MMDGEMINI else pairwise_distances(X, metric="euclidean") if cls is G.WassersteinGEMINI else None
            if (A is None) != (want is None) or (A is not None and not (np.array_equal(A, want) and np.array_equal(Aref, want))):
                chk.fail(f"registry:{name}", "default affinity is not the linear kernel / Euclidean distance", replay, layer="L3")
            else:
                v1, g1 = g(P, A, return_grad=True)
                v2, g2 = ref(P, Aref, return_grad=True)
                if not (np.allclose(v1, v2, rtol=1e-12, atol=1e-12) and np.allclose(g1, g2, rtol=1e-9, atol=1e-12)):
                    chk.fail(f"registry:{name}", f"{name!r} does not evaluate like {cls.__name__}(ovo={ovo})", replay, layer="L3")
    chk.dist["registry:" + ("known" if name in DOC_REGISTRY else "unknown")] += 1
    chk.count(("reg", name))


# ------------------------------------------------------------------ stream: compute_affinity
def run_affinity(fn, X, y):
    """Call an affinity routine: (kind, value, warnings)."""
    with warnings.catch_warnings(record=True) as w:
        warnings.simplefilter("always")
        try:
            r = ("ok", fn(X, y) if y is not Ellipsis else fn(X))
        except ValueError as e:
            r = ("ValueError", str(e))
        except TypeError as e:
            r = ("TypeError", str(e))
    return r, [str(x.message) for x in w]


def expected_from_outcome(objs, out, X, y, X2=None):
    """What the model's outcome denotes, computed with scikit-learn directly."""
    if out[0] == "CU":
        return ("callable", objs.objs[out[1]])
    if out[0] == "UG":
        return ("is", y)
    if out[0] == "EM":
        return ("ValueError", None)
    _, kind, metric, ps = out
    f = pairwise_kernels if kind == "K" else pairwise_distances
    params = {} if ps is None else objs.untok(ps)
    args = (X,) if X2 is None else (X, X2)
    try:
        return ("equal", f(*args, metric=objs.untok(metric), **params))
    except TypeError:
        return ("TypeError", None)
    except ValueError:
        return ("ValueError", None)


def compare_affinity(chk, key, what, res, exp, fn_obj, X, replay, layer="L2", X2=None):
    kind, val = res
    if exp[0] in ("ValueError", "TypeError"):
        if kind != exp[0]:
            chk.fail(key, f"{what}: expected {exp[0]}, got {kind}", replay, layer=layer)
        return
    if kind != "ok":
        chk.fail(key, f"{what}: raised {kind}: {val}", replay, layer=layer)
    elif exp[0] == "is" and val is not exp[1] and not (isinstance(val, np.ndarray) and val.shape == exp[1].shape and np.array_equal(val, exp[1])):
        chk.fail(key, f"{what}: the precomputed matrix was not returned as given", replay, layer=layer)
    elif exp[0] == "callable":
        calls = exp[1].calls
        okargs = len(calls) == 1 and calls[0][0] is X and (calls[0][1] is X2 if X2 is not None else calls[0][1] is None)
        if not okargs or val is not exp[1](X, X2):
            chk.fail(key, f"{what}: the result is not the user's callable applied once to the data", replay, layer=layer)
    elif exp[0] == "equal" and not (isinstance(val, np.ndarray) and val.shape == exp[1].shape and np.array_equal(val, exp[1], equal_nan=True)):
        chk.fail(key, f"{what}: differs from the scikit-learn function called directly with the same parameters", replay, layer=layer)


def stream_affinity(chk, i, rng):
    route = ["gemini", "estimator", "kauri", "kernelrim"][i % 4] if i % 16 < 12 else "gemini"
    objs, keep = Objs(), []
    kind = "K" if (route in ("kauri", "kernelrim") or rng.random() < 0.55) else "D"
    fn, ps = affinity_config(rng, kind, keep)
    if route == "kernelrim" and fn == "precomputed":
        fn = "rbf"
    if route == "kauri" and not isinstance(fn, str):
        fn = "laplacian"
    if rng.random() < 0.06 and isinstance(fn, str) and fn != "precomputed":
        ps = object() if rng.random() < 0.5 else {"no_such_option": 1}         # malformed parameter value
    X = data_for(rng, fn if isinstance(fn, str) else "linear")
    n = len(X)
    has_y = rng.random() < (0.7 if fn == "precomputed" else 0.25)
    y = (np.round(rng.normal(size=(n, n)), 3) if has_y else None)
    replay = {"route": route, "kind": kind, "fn": repr(fn), "params": repr(ps), "has_y": has_y, "X": X.tolist()}
    fa, pa = ("kernel", "kernel_params") if kind == "K" else ("metric", "metric_params")
    X2 = None
    # direct expectation, independent of the model (L3)
    if callable(fn):
        direct = ("callable", fn)
    elif fn == "precomputed":
        direct = ("is", y) if has_y else ("ValueError", None)
    else:
        f = pairwise_kernels if kind == "K" else pairwise_distances
        try:
            direct = ("equal", f(X, metric=fn, **({} if ps is None else ps)))
        except TypeError:
            direct = ("TypeError", None)
        except ValueError:
            direct = ("ValueError", None)
    if route == "gemini":
        try:
            g = (G.MMDGEMINI if kind == "K" else G.WassersteinGEMINI)(**{fa: fn, pa: ps, "ovo": bool(rng.integers(0, 2))})
        except (ValueError, TypeError):
            chk.dist["affinity:rejected-at-construction"] += 1
            chk.count(None)
            return
        t = chk.ask(f"c11.dispatch {kind} {objs.tok(fn)} {objs.tok(ps)} {int(has_y)}")
        out, warn = read_outcome(t), t.bool()
        res, ws = run_affinity(g.compute_affinity, X, y)
        if warn != any("ignored" in m for m in ws):
            chk.fail("affinity:warning", f"compute_affinity warned={ws}, model warns={warn}", replay)
        what = f"{type(g).__name__}.compute_affinity"
    elif route == "estimator":
        pool = MMD_EST if kind == "K" else WAS_EST
        name = pool[int(rng.integers(0, len(pool)))]
        cfg = {fa: fn, pa: ps}
        est = PY_CLASSES[name](**cfg)
        out = read_outcome(chk.ask(f"c11.affinity {xs(name)} {objs.kwargs(cfg)} {int(has_y)}"))
        replay["estimator"] = name
        try:
            g = est.get_gemini()
        except (ValueError, TypeError) as e:    # the GEMINI validates its arguments: malformed values stop here
            if isinstance(ps, dict) or ps is None:
                chk.fail("affinity:estimator", f"{name}.get_gemini() raised {e!r}", replay, layer="L3")
            chk.count(None)
            return
        res, ws = run_affinity(g.compute_affinity, X, y)
        what = f"{name}.get_gemini().compute_affinity"
    elif route == "kauri":
        est = impl.Kauri(kernel=fn)
        t = chk.ask(f"c11.kauri {objs.tok(fn)} {int(has_y)}")
        out, warn = read_outcome(t), t.bool()
        res, ws = run_affinity(est._compute_kernel, X, y)
        ps = None                                # Kauri has no kernel parameters
        if fn == "precomputed" and not has_y:
            # as-is model (finding F17): warning + linear kernel.  A repaired Kauri raises instead.
            if res[0] == "ValueError":
                chk.notes.append("F17 no longer reproduces: Kauri raises on a missing precomputed matrix (the as-is model is stale)") if not any("F17" in s for s in chk.notes) else None
                chk.count(("kauri-missing-fixed",))
                return
            chk.fail("kauri:precomputed-missing-matrix", "Kauri(kernel='precomputed')._compute_kernel(X, None) does not raise: it warns and returns the linear kernel",
                     dict(replay, returned_linear=bool(res[0] == "ok" and np.array_equal(res[1], pairwise_kernels(X, metric="linear")))), layer="L3")
            direct = ("equal", pairwise_kernels(X, metric="linear"))
        elif fn != "precomputed":
            direct = ("equal", pairwise_kernels(X, metric=fn))
        if warn != bool(ws):
            chk.fail("affinity:kauri-warning", f"Kauri._compute_kernel warned={ws}, model warns={warn}", replay)
        what = "Kauri._compute_kernel"
    else:
        est = impl.KernelRIM(base_kernel=fn, base_kernel_params=ps)
        X2 = data_for(rng, fn if isinstance(fn, str) else "linear", d=X.shape[1])
        est.input_data_ = X2
        out = read_outcome(chk.ask(f"c11.kernelrim {objs.tok(fn)} {objs.tok(ps)}"))
        res, ws = run_affinity(est._compute_kernel, X, Ellipsis)
        if not callable(fn):
            try:
                direct = ("equal", pairwise_kernels(X, X2, metric=fn, **({} if ps is None else ps)))
            except TypeError:
                direct = ("TypeError", None)
            except ValueError:
                direct = ("ValueError", None)
        what = "KernelRIM._compute_kernel"
    if out[0] in ("E", "NONE"):
        chk.fail("affinity:model-mismatch", f"{what}: the model has no affinity for this configuration ({out})", replay)
    else:
        exp = expected_from_outcome(objs, out, X, y, X2)
        compare_affinity(chk, "affinity:model-mismatch", what, res, exp, fn, X, replay, X2=X2)
    if callable(fn):
        fn.calls.clear()
        res2, _ = run_affinity({"gemini": lambda: g.compute_affinity, "estimator": lambda: g.compute_affinity,
                                "kernelrim": lambda: est._compute_kernel}[route](), X, y if route != "kernelrim" else Ellipsis)
        compare_affinity(chk, f"affinity:{route}", what, res2, direct, fn, X, replay, layer="L3", X2=X2)
    else:
        compare_affinity(chk, f"affinity:{route}", what, res, direct, fn, X, replay, layer="L3", X2=X2)
    # non-trivial: the parameter dictionary changes the matrix, or a non-default branch is taken
    nontriv = callable(fn) or fn == "precomputed"
    if direct[0] == "equal" and isinstance(ps, dict) and ps and route != "kauri":
        f = pairwise_kernels if kind == "K" else pairwise_distances
        base = f(X, metric=fn) if X2 is None else f(X, X2, metric=fn)
        nontriv = base.shape != direct[1].shape or not np.array_equal(base, direct[1], equal_nan=True)
    elif direct[0] == "equal" and fn not in ("linear", "euclidean"):
        nontriv = True
    chk.dist[f"affinity:{route}:{'callable' if callable(fn) else fn if fn == 'precomputed' else 'named'}:{direct[0]}"] += 1
    chk.count((route, kind, repr(fn)[:20], repr(ps)[:40], has_y, n) if nontriv else None)
    if i < 2:
        chk.sample({"stream": "affinity", **{k: v for k, v in replay.items() if k != "X"}, "model": str(out)})


# ------------------------------------------------------------------ stream: named = precomputed (whole fits, paths, trees)
def close(a, b, tol=1e-9):
    a, b = np.asarray(a, dtype=float), np.asarray(b, dtype=float)
    if a.shape != b.shape:
        return False, False
    exact = bool(np.array_equal(a, b, equal_nan=True))
    scale = float(np.max(np.abs(a))) if a.size else 0.0
    return exact, exact or bool(np.all(np.abs(a - b) <= tol * (1 + scale)))


def same_arrays(chk, key, what, xs_, ys_, replay, exact_expected=True, tol=1e-9):
    ok = len(xs_) == len(ys_)
    allexact = True
    for a, b in zip(xs_, ys_):
        e, c = close(a, b, tol)
        allexact &= e
        ok &= c
    if not ok:
        chk.fail(key, f"{what} differ between the named affinity and the equal precomputed matrix", replay, layer="L3")
    elif not allexact and exact_expected:
        chk.dist["equal:within-tolerance-not-bitwise"] += 1
    return ok


def stream_equal(chk, i, rng):
    kinds = MMD_EST + WAS_EST + GEN_EST + ["Kauri", "Kauri", "path:SparseLinearMMD", "path:SparseMLPMMD", "path:SparseLinearModel", "KernelRIM"]
    which = kinds[i % len(kinds)]
    is_path = which.startswith("path:")
    name = which.split(":")[-1]
    n = int(rng.integers(8, 26))
    d = int(rng.integers(2, 5))
    wass = name in WAS_EST or (name in GEN_EST and rng.random() < 0.3)
    by_name = name in GEN_EST and rng.random() < 0.25       # the registry's default affinity, named by a gemini string
    if wass:
        n = min(n, 14)
        fn = "euclidean" if by_name else str(rng.choice([m for m in METRICS if m != "haversine"]))
        ps = metric_params_for(rng, fn) if (rng.random() < 0.5 and not by_name) else None
    else:
        fn = "linear" if by_name else str(rng.choice(KERNELS))
        ps = kernel_params_for(rng, fn) if (rng.random() < 0.7 and name != "Kauri" and not by_name) else None
    X = data_for(rng, fn, n=n, d=d) + (0.0 if fn in ("chi2", "additive_chi2") else impl.blobs(rng, n, d, k=3) * 0.5)
    if fn in ("chi2", "additive_chi2"):
        X = np.abs(X)
    f = pairwise_distances if wass else pairwise_kernels
    K = f(X, metric=fn, **(ps or {}))
    common = dict(n_clusters=int(rng.integers(2, 4)), max_iter=int(rng.integers(2, 5)), learning_rate=0.01,
                  batch_size=None if rng.random() < 0.4 else int(rng.integers(3, n + 1)),
                  solver="sgd" if rng.random() < 0.4 else "adam", random_state=int(rng.integers(0, 1000)), n_hidden_dim=5)
    ovo = bool(rng.integers(0, 2))
    replay = {"estimator": which, "fn": fn, "params": repr(ps), "ovo": ovo, "common": common, "X": X.tolist()}
    fa, pa = ("metric", "metric_params") if wass else ("kernel", "kernel_params")
    if name == "KernelRIM":
        # kernel between new and training points: a name with parameters and the equivalent callable are one model
        def as_callable(A, B):
            return pairwise_kernels(A, B, metric=fn, **(ps or {}))
        a = impl.make(name, base_kernel=fn, base_kernel_params=ps, **common).fit(X)
        b = impl.make(name, base_kernel=as_callable, **common).fit(X)
        Xn = data_for(rng, fn, n=5, d=d)
        same_arrays(chk, "equal:KernelRIM", "weights / probabilities on new points", a._get_weights() + [a.predict_proba(Xn), a.score(X)],
                    b._get_weights() + [b.predict_proba(Xn), b.score(X)], replay)
        if not np.array_equal(a.training_kernel_, K) or not np.array_equal(a.predict_proba(Xn), a._infer(pairwise_kernels(Xn, X, metric=fn, **(ps or {})))):
            chk.fail("equal:KernelRIM-kernel", "KernelRIM does not work on pairwise_kernels(new, training, metric=base_kernel, **base_kernel_params)", replay, layer="L3")
        chk.traces += 2
        chk.count(("equal", which, fn, repr(ps)))
        chk.dist["equal:KernelRIM"] += 1
        return
    if name == "Kauri":
        kw = dict(max_clusters=int(rng.integers(2, 5)), max_depth=None if rng.random() < 0.5 else int(rng.integers(1, 4)),
                  min_samples_leaf=int(rng.integers(1, 3)), random_state=common["random_state"])
        kw["min_samples_split"] = 2 * kw["min_samples_leaf"] + int(rng.integers(0, 2))
        replay["common"] = kw
        a = impl.Kauri(kernel=fn, **kw).fit(X)
        b = impl.Kauri(kernel="precomputed", **kw).fit(X, K)
        ta, tb = vars(a.tree_), vars(b.tree_)
        if ta.keys() != tb.keys() or any(ta[k] != tb[k] for k in ta if k not in ("gains",)):
            chk.fail("equal:Kauri-tree", "tree arrays differ between kernel name and the equal precomputed matrix", replay, layer="L3")
        same_arrays(chk, "equal:Kauri", "labels_ / gains / score / predictions", [a.labels_, ta["gains"], a.score(X), a.predict(X)],
                    [b.labels_, tb["gains"], b.score(X, K), b.predict(X)], replay)
        chk.traces += 2
        chk.count(("equal", "Kauri", fn, n, kw["max_clusters"]) if a.tree_.n_nodes > 1 else None)
        chk.dist["equal:Kauri"] += 1
        return
    if name in GEN_EST:
        gcls = G.WassersteinGEMINI if wass else G.MMDGEMINI
        named = dict(gemini=gcls(ovo=ovo, **{fa: fn, pa: ps}))
        pre = dict(gemini=gcls(ovo=ovo, **{fa: "precomputed"}))
        if by_name:
            named = dict(gemini=("wasserstein" if wass else "mmd") + ("_ovo" if ovo else "_ova"))      # the registry's default affinity
    else:
        named = {fa: fn, pa: ps, "ovo": ovo}
        pre = {fa: "precomputed", "ovo": ovo, pa: ({"gamma": 123.0} if rng.random() < 0.3 else None)}   # parameters are ignored when precomputed
    if is_path:
        common.update(alpha=float(rng.choice([0.2, 0.5])), max_iter=2, dynamic=False)
        pargs = dict(alpha_multiplier=float(rng.choice([2.0, 3.0])), min_features=max(1, d - 2), max_patience=int(rng.integers(1, 3)))
        replay["path_args"] = pargs
        a, b = impl.make(name, **named, **common), impl.make(name, **pre, **common)
        ra, rb = a.path(X, **pargs), b.path(X, K, **pargs)
        flat = lambda r: list(r[0]) + [np.asarray(x, dtype=float) for x in r[1:]]   # noqa: E731
        same_arrays(chk, f"equal:path:{name}", "best weights / geminis / penalties / alphas / n_features of path()", flat(ra) + a._get_weights(),
                    flat(rb) + b._get_weights(), replay, exact_expected=False, tol=1e-7)
        # (on the named route the validation blocks of path() recompute the kernel per block instead of slicing it: one-ulp
        #  differences, amplified by the square root of a vanishing MMD when no feature is left; fits themselves are bit-identical)
        chk.traces += 2
        chk.count(("path", name, fn, repr(ps), len(ra[3])) if len(ra[3]) >= 2 else None)
        chk.dist["equal:path"] += 1
        return
    a, b = impl.make(name, **named, **common).fit(X), impl.make(name, **pre, **common).fit(X, K)
    obs_a = a._get_weights() + [a.labels_, a.score(X), a.predict_proba(X)]
    obs_b = b._get_weights() + [b.labels_, b.score(X, K), b.predict_proba(X)]
    same_arrays(chk, f"equal:fit:{name}", "fitted weights / labels_ / score / probabilities", obs_a, obs_b, replay)
    # a precomputed configuration without a matrix must not train or score (L3; Kauri is F17, handled in the affinity stream)
    for label, call in (("fit", lambda: impl.make(name, **pre, **common).fit(X)), ("score", lambda: b.score(X))):
        try:
            call()
            chk.fail(f"missing-matrix:{name}.{label}", f"{name}.{label}(X) with a precomputed affinity and no matrix did not raise", replay, layer="L3")
        except ValueError:
            pass
    chk.traces += 2
    chk.count(("equal", name, fn, repr(ps), ovo, common["batch_size"] is None))
    chk.dist["equal:fit:" + ("wasserstein" if wass else "mmd")] += 1
    if i < 1:
        chk.sample({"stream": "equal", **{k: v for k, v in replay.items() if k != "X"}})


# ------------------------------------------------------------------ stream: fit -> set_params -> score
FAMILY = {"KLGEMINI": G.KLGEMINI, "TVGEMINI": G.TVGEMINI, "HellingerGEMINI": G.HellingerGEMINI, "ChiSquareGEMINI": G.ChiSquareGEMINI,
          "MMDGEMINI": G.MMDGEMINI, "WassersteinGEMINI": G.WassersteinGEMINI}


def gemini_related(rng, name, keep, n, allow_pre=True):
    """A random setting of the GEMINI-related hyper-parameters of estimator `name` (values valid for fit)."""
    def aff(kind):
        fn, ps = affinity_config(rng, kind, keep)
        if fn == "precomputed" and not allow_pre:
            fn = "rbf" if kind == "K" else "cityblock"
        if isinstance(fn, str) and fn in ("chi2", "additive_chi2", "haversine"):
            fn = "laplacian" if kind == "K" else "l1"           # data of the sequences is signed, any width
        if not isinstance(fn, str) or fn == "precomputed":
            ps = None if rng.random() < 0.6 else ps
        elif ps is not None:
            ps = kernel_params_for(rng, fn) if kind == "K" else metric_params_for(rng, fn)
            keep.append(ps)
        return fn, ps
    cfg = {}
    if name in MMD_EST:
        cfg["kernel"], cfg["kernel_params"] = aff("K")
        cfg["ovo"] = bool(rng.integers(0, 2))
    elif name in WAS_EST:
        cfg["metric"], cfg["metric_params"] = aff("D")
        cfg["ovo"] = bool(rng.integers(0, 2))
    elif name == "KernelRIM":
        fn, ps = aff("K")
        if fn == "precomputed":
            fn, ps = "sigmoid", None
        cfg["base_kernel"], cfg["base_kernel_params"] = fn, ps
    elif name == "Kauri":
        fn, _ = aff("K")
        cfg["kernel"] = fn if isinstance(fn, str) else "polynomial"
    elif name in GEN_EST:
        r = rng.random()
        if r < 0.1:
            cfg["gemini"] = None
        elif r < 0.5:
            cfg["gemini"] = str(rng.choice(sorted(DOC_REGISTRY)))
        else:
            kind = "K" if rng.random() < 0.6 else "D"
            fn, ps = aff(kind)
            g = (G.MMDGEMINI if kind == "K" else G.WassersteinGEMINI)(ovo=bool(rng.integers(0, 2)),
                                                                      **({"kernel": fn, "kernel_params": ps} if kind == "K" else {"metric": fn, "metric_params": ps}))
            if rng.random() < 0.25:
                g = [G.KLGEMINI, G.TVGEMINI, G.HellingerGEMINI, G.ChiSquareGEMINI][int(rng.integers(0, 4))](ovo=bool(rng.integers(0, 2)))
            keep.append(g)
            cfg["gemini"] = g
    return cfg


def needs_matrix(cfg):
    g = cfg.get("gemini")
    vals = [cfg.get("kernel"), cfg.get("metric"), getattr(g, "kernel", None), getattr(g, "metric", None)]
    return any(isinstance(v, str) and v == "precomputed" for v in vals)


def uses_wasserstein(name, cfg):
    g = cfg.get("gemini")
    return name in WAS_EST or isinstance(g, G.WassersteinGEMINI) or (isinstance(g, str) and g.startswith("wasserstein"))


def stream_sequence(chk, i, rng):
    """score() must use the GEMINI and the affinity described by the hyper-parameters as they are when it is called."""
    from gemclus.tree._utils import gemini_objective
    pool = MMD_EST + WAS_EST + GEN_EST + ["KernelRIM", "Kauri", "RIM", "SparseLinearMI"]
    name = pool[i % len(pool)]
    control = (i // len(pool)) % 4 == 3                      # set_params before the first fit
    objs, keep = Objs(), []
    n, d = int(rng.integers(8, 15)), int(rng.integers(2, 4))
    X = np.ascontiguousarray(impl.blobs(rng, n, d, k=3) * 0.6)
    cfg0 = gemini_related(rng, name, keep, n)
    cfg1 = gemini_related(rng, name, keep, n)
    if cfg1 and rng.random() < 0.5:                           # change a single hyper-parameter only
        k = sorted(cfg1)[int(rng.integers(0, len(cfg1)))]
        cfg1 = {k: cfg1[k]}
        if k.endswith("_params") and isinstance(cfg0.get(k[:-7]), str) and cfg0[k[:-7]] != "precomputed":
            cfg1[k] = (kernel_params_for if "kernel" in k else metric_params_for)(rng, cfg0[k[:-7]]) or None
            keep.append(cfg1[k])
    for fk in ("kernel", "metric", "base_kernel"):           # keep name and parameter dictionary compatible after a partial change
        fv, pv = {**cfg0, **cfg1}.get(fk), {**cfg0, **cfg1}.get(fk + "_params")
        if isinstance(fv, str) and fv != "precomputed" and isinstance(pv, dict):
            try:
                (pairwise_distances if fk == "metric" else pairwise_kernels)(X[:2], metric=fv, **pv)
            except TypeError:
                cfg1[fk + "_params"] = None
    common = dict(max_iter=int(rng.integers(1, 4)), learning_rate=0.01, random_state=int(rng.integers(0, 100)), n_hidden_dim=4,
                  batch_size=None if rng.random() < 0.5 else int(rng.integers(3, n + 1)))
    common["max_clusters" if name == "Kauri" else "n_clusters"] = int(rng.integers(2, 4))
    mat = lambda: np.round(np.abs(rng.normal(size=(n, n))), 3)        # noqa: E731
    replay = {"estimator": name, "order": "set_params-then-fit" if control else "fit-then-set_params", "initial": {k: repr(v) for k, v in cfg0.items()},
              "changed": {k: repr(v) for k, v in cfg1.items()}, "common": common, "X": X.tolist()}
    est = impl.make(name, **cfg0, **common)
    try:
        if control:
            est.set_params(**cfg1)
            y_fit = mat() if needs_matrix({**cfg0, **cfg1}) else None
            est.fit(X, y_fit)
        else:
            y_fit = mat() if needs_matrix(cfg0) else None
            est.fit(X, y_fit)
            est.set_params(**cfg1)
    except (ValueError, TypeError) as e:
        chk.fail("sequence:fit", f"{name}: fit on a valid configuration raised {e!r}", replay, layer="L3")
        return
    cur = {**cfg0, **cfg1}
    pre = needs_matrix(cur)
    give_y = rng.random() < (0.75 if pre else 0.15)
    y = mat() if give_y else None
    replay.update(precomputed=pre, matrix_given=give_y, y=None if y is None else y.tolist())
    params = {p: v for p, v in est.get_params(deep=False).items()}
    with warnings.catch_warnings(record=True):
        warnings.simplefilter("always")
        try:
            got = ("ok", float(est.score(X, y)))
        except ValueError as e:
            got = ("ValueError", str(e)[:80])
        except TypeError as e:
            got = ("TypeError", str(e)[:80])
    for c in keep:
        if callable(c) and hasattr(c, "calls"):
            c.calls.clear()
    # ---- L2: the model's GEMINI / affinity for the CURRENT hyper-parameters
    exp = None
    if name == "Kauri":
        out = read_outcome(chk.ask(f"c11.affinity {xs(name)} {objs.kwargs(params)} {int(give_y)}"))
        e = expected_from_outcome(objs, out, X, y)
        if pre and not give_y:
            if got[0] == "ValueError":
                exp = ("ValueError", None)              # a repaired Kauri (F17 gone)
            else:
                chk.fail("kauri:precomputed-missing-matrix", "Kauri(kernel='precomputed').score(X) without a matrix does not raise (linear-kernel fallback)", replay, layer="L3")
        if exp is None:
            A = e[1] if e[0] in ("equal", "is") else None
            exp = ("ok", float(gemini_objective(est.predict(X), A))) if A is not None else (e[0], None)
    else:
        gob, desc = read_gobj(chk.ask(f"c11.gemini {xs(name)} {objs.kwargs(params)}"))
        if name == "KernelRIM":
            o = read_outcome(chk.ask(f"c11.kernelrim {objs.tok(params['base_kernel'])} {objs.tok(params['base_kernel_params'])}"))
            ek = expected_from_outcome(objs, o, X, None, est.input_data_)
            P = None if ek[0] in ("TypeError", "ValueError") else est._infer(ek[1](X, est.input_data_) if ek[0] == "callable" else ek[1], retain=False)
        else:
            P = est.predict_proba(X)
        if P is None:
            exp = (ek[0], None)
        elif desc is None:
            exp = ("ValueError", None)
        elif desc[0] == "DU":
            g = objs.untok(desc[1])
            try:
                exp = ("ok", float(g(P, g.compute_affinity(X, y))))
            except ValueError:
                exp = ("ValueError", None)
            except TypeError:
                exp = ("TypeError", None)
        else:
            _, gcls, fam, ovo, aff = desc
            ovo_v = objs.untok(ovo)
            if aff[0] == "AN":
                exp = ("ok", float(FAMILY[fam](ovo=ovo_v)(P, None)))
            else:
                out = read_outcome(chk.ask(f"c11.dispatch {aff[1]} {aff[2]} {aff[3]} {int(give_y)}"))
                e = expected_from_outcome(objs, out, X, y)
                if e[0] in ("ValueError", "TypeError"):
                    exp = (e[0], None)
                else:
                    A = e[1](X) if e[0] == "callable" else e[1]
                    ref = FAMILY[fam](ovo=ovo_v, **({"kernel": "precomputed"} if fam == "MMDGEMINI" else {"metric": "precomputed"}))
                    exp = ("ok", float(ref(P, A)))
    ok = got[0] == exp[0] and (got[0] != "ok" or abs(got[1] - exp[1]) <= 1e-9 * (1 + abs(exp[1])) or (got[1] != got[1] and exp[1] != exp[1]))
    if not ok:
        chk.fail("sequence:model-mismatch", f"{name} [{replay['order']}]: score = {got}, but the GEMINI / affinity the current hyper-parameters describe (model) give {exp}", replay)
    # ---- L3: the same, from the documentation and freshly built library objects, independently of the Coq model
    try:
        if name == "Kauri":
            k = est.kernel
            if k == "precomputed":
                ind = None if y is None else ("ok", float(gemini_objective(est.predict(X), y)))
            else:
                ind = ("ok", float(gemini_objective(est.predict(X), pairwise_kernels(X, metric=k))))
        else:
            if name in MMD_EST:
                g = G.MMDGEMINI(ovo=est.ovo, kernel=est.kernel, kernel_params=est.kernel_params)
            elif name in WAS_EST:
                g = G.WassersteinGEMINI(ovo=est.ovo, metric=est.metric, metric_params=est.metric_params)
            elif name in MI_EST:
                g = G.KLGEMINI(ovo=False)
            else:
                v = est.gemini
                g = v if isinstance(v, tuple(FAMILY.values())) else (lambda c, o: c(ovo=o))(*DOC_REGISTRY["mmd_ova" if v is None else v])
            if name == "KernelRIM":
                bk, bp = est.base_kernel, est.base_kernel_params
                Kx = bk(X, est.input_data_) if callable(bk) else pairwise_kernels(X, est.input_data_, metric=bk, **(bp or {}))
                Pi = est._infer(Kx, retain=False)
            else:
                Pi = est.predict_proba(X)
            with warnings.catch_warnings():
                warnings.simplefilter("ignore")
                ind = ("ok", float(g(Pi, g.compute_affinity(X, y))))
    except ValueError:
        ind = ("ValueError", None)
    except TypeError:
        ind = ("TypeError", None)
    if ind is not None:
        ok3 = got[0] == ind[0] and (got[0] != "ok" or abs(got[1] - ind[1]) <= 1e-9 * (1 + abs(ind[1])) or (got[1] != got[1] and ind[1] != ind[1]))
        if not ok3:
            key = f"sequence:score:{name}" if not (pre and not give_y) else f"sequence:missing-matrix:{name}"
            chk.fail(key, f"{name} [{replay['order']}]: score(X{', y' if give_y else ''}) = {got}; the hyper-parameters {({k: repr(v)[:40] for k, v in cur.items()})} describe {ind}", replay, layer="L3")
    changed = any(repr(cfg0.get(k)) != repr(v) for k, v in cfg1.items())
    chk.traces += 1
    chk.dist[f"sequence:{'control' if control else 'fit-set-score'}:{got[0]}"] += 1
    chk.count((name, control, tuple(sorted(cfg1)), got[0], pre, give_y, repr(sorted(cur.items(), key=str))[:80]) if (changed or control) else None)
    if i < 2:
        chk.sample({"stream": "sequence", **{k: v for k, v in replay.items() if k not in ("X", "y")}, "score": got})


# ------------------------------------------------------------------ stream: every public entry point that trains or scores
def bound_argument(original, name, args, kwargs):
    """The value the call passes for parameter `name` of `original`, however it is spelled (positional or keyword)."""
    ba = inspect.signature(original).bind(*args, **kwargs)
    ba.apply_defaults()
    return ba.arguments[name]


class Recording:
    """Records the affinity the objective actually receives: MMD / Wasserstein evaluate (patched on the classes, from
    outside), and the kernel handed to Kauri's split search and objective (every binding of those function objects in the
    loaded gemclus modules).  Wrappers forward their arguments untouched; a failure of the recording itself is kept in
    .errors and reported under a harness-error key, never as a finding about the library."""

    def __enter__(self):
        import sys
        from gemclus.tree import _utils as kutils
        self.log, self.saved, self.rebound, self.errors = [], [], [], []
        log, errors = self.log, self.errors

        def recorder(orig, pname):
            def wrapper(*args, **kwargs):
                try:
                    log.append(bound_argument(orig, pname, args, kwargs))
                except Exception as e:  # noqa: the recording must never change what the library does
                    errors.append(f"{getattr(orig, '__qualname__', orig)}: {e!r}")
                return orig(*args, **kwargs)
            return wrapper
        for cls in (G.MMDGEMINI, G.WassersteinGEMINI):
            orig = cls.evaluate
            self.saved.append((cls, "evaluate", orig))
            cls.evaluate = recorder(orig, "affinity")
        for func, pname in ((kutils.find_best_split, "kernel"), (kutils.gemini_objective, "kernel")):
            w = recorder(func, pname)
            for mn, mod in list(sys.modules.items()):
                d = getattr(mod, "__dict__", None)
                if mod is None or not (mn == "gemclus" or mn.startswith("gemclus.")) or not isinstance(d, dict):
                    continue
                for nm, val in list(d.items()):
                    if val is func:
                        d[nm] = w
                        self.rebound.append((d, nm, func))
        return self

    def __exit__(self, *exc):
        for obj, nm, orig in self.saved:
            setattr(obj, nm, orig)
        for d, nm, func in self.rebound:
            d[nm] = func
        return False

    def take(self):
        out = list(self.log)
        self.log.clear()
        return out


def stream_entrypoints(chk, i, rng):
    """fit, fit_predict, score, path (and predict after fit for KernelRIM): named, precomputed and callable spellings of one
    affinity must reach the objective as the same matrix through every entry point and give the same clustering."""
    pool = MMD_EST + WAS_EST + ["Kauri", "LinearModel", "Kauri", "SparseMLPModel", "KernelRIM", "Douglas", "Kauri"]
    name = pool[i % len(pool)]
    wass = name in WAS_EST or (name in GEN_EST and rng.random() < 0.35)
    n, d = int(rng.integers(8, 15 if wass else 22)), int(rng.integers(2, 5))
    if wass:
        fn = str(rng.choice([m for m in METRICS if m != "haversine"]))
        ps = metric_params_for(rng, fn) if rng.random() < 0.5 else None
    else:
        fn = str(rng.choice([k for k in KERNELS if k != "linear"] if name == "Kauri" else KERNELS))
        ps = kernel_params_for(rng, fn) if (rng.random() < 0.7 and name != "Kauri") else None
    X = impl.blobs(rng, n, d, k=3) * 0.7
    if fn in ("chi2", "additive_chi2"):
        X = np.abs(X) + 0.05
    X = np.ascontiguousarray(X)
    f = pairwise_distances if wass else pairwise_kernels
    K = f(X, metric=fn, **(ps or {}))
    fa, pa = ("metric", "metric_params") if wass else ("kernel", "kernel_params")
    seed = int(rng.integers(0, 1000))
    ovo = bool(rng.integers(0, 2))
    replay = {"estimator": name, "fn": fn, "params": repr(ps), "ovo": ovo, "seed": seed, "X": X.tolist()}

    def user_fn(A, B=None):
        return f(A, metric=fn, **(ps or {})) if B is None else f(A, B, metric=fn, **(ps or {}))

    if name == "Kauri":
        kw = dict(max_clusters=int(rng.integers(2, 5)), min_samples_leaf=1, min_samples_split=2, random_state=seed)
        spell = {"named": (dict(kernel=fn), None), "precomputed": (dict(kernel="precomputed"), K)}
    elif name == "KernelRIM":
        kw = dict(n_clusters=int(rng.integers(2, 4)), max_iter=2, learning_rate=0.01, random_state=seed, batch_size=None)
        spell = {"named": (dict(base_kernel=fn, base_kernel_params=ps), None), "callable": (dict(base_kernel=user_fn), None)}
    else:
        kw = dict(n_clusters=int(rng.integers(2, 4)), max_iter=2, learning_rate=0.01, random_state=seed, batch_size=None, n_hidden_dim=4, alpha=0.3, dynamic=False)
        if name in GEN_EST:
            gcls = G.WassersteinGEMINI if wass else G.MMDGEMINI
            mk = lambda **a: dict(gemini=gcls(ovo=ovo, **a))                                   # noqa: E731
        else:
            mk = lambda **a: dict(ovo=ovo, **a)                                                # noqa: E731
        spell = {"named": (mk(**{fa: fn, pa: ps}), None), "precomputed": (mk(**{fa: "precomputed"}), K), "callable": (mk(**{fa: user_fn}), None)}
    replay["common"] = kw
    results = {}
    with Recording() as rec:
        for sp, (cfg, y) in spell.items():
            def new():
                e = impl.make(name, **cfg, **kw)
                if hasattr(e, "_batchify"):
                    orig = e._batchify

                    def batchify(*args, _o=orig, **kwargs):
                        for xb, ab in _o(*args, **kwargs):
                            if name != "KernelRIM":          # which samples, in which order, the next training evaluation sees
                                try:
                                    rec.log.append(("rows", [int(np.flatnonzero((X == r).all(1))[0]) for r in np.asarray(xb)]))
                                except Exception as ex:  # noqa: recording only
                                    rec.errors.append(f"_batchify rows: {ex!r}")
                            yield xb, ab
                    e._batchify = batchify
                return e
            entries = {}
            with warnings.catch_warnings(record=True) as wlog:
                warnings.simplefilter("always")
                est = new().fit(X, y)
                entries["fit"] = (est.labels_, rec.take())
                entries["fit_predict"] = (new().fit_predict(X, y), rec.take())
                entries["score"] = (est.score(X, y), rec.take())
                if name == "KernelRIM":
                    Xn = impl.blobs(rng, 5, d, k=2) * 0.7 if fn not in ("chi2", "additive_chi2") else np.abs(impl.blobs(rng, 5, d, k=2)) + 0.05
                    results.setdefault("_Xn", Xn)
                    Xn = results["_Xn"]
                    entries["predict"] = (est.predict(Xn), [est.training_kernel_])
                    entries["predict_proba"] = (est.predict_proba(Xn), [])
                if hasattr(est, "path"):
                    r = new().path(X, y, alpha_multiplier=3.0, min_features=max(1, d - 1), max_patience=1)
                    entries["path"] = ([np.asarray(v, dtype=float) for v in r[1:]], rec.take())
            fallback = [str(w.message) for w in wlog if "linear" in str(w.message).lower() and "precomputed" in str(w.message).lower()]
            if fallback and y is not None:
                chk.fail(f"entrypoints:fallback-warning:{name}", f"{name}({sp}): a matrix was supplied, yet the 'fallback to the linear kernel' warning was emitted: {fallback[0][:80]}",
                         dict(replay, spelling=sp), layer="L3")
            results[sp] = entries
            # the affinity the objective actually received through each entry point vs scikit-learn called directly
            for ep, (_, mats) in entries.items():
                if name == "KernelRIM" and ep != "predict":
                    continue
                if not [m for m in mats if not isinstance(m, tuple)] and ep in ("fit", "fit_predict", "score", "path"):
                    chk.fail(f"entrypoints:{name}.{ep}:no-affinity", f"{name}({sp}).{ep}: the objective was never evaluated with an affinity", dict(replay, spelling=sp), layer="L3")
                rows = None
                for M in mats:
                    if isinstance(M, tuple) and M[0] == "rows":
                        rows = M[1]
                        continue
                    want = K if rows is None else K[np.ix_(rows, rows)]
                    rows = None
                    if M is None or np.shape(M) != want.shape or not close(M, want)[1]:
                        chk.fail(f"entrypoints:{name}.{ep}:affinity", f"{name}({sp}).{ep}(X{', y=K' if y is not None else ''}): the affinity that reached the objective is not "
                                 f"{'pairwise_distances' if wass else 'pairwise_kernels'}(X, metric={fn!r}, **{ps})", dict(replay, spelling=sp, entry=ep), layer="L3")
                        break
            if not np.array_equal(entries["fit"][0], entries["fit_predict"][0]):
                chk.fail(f"entrypoints:{name}.fit_predict:labels", f"{name}({sp}).fit_predict(X{', y=K' if y is not None else ''}) differs from fit(..).labels_",
                         dict(replay, spelling=sp), layer="L3")
        if rec.errors:
            chk.fail("harness-error:entrypoints:recording", f"the recording wrappers failed: {rec.errors[:3]}", replay)
    # the spellings describe one and the same affinity: same clustering, score, path, predictions through every entry point
    base = results["named"]
    for sp in spell:
        if sp == "named":
            continue
        for ep, (val, _) in results[sp].items():
            a, b = base[ep][0], val
            same = all(close(u, v, 1e-7)[1] for u, v in zip(a, b)) and len(a) == len(b) if ep == "path" else close(a, b, 1e-7 if ep == "score" else 1e-9)[1]
            if not same:
                chk.fail(f"entrypoints:{name}.{ep}:{sp}", f"{name}.{ep}: the {sp} spelling of {fn!r} gives a different result than naming it", dict(replay, spelling=sp, entry=ep), layer="L3")
    # L2: the model's training affinity for each spelling denotes the same matrix
    objs = Objs()
    for sp, (cfg, y) in spell.items():
        if name == "KernelRIM" or (name in GEN_EST):
            continue
        out = read_outcome(chk.ask(f"c11.affinity {xs(name)} {objs.kwargs(cfg)} {int(y is not None)}"))
        e = expected_from_outcome(objs, out, X, y)
        Mm = e[1](X) if e[0] == "callable" else e[1]
        if e[0] not in ("equal", "is", "callable") or not close(Mm, K)[1]:
            chk.fail("entrypoints:model-mismatch", f"{name}({sp}): the model's affinity {out} does not denote the matrix the estimator trains with", dict(replay, spelling=sp))
    chk.traces += sum(len(v) for k, v in results.items() if k != "_Xn")
    chk.dist[f"entrypoints:{name}"] += 1
    distinct = name != "Kauri" or not np.array_equal(results["named"]["fit"][0], impl.Kauri(kernel="linear", **kw).fit(X).labels_)
    chk.count(("entry", name, fn, repr(ps), ovo, n) if distinct else None)
    if i < 1:
        chk.sample({"stream": "entrypoints", **{k: v for k, v in replay.items() if k != "X"}, "entry_points": sorted(results["named"])})


# ------------------------------------------------------------------ round-3 streams: representations, corners, decorated routes
# Misbehaviour of the UNCHANGED tree at the new corners, reported to the coordinator (who decides fix / known finding / out of
# scope).  Until then these exact call classes are recorded as observations in the evidence notes, not as failures.
OBSERVED = [
    # out of scope by the coordinator's decision (y is documented as an ndarray): kept as a note
    (r"repr:Sparse(Linear|MLP)(MMD|Model)\.path:y-(list|tuple)$",
     "Sparse*(kernel='precomputed').path(X, K.tolist()) raises TypeError('list indices must be integers or slices, not tuple') in compute_val_score although fit(X, K.tolist()) works"),
]


def observe_or_fail(chk, key, what, replay, layer="L3"):
    import re
    for pat, desc in OBSERVED:
        if re.match(pat, key):
            note = f"observation (unchanged tree, reported): {desc}"
            if note not in chk.notes:
                chk.notes.append(note)
            chk.dist["observed:" + pat[:40]] += 1
            return
    chk.fail(key, what, replay, layer=layer)


def representations(arr):
    """(label, object, float32?) : the same values in other representations."""
    arr = np.ascontiguousarray(np.asarray(arr, dtype=np.float64))
    out = []
    if np.array_equal(arr, np.round(arr)) and np.all(np.abs(arr) < 2 ** 30):
        out += [("int64", arr.astype(np.int64)), ("int32", arr.astype(np.int32))]
        if np.all((arr == 0) | (arr == 1)):
            out.append(("bool", arr.astype(bool)))
    if np.array_equal(arr.astype(np.float32).astype(np.float64), arr):
        out.append(("float32", arr.astype(np.float32)))
    out.append(("fortran", np.asfortranarray(arr.copy())))
    big = np.full((2 * arr.shape[0], arr.shape[1] + 1), 7.25)
    big[::2, :-1] = arr
    out.append(("strided-view", big[::2, :-1]))
    out.append(("negative-stride-view", np.ascontiguousarray(arr[::-1, ::-1])[::-1, ::-1]))
    ro = arr.copy()
    ro.setflags(write=False)
    out.append(("read-only", ro))
    out.append(("list", arr.tolist()))
    out.append(("tuple", tuple(tuple(r) for r in arr.tolist())))
    return out


def snapshot(v):
    return v.copy() if isinstance(v, np.ndarray) else json.dumps(v, default=str)


def unchanged(before, v):
    if isinstance(v, np.ndarray):
        return v.dtype == before.dtype and v.shape == before.shape and v.tobytes() == before.tobytes()
    return json.dumps(v, default=str) == before


def observe(fn):
    """Run an entry point: ('ok', flat list of arrays) or (exception class name, message)."""
    with warnings.catch_warnings():
        warnings.simplefilter("ignore")
        try:
            r = fn()
        except Exception as e:  # noqa: every exception kind is an observation to compare with the reference
            return (type(e).__name__, str(e)[:120])
    r = r if isinstance(r, (list, tuple)) else [r]
    return ("ok", [np.asarray(v, dtype=float) for v in r])


def agree(ref, got, tol):
    if ref[0] != "ok" or got[0] != "ok":
        return ref[0] == got[0]
    return len(ref[1]) == len(got[1]) and all(close(a, b, tol)[1] for a, b in zip(ref[1], got[1]))


def entry_calls(name, cfg, kw, d):
    """Public entry points of one configured estimator, as functions of (X, y)."""
    def new():
        return impl.make(name, **cfg, **kw)

    def fit(X, y):
        e = new().fit(X, y)
        w = e._get_weights() if hasattr(e, "_get_weights") else [np.asarray(vars(e.tree_)[k], dtype=object) == None for k in ("thresholds",)]  # noqa: E711
        extra = [] if hasattr(e, "_get_weights") else [np.array([t if t is not None else np.nan for t in e.tree_.thresholds], dtype=float),
                                                       np.array([t if t is not None else -1 for t in e.tree_.features], dtype=float)]
        return list(w) + extra + [e.labels_]
    calls = {"fit": fit, "fit_predict": lambda X, y: new().fit_predict(X, y)}

    def fitted_calls(Xref, yref):
        e = new().fit(Xref, yref)
        c = {"score": lambda X, y: e.score(X, y), "predict": lambda X, y: e.predict(X)}
        if hasattr(e, "predict_proba"):
            c["predict_proba"] = lambda X, y: e.predict_proba(X)
        return c
    if name in impl.SPARSE:
        def path(X, y):
            r = new().path(X, y, alpha_multiplier=3.0, min_features=max(1, d - 1), max_patience=1)
            return list(r[0]) + [np.asarray(v, dtype=float) for v in r[1:]]
        calls["path"] = path
    return calls, fitted_calls


def grid_data(rng, n, d, integral):
    X = rng.integers(-4, 5, size=(n, d)).astype(float)
    if not integral:
        X = X + rng.integers(-3, 4, size=(n, d)) / 8.0
    return X


def stream_repr(chk, i, rng):
    """Same values, other representation (dtype, memory order, view, read-only, list): same answer, no new exception,
    caller's arrays untouched - through compute_affinity, gemini(P, A), fit, fit_predict, score, predict*, path."""
    pool = ["gemini:MMD", "gemini:Wasserstein", "LinearMMD", "MLPWasserstein", "Kauri", "SparseLinearMMD", "KernelRIM", "CategoricalMMD",
            "Kauri", "SparseMLPMMD", "LinearWasserstein", "Douglas"]
    name = pool[i % len(pool)]
    integral = rng.random() < 0.5
    n, d = int(rng.integers(6, 12)), int(rng.integers(2, 4))
    X = grid_data(rng, n, d, integral)
    wass = "Wasserstein" in name or name == "Douglas"
    fn = str(rng.choice(["cityblock", "euclidean", "chebyshev"] if wass else ["linear", "polynomial", "rbf"]))
    if fn == "chebyshev":
        fn = "l1"
    ps = {"gamma": 0.5} if fn in ("rbf", "polynomial") and name != "Kauri" else None
    f = pairwise_distances if wass else pairwise_kernels
    K = np.round(f(X, metric=fn, **(ps or {})) * 8) / 8 if integral or rng.random() < 0.5 else f(X, metric=fn, **(ps or {}))
    K = (K + K.T) / 2
    spelling = "precomputed" if rng.random() < 0.5 and name != "KernelRIM" else "named"
    fa, pa = ("metric", "metric_params") if wass else ("kernel", "kernel_params")
    y = K if spelling == "precomputed" else None
    seed = int(rng.integers(0, 100))
    replay = {"target": name, "spelling": spelling, "fn": fn, "params": repr(ps), "integral": integral, "seed": seed, "X": X.tolist(),
              "K": K.tolist() if y is not None else None}
    calls = {}
    if name.startswith("gemini:"):
        gcls = G.WassersteinGEMINI if wass else G.MMDGEMINI
        g = gcls(ovo=bool(rng.integers(0, 2)), **({fa: "precomputed"} if spelling == "precomputed" else {fa: fn, pa: ps}))
        P = impl.softmax_rows(rng.normal(size=(n, 3)))
        if rng.random() < 0.3:
            P = np.eye(3)[rng.integers(0, 3, size=n)]            # one-hot predictions (integral)
        calls["compute_affinity"] = lambda Xv, yv: g.compute_affinity(Xv, yv)
        fitted = {"gemini(P, A)": lambda Xv, yv: list(g(P, K if yv is None else yv, return_grad=True)),
                  "gemini(P as given, A)": lambda Xv, yv: g(Xv, K)}
    else:
        if name == "Kauri":
            kw = dict(max_clusters=3, random_state=seed)
            cfg = dict(kernel="precomputed" if y is not None else fn)
        elif name == "KernelRIM":
            kw = dict(n_clusters=2, max_iter=2, learning_rate=0.01, random_state=seed)
            cfg = dict(base_kernel=fn, base_kernel_params=ps)
        else:
            kw = dict(n_clusters=2, max_iter=2, learning_rate=0.01, random_state=seed, n_hidden_dim=3, alpha=0.3,
                      batch_size=None if rng.random() < 0.5 else int(rng.integers(3, n + 2)))
            spec = {fa: "precomputed"} if y is not None else {fa: fn, pa: ps}
            cfg = dict(gemini=(G.WassersteinGEMINI if wass else G.MMDGEMINI)(**spec)) if name in GEN_EST else spec
        calls, fitted_calls = entry_calls(name, cfg, kw, d)
        fitted = fitted_calls(X, y)
    replay["entry_points"] = sorted(calls) + sorted(fitted)
    vary = [("X", v, X) for v in representations(X)] + ([("y", v, K) for v in representations(K)] if y is not None else [])
    nvar = 0
    for ep, call in list(calls.items()) + list(fitted.items()):
        if ep == "gemini(P as given, A)":
            ref = observe(lambda: call(P, None))
            todo = [("P", v, P) for v in representations(P) if v[0] not in ("list", "tuple")]
        else:
            ref = observe(lambda: call(X, y))
            todo = vary if ep != "gemini(P, A)" else [t for t in vary if t[0] == "y" and t[1][0] not in ("list", "tuple")]
        if ref[0] != "ok":
            observe_or_fail(chk, f"repr:{name}.{ep}:reference", f"{name}.{ep} raised {ref} on the float64 C-contiguous reference input", replay)
            continue
        for which, (label, obj), orig in todo:
            before = snapshot(obj)
            if ep == "gemini(P as given, A)":
                got = observe(lambda: call(obj, None))
            else:
                got = observe(lambda: call(obj if which == "X" else X, obj if which == "y" else y))
            # float32 inputs: the values are exactly representable, but a float32 matrix is also *processed* in single precision
            # (affinity / N**2, pairwise kernels on float32 data): float32 resolution there, full precision everywhere else
            tol = 2e-5 if label == "float32" and (which in ("y", "P") or spelling == "named") else 1e-12
            if label == "float32" and ep == "path":
                tol = 2e-3      # path() keeps float32 data (fit converts to float64): single-precision affinities, and a vanishing MMD is a square root
            nvar += 1
            if not agree(ref, got, tol):
                observe_or_fail(chk, f"repr:{name}.{ep}:{which}-{label}", f"{name}.{ep}: {which} given as {label} gives {str(got)[:160]} instead of the float64 C-contiguous result {str(ref)[:120]}",
                                dict(replay, entry=ep, varied=which, representation=label))
            if not unchanged(before, obj):
                observe_or_fail(chk, f"repr:{name}.{ep}:argument-modified", f"{name}.{ep} modified its argument {which} ({label})", dict(replay, entry=ep, varied=which, representation=label))
    chk.dist[f"repr:{name.split(':')[0]}:{spelling}"] += 1
    chk.dist["repr:variants"] += nvar
    chk.traces += 1
    chk.count(("repr", name, spelling, fn, integral, n, d))
    if i < 1:
        chk.sample({"stream": "repr", **{k: v for k, v in replay.items() if k not in ("X", "K")}, "variants_compared": nvar})


def stream_corners(chk, i, rng):
    """Degenerate sizes, inclusive interval ends and adversarial floats: named and the equal precomputed matrix still agree
    through fit / fit_predict / score / path, and raise alike if they raise."""
    corner_kinds = ["K=1", "n=K", "d=1", "n=1", "batch=n", "batch>n", "duplicates", "negative-zero", "denormal", "huge", "adjacent", "ties",
                    "min_features=d", "keep_threshold=1"]
    corner = corner_kinds[i % len(corner_kinds)]
    pool = MMD_EST + WAS_EST + ["Kauri", "LinearModel", "Kauri"]
    name = pool[(i // len(corner_kinds) + i) % len(pool)]
    if corner in ("min_features=d", "keep_threshold=1"):
        name = ["SparseLinearMMD", "SparseMLPMMD"][i % 2]
    wass = name in WAS_EST
    n, d, k = int(rng.integers(6, 12)), int(rng.integers(2, 4)), int(rng.integers(2, 4))
    bs = None
    if corner == "K=1":
        k = 1
    if corner == "n=K":
        n = k
    if corner == "d=1":
        d = 1
    if corner == "n=1":
        n, k = 1, 1
    X = impl.blobs(rng, n, d, k=3)
    if corner == "batch=n":
        bs = n
    if corner == "batch>n":
        bs = n + int(rng.integers(1, 5))
    if corner == "duplicates":
        X[:] = X[0]
    if corner == "negative-zero":
        X = np.where(rng.random(X.shape) < 0.5, -0.0, np.round(X))
    if corner == "denormal":
        X = X * 5e-324 * 1e3
    if corner == "huge":
        X = X * (1e100 if wass else 1e300)
    if corner == "adjacent":
        X = np.where(rng.random(X.shape) < 0.5, 0.3, 0.1 + 0.2) + np.where(rng.random(X.shape) < 0.3, np.spacing(0.3), 0.0)
    if corner == "ties":
        X = np.round(X)
        X[n // 2:] = X[: n - n // 2]
    X = np.ascontiguousarray(X)
    fn = "euclidean" if wass else str(rng.choice(["linear", "rbf", "polynomial"]))
    if wass and rng.random() < 0.5:
        fn = "cityblock"
    ps = {"gamma": 0.5} if fn == "rbf" and name != "Kauri" else None
    with np.errstate(all="ignore"):
        K = (pairwise_distances if wass else pairwise_kernels)(X, metric=fn, **(ps or {})) if np.all(np.isfinite(X)) else None
    if K is None or not np.all(np.isfinite(K)):
        chk.dist["corners:non-finite-affinity-skipped"] += 1     # sklearn itself rejects / overflows: not this property's business
        chk.count(None)
        return
    fa, pa = ("metric", "metric_params") if wass else ("kernel", "kernel_params")
    seed = int(rng.integers(0, 100))
    if name == "Kauri":
        if n < 2:
            n = 2
            X, K = np.vstack([X, X + 1.0]), None
            K = pairwise_kernels(X, metric=fn)
        kw = dict(max_clusters=k, random_state=seed)
        named, pre = dict(kernel=fn), dict(kernel="precomputed")
    else:
        kw = dict(n_clusters=k, max_iter=2, learning_rate=0.01, random_state=seed, n_hidden_dim=3, alpha=0.3, batch_size=bs)
        if name in GEN_EST:
            named, pre = dict(gemini=G.MMDGEMINI(kernel=fn, kernel_params=ps)), dict(gemini=G.MMDGEMINI(kernel="precomputed"))
        else:
            named, pre = {fa: fn, pa: ps}, {fa: "precomputed"}
    replay = {"corner": corner, "estimator": name, "fn": fn, "params": repr(ps), "common": kw, "X": [[repr(v) for v in r] for r in X.tolist()]}
    ca, fa_ = entry_calls(name, named, kw, d)
    cb, fb_ = entry_calls(name, pre, kw, d)
    if corner == "min_features=d":
        ca["path"] = lambda Xv, yv: (lambda r: list(r[0]) + [np.asarray(v, dtype=float) for v in r[1:]])(impl.make(name, **named, **kw).path(Xv, yv, min_features=d, max_patience=1))
        cb["path"] = lambda Xv, yv: (lambda r: list(r[0]) + [np.asarray(v, dtype=float) for v in r[1:]])(impl.make(name, **pre, **kw).path(Xv, yv, min_features=d, max_patience=1))
    if corner == "keep_threshold=1":
        ca["path"] = lambda Xv, yv: (lambda r: list(r[0]) + [np.asarray(v, dtype=float) for v in r[1:]])(impl.make(name, **named, **kw).path(Xv, yv, alpha_multiplier=3.0, keep_threshold=1.0, min_features=max(1, d - 1), max_patience=1))
        cb["path"] = lambda Xv, yv: (lambda r: list(r[0]) + [np.asarray(v, dtype=float) for v in r[1:]])(impl.make(name, **pre, **kw).path(Xv, yv, alpha_multiplier=3.0, keep_threshold=1.0, min_features=max(1, d - 1), max_patience=1))
    Xb, Kb = X.copy(), K.copy()
    # Ill-conditioned corner: a (numerically) constant affinity or a vanishing objective makes every MMD / Wasserstein distance
    # zero in exact arithmetic; gradients and scores are then decided by rounding residues under a square root, which differ
    # between the named route (kernel recomputed per block) and the precomputed one.  There only the outcome class, shapes and
    # finiteness are compared - and, exactly, the affinity the objective RECEIVED against scikit-learn's (the forwarding itself).
    sa = observe(lambda: fa_(X, None)["score"](X, None))
    sb = observe(lambda: fb_(X, K)["score"](X, K))
    ill = corner == "duplicates" or float(K.max() - K.min()) <= 1e-12 * float(np.max(np.abs(K))) \
        or (sa[0] == "ok" and abs(float(sa[1][0])) < 1e-6)

    def same_class(ra, rb):
        if ra[0] != "ok" or rb[0] != "ok":
            return ra[0] == rb[0]
        return len(ra[1]) == len(rb[1]) and all(u.shape == v.shape and bool(np.all(np.isfinite(u)) == np.all(np.isfinite(v))) for u, v in zip(ra[1], rb[1]))
    with Recording() as rec:
        for ep in ca:
            ra, ma = observe(lambda: ca[ep](X, None)), rec.take()
            rb, mb = observe(lambda: cb[ep](X, K)), rec.take()
            ok = same_class(ra, rb) if ill else agree(ra, rb, 1e-7 if ep == "path" else 1e-9)
            if not ok:
                observe_or_fail(chk, f"corners:{corner}:{name}.{ep}", f"{name}.{ep} at corner {corner}: named {str(ra)[:140]} vs precomputed {str(rb)[:140]}", dict(replay, entry=ep))
            # full-size blocks that reached the objective hold exactly the entries of the scikit-learn matrix (batches permute rows and columns together)
            for route, mats in (("named", ma), ("precomputed", mb)):
                for M in mats:
                    if M is not None and np.shape(M) == K.shape and not close(np.sort(np.asarray(M, dtype=float), axis=None), np.sort(K, axis=None))[1]:
                        observe_or_fail(chk, f"corners:{corner}:{name}.{ep}:affinity", f"{name}({route}).{ep} at corner {corner}: the affinity that reached the objective is not the scikit-learn matrix", dict(replay, entry=ep, route=route))
                        break
            chk.dist[f"corners:{corner}:{ra[0] if ra[0] == 'ok' else 'raises'}"] += 1
        if rec.errors:
            chk.fail("harness-error:corners:recording", f"the recording wrappers failed: {rec.errors[:3]}", replay)
    if not (same_class(sa, sb) if ill else agree(sa, sb, 1e-7)):
        observe_or_fail(chk, f"corners:{corner}:{name}.score", f"{name}.score at corner {corner}: named {sa} vs precomputed {sb}", dict(replay, entry="score"))
    if ill:
        chk.dist["corners:ill-conditioned(outcome+received affinity only)"] += 1
    if X.tobytes() != Xb.tobytes() or K.tobytes() != Kb.tobytes():
        observe_or_fail(chk, f"corners:{name}:argument-modified", f"{name} modified X or the precomputed matrix", replay)
    chk.traces += 1
    chk.count(("corner", corner, name, fn))
    if i < 1:
        chk.sample({"stream": "corners", **{k_: v for k_, v in replay.items() if k_ != "X"}})


def stream_decorated(chk, i, rng):
    """Must-link / cannot-link decorated models (their own _batchify route) through fit, fit_predict, score and path, with
    batch_size None / = n / > n / < n: named and precomputed affinities still agree; every argument is left untouched
    (X, matrices with negative entries or asymmetric, read-only, parameter dictionaries, groups, constraint lists)."""
    pool = ["LinearMMD", "MLPMMD", "SparseLinearMMD", "SparseMLPMMD", "LinearWasserstein", "MLPWasserstein", "LinearModel", "SparseMLPModel"]
    name = pool[i % len(pool)]
    wass = "Wasserstein" in name
    n, d = int(rng.integers(8, 14)), int(rng.integers(2, 4))
    bs = [None, n, n + 3, int(rng.integers(2, n))][(i // len(pool)) % 4]
    X = np.ascontiguousarray(impl.blobs(rng, n, d, k=3) * 0.7)
    fn = str(rng.choice(["cityblock", "euclidean"] if wass else ["rbf", "polynomial", "sigmoid", "linear"]))
    ps = {"gamma": 0.4} if fn in ("rbf", "polynomial", "sigmoid") else None
    K = (pairwise_distances if wass else pairwise_kernels)(X, metric=fn, **(ps or {}))
    fa, pa = ("metric", "metric_params") if wass else ("kernel", "kernel_params")
    pairs = rng.permutation(n)[:4].tolist()
    ml, cl = [[pairs[0], pairs[1]]], [[pairs[2], pairs[3]]]
    groups = [[0], list(range(1, d))] if (name in impl.SPARSE and d > 1 and rng.random() < 0.5) else None
    seed = int(rng.integers(0, 100))
    kw = dict(n_clusters=int(rng.integers(2, 4)), max_iter=2, learning_rate=0.01, random_state=seed, n_hidden_dim=3, alpha=0.3, batch_size=bs, groups=groups)
    if name in GEN_EST:
        named, pre = dict(gemini=G.MMDGEMINI(kernel=fn, kernel_params=ps)), dict(gemini=G.MMDGEMINI(kernel="precomputed"))
    else:
        named, pre = {fa: fn, pa: ps}, {fa: "precomputed", pa: ps}
    replay = {"estimator": name, "batch_size": bs, "n": n, "fn": fn, "params": repr(ps), "must_link": ml, "cannot_link": cl, "groups": groups,
              "common": {k_: v for k_, v in kw.items()}, "X": X.tolist()}

    def new(cfg):
        e = impl.make(name, **cfg, **kw)
        impl.add_mlcl_constraint(e, ml, cl)
        return e
    Kro = K.copy()
    Kro.setflags(write=False)
    args = {"X": X, "K": Kro, "params": ps, "groups": groups, "must_link": ml, "cannot_link": cl}
    before = {k_: snapshot(v) for k_, v in args.items() if v is not None}
    eps = {"fit": lambda e, y: list(e.fit(X, y)._get_weights()) + [e.labels_], "fit_predict": lambda e, y: e.fit_predict(X, y),
           "score": lambda e, y: e.fit(X, y).score(X, y)}
    if name in impl.SPARSE:
        eps["path"] = lambda e, y: (lambda r: list(r[0]) + [np.asarray(v, dtype=float) for v in r[1:]])(
            e.path(X, y, alpha_multiplier=3.0, min_features=max(1, d - 1), max_patience=1))
    for ep, call in eps.items():
        ra, rb = observe(lambda: call(new(named), None)), observe(lambda: call(new(pre), Kro))
        if ra[0] != "ok":
            observe_or_fail(chk, f"decorated:{name}.{ep}:raises", f"constrained {name}.{ep} with batch_size={bs} (n={n}) raised {ra}", dict(replay, entry=ep))
        elif not agree(ra, rb, 1e-7 if ep == "path" else 1e-9):
            observe_or_fail(chk, f"decorated:{name}.{ep}", f"constrained {name}.{ep}, batch_size={bs} (n={n}): named {str(ra)[:120]} vs precomputed {str(rb)[:120]}", dict(replay, entry=ep))
        for k_, b in before.items():
            if not unchanged(b, args[k_]):
                observe_or_fail(chk, f"decorated:{name}.{ep}:argument-modified:{k_}", f"constrained {name}.{ep} modified its argument {k_}", dict(replay, entry=ep))
    # a precomputed matrix that is asymmetric with negative entries is the user's matrix all the same: untouched, and used as given
    A = np.round(rng.normal(size=(n, n)), 2)
    Ab = A.copy()
    r1 = observe(lambda: new(pre).fit(X, A).score(X, A))
    if not unchanged(Ab, A):
        observe_or_fail(chk, f"decorated:{name}:argument-modified:asymmetric", f"{name} modified the asymmetric precomputed matrix it was given", replay)
    chk.dist[f"decorated:batch={'None' if bs is None else '=n' if bs == n else '>n' if bs > n else '<n'}"] += 1
    chk.dist["decorated:asymmetric:" + r1[0]] += 1
    chk.traces += len(eps)
    chk.count(("decorated", name, bs is None or bs - n, fn, groups is not None))
    if i < 1:
        chk.sample({"stream": "decorated", **{k_: v for k_, v in replay.items() if k_ != "X"}})


def stream_kauri_missing(chk, i, rng):
    """Whole-fit replay of the refuted statement's witness (F17): Kauri(kernel='precomputed').fit(X) without a matrix."""
    n, d = int(rng.integers(6, 20)), int(rng.integers(2, 4))
    X = impl.blobs(rng, n, d, k=3)
    replay = {"estimator": "Kauri", "kernel": "precomputed", "y": None, "X": X.tolist()}
    with warnings.catch_warnings(record=True) as w:
        warnings.simplefilter("always")
        try:
            a = impl.Kauri(max_clusters=3, kernel="precomputed", random_state=0).fit(X)
        except ValueError:
            if not any("F17" in s for s in chk.notes):
                chk.notes.append("F17 no longer reproduces: Kauri raises on a missing precomputed matrix (the as-is model is stale)")
            chk.count(("kauri-missing-fixed",))
            return
    ref = impl.Kauri(max_clusters=3, kernel="linear", random_state=0).fit(X)
    out = read_outcome(chk.ask(f"c11.affinity {xs('Kauri')} 1 {xs('kernel')} s{'precomputed'.encode().hex()} 0"))
    if out != ("PW", "K", "s" + b"linear".hex(), None) or not np.array_equal(a.labels_, ref.labels_) or not w:
        chk.fail("kauri:as-is-model", f"Kauri without a matrix: model {out}, warnings {len(w)}, labels equal to the linear-kernel fit: {np.array_equal(a.labels_, ref.labels_)}", replay)
    chk.fail("kauri:precomputed-missing-matrix", "Kauri(kernel='precomputed').fit(X) without a matrix warns and trains on the linear kernel instead of raising",
             dict(replay, warning=str(w[0].message) if w else None), layer="L3")
    chk.traces += 1
    chk.count(("kauri-missing", n, d))
    chk.dist["kauri:missing-matrix"] += 1


STREAMS = {"ctor": (stream_ctor, 900, 9000), "get_gemini": (stream_get_gemini, 1800, 20000), "registry": (stream_registry, 100, 600),
           "affinity": (stream_affinity, 2400, 25000), "equal": (stream_equal, 500, 5000), "sequence": (stream_sequence, 420, 5000), "entrypoints": (stream_entrypoints, 170, 2000), "repr": (stream_repr, 48, 600),
           "corners": (stream_corners, 84, 840), "decorated": (stream_decorated, 40, 400), "kauri_missing": (stream_kauri_missing, 6, 40)}


def main():
    chk = Check("C11")
    chk.build()
    chk.proofs()
    if chk.replay_path:
        rp = json.load(open(chk.replay_path))
        st, case = rp["input"].get("stream"), rp["input"].get("case")
        chk.seed = rp.get("seed", chk.seed)
        if st in STREAMS:
            chk.run_stream(st, STREAMS[st][0], 0, only=case)
    else:
        for name, (fn, q, th) in STREAMS.items():
            cnt = q if chk.tier == "quick" else th
            if chk.l1_broken:
                cnt *= 3       # proof obligation broken: widen the failing-input search
            chk.run_stream(name, fn, cnt)
    chk.finish(rule="streams: constructors of every estimator and GEMINI class (keyword / positional / malformed calls, arbitrary objects as values, identity of stored objects); "
                    "get_gemini of every estimator over all scikit-learn kernel and metric names, 'precomputed', callables, parameter dictionaries, ovo, gemini None / 13 names / unknown names / instances, "
                    "through the constructor or set_params; the registry by behaviour; compute_affinity / Kauri._compute_kernel / KernelRIM._compute_kernel against scikit-learn called directly "
                    "(exact equality, object identity for callables and precomputed, errors for a missing matrix or malformed parameters); whole fits, sparse paths (dynamic=False) and Kauri trees "
                    "with a named affinity vs the equal precomputed matrix; sequences fit -> set_params(kernel / kernel_params / metric / metric_params / ovo / gemini / base_kernel / Kauri kernel) -> score(X[, y]) "
                    "(and set_params before the first fit as a control): the score must be the GEMINI and affinity the CURRENT hyper-parameters describe (model and documentation), "
                    "a missing precomputed matrix must raise; entry points: fit, fit_predict, score, path (sparse), predict / predict_proba after fit (KernelRIM) for every estimator exposing kernel / metric / "
                    "base_kernel / an MMD or Wasserstein gemini instance, in the named, precomputed and callable spellings of one affinity: the matrix recorded at the objective (MMD / Wasserstein evaluate, "
                    "Kauri's split search and objective) must be the scikit-learn matrix, fit_predict = fit(..).labels_, all spellings agree, no linear-fallback warning when a matrix is given. non-trivial = a configuration that departs from the defaults (non-default branch, parameters that change the matrix, "
                    "a tree with a split, a path with two steps); distinct = distinct configuration signature")


if __name__ == "__main__":
    main()
