#!/usr/bin/env python3
"""Fail-closed translator: gemclus/tree/_utils.pyx::compute_all_splits  ->  coq/Gen/KauriFormulas.v

The .pyx is desugared to plain Python (harness/pyx_desugar.py, fail-closed) and the body of
`compute_all_splits` is executed *symbolically*: straight-line float/int arithmetic is folded into closed
forms over the named stocks and sizes (`sl_square`, `gamma[k, k]` -> `gamma_k_k`, `cluster_sizes[k]` ...),
every `if` test is classified and emitted as a Gallina boolean:

  formulas (R)      double_star_gain left_star right_star left_switch right_switch corrective_term
  guards (Z -> bool) guard_double_star guard_star guard_switch guard_realloc      (enclosing `if` tests)
  update tests      upd_double_star upd_star upd_switch upd_realloc               (comparison with best_split.gain)
  choices           pick_star pick_switch pair_distinct pair_choice
  top-2 tracking    track_top_left track_second_left track_top_right track_second_right   (F8 is visible here)
  loop skip         skip_cluster

Anything this file does not know (an AST node, a free variable outside the fixed vocabulary, an `if` of
unknown shape, a missing formula) aborts with a non-zero exit status WITHOUT writing: the build prints
TRANSLATOR-FAIL and the check relies on the correspondence.  The file is rewritten only when its text changes.
"""
import ast
import os
import sys

ROOT = os.path.dirname(os.path.dirname(os.path.abspath(__file__)))
sys.path.insert(0, os.path.join(ROOT, "harness"))
REPO = os.environ.get("VERIF_REPO", "/repo")
OUT = os.path.join(ROOT, "coq", "Gen", "KauriFormulas.v")

# fixed vocabulary -------------------------------------------------------------------------------------
REAL_VARS = ["sl_square", "sr_square", "leaf_square", "sl_clusters_k", "sr_clusters_k",
             "sl_clusters_k_prime", "sr_clusters_k_prime", "gamma_k_k", "gamma_k_prime_k_prime",
             "omega_k_feature_id", "n_leaf", "split_size", "cluster_sizes_k", "cluster_sizes_k_prime"]
INT_VARS = ["n_clusters", "K_max", "n_leaf", "cluster_sizes_k"]
FORMULAS = ["double_star_gain", "left_star", "right_star", "left_switch", "right_switch", "corrective_term"]
TRACK_VARS = ["left_switch", "right_switch", "top_gain_left", "second_gain_left", "top_gain_right", "second_gain_right"]


class Fail(Exception):
    pass


def die(msg):
    sys.stderr.write("tr_kauriformulas: FAIL-CLOSED: " + msg + "\n")
    sys.exit(2)


def sub_name(node):
    idx = node.slice
    parts = idx.elts if isinstance(idx, ast.Tuple) else [idx]
    names = []
    for p in parts:
        if isinstance(p, ast.Name):
            names.append(p.id)
        else:
            raise Fail("subscript index " + ast.dump(p))
    if not isinstance(node.value, ast.Name):
        raise Fail("subscript base " + ast.dump(node.value))
    return node.value.id + "_" + "_".join(names)


UNKNOWN = ("unknown",)


def ev(e, env):
    """symbolic value of an arithmetic expression: ('c', n) | ('v', name) | ('neg', t) | (op, t, t)"""
    if isinstance(e, ast.Constant):
        if isinstance(e.value, bool) or not isinstance(e.value, (int, float)):
            raise Fail("constant " + repr(e.value))
        return ("c", e.value)
    if isinstance(e, ast.Name):
        v = env.get(e.id, ("v", e.id))
        if v is UNKNOWN:
            raise Fail("value of " + e.id + " is not a closed form here")
        return v
    if isinstance(e, ast.Subscript):
        return ("v", sub_name(e))
    if isinstance(e, ast.UnaryOp) and isinstance(e.op, (ast.USub, ast.UAdd)):
        x = ev(e.operand, env)
        return x if isinstance(e.op, ast.UAdd) else ("neg", x)
    if isinstance(e, ast.BinOp):
        ops = {ast.Add: "+", ast.Sub: "-", ast.Mult: "*", ast.Div: "/"}
        if type(e.op) not in ops:
            raise Fail("operator " + type(e.op).__name__)
        return (ops[type(e.op)], ev(e.left, env), ev(e.right, env))
    raise Fail("expression " + type(e).__name__)


def fv(t, acc):
    if t[0] == "v":
        acc.add(t[1])
    elif t[0] == "neg":
        fv(t[1], acc)
    elif t[0] in ("+", "-", "*", "/"):
        fv(t[1], acc)
        fv(t[2], acc)
    return acc


def coq_real(t):
    k = t[0]
    if k == "c":
        if float(t[1]).is_integer() and abs(t[1]) < 2 ** 31:
            n = int(t[1])
            return str(n) if n >= 0 else f"(- {-n})"
        raise Fail("non-integer literal " + repr(t[1]))
    if k == "v":
        return t[1]
    if k == "neg":
        return f"(- {coq_real(t[1])})"
    return f"({coq_real(t[1])} {k} {coq_real(t[2])})"


# ---- boolean tests -------------------------------------------------------------------------------------
def int_exp(e):
    if isinstance(e, ast.Constant) and isinstance(e.value, int) and not isinstance(e.value, bool):
        return str(e.value) if e.value >= 0 else f"(- {-e.value})"
    if isinstance(e, ast.Name):
        return e.id
    if isinstance(e, ast.Subscript):
        return sub_name(e)
    if isinstance(e, ast.BinOp) and isinstance(e.op, (ast.Add, ast.Sub)):
        return f"({int_exp(e.left)} {'+' if isinstance(e.op, ast.Add) else '-'} {int_exp(e.right)})"
    raise Fail("integer expression " + ast.dump(e))


def cmp_z(op, a, b):
    if isinstance(op, ast.Lt):
        return f"({a} <? {b})"
    if isinstance(op, ast.LtE):
        return f"({a} <=? {b})"
    if isinstance(op, ast.Gt):
        return f"({b} <? {a})"
    if isinstance(op, ast.GtE):
        return f"({b} <=? {a})"
    if isinstance(op, ast.Eq):
        return f"({a} =? {b})"
    if isinstance(op, ast.NotEq):
        return f"(negb ({a} =? {b}))"
    raise Fail("comparison " + type(op).__name__)


def cmp_r(op, a, b):
    if isinstance(op, ast.Lt):
        return f"(Rltb {a} {b})"
    if isinstance(op, ast.LtE):
        return f"(Rleb {a} {b})"
    if isinstance(op, ast.Gt):
        return f"(Rltb {b} {a})"
    if isinstance(op, ast.GtE):
        return f"(Rleb {b} {a})"
    raise Fail("real comparison " + type(op).__name__)


def btest(e, leaf):
    """boolean structure; `leaf(compare_node)` renders one comparison"""
    if isinstance(e, ast.BoolOp):
        f = "andb" if isinstance(e.op, ast.And) else "orb"
        parts = [btest(v, leaf) for v in e.values]
        out = parts[0]
        for p in parts[1:]:
            out = f"({f} {out} {p})"
        return out
    if isinstance(e, ast.UnaryOp) and isinstance(e.op, ast.Not):
        return f"(negb {btest(e.operand, leaf)})"
    if isinstance(e, ast.Compare) and len(e.ops) == 1:
        return leaf(e)
    raise Fail("test " + ast.dump(e))


def int_leaf(e):
    return cmp_z(e.ops[0], int_exp(e.left), int_exp(e.comparators[0]))


def names_in(e):
    out = set()
    for n in ast.walk(e):
        if isinstance(n, ast.Name):
            out.add(n.id)
        if isinstance(n, ast.Attribute):
            out.add(ast.unparse(n))
    return out


def real_operand(e, allowed):
    """operand of a real test: a name from `allowed`, best_split.gain, or a sum of those"""
    if isinstance(e, ast.Name) and e.id in allowed:
        return e.id
    if isinstance(e, ast.Attribute) and ast.unparse(e) == "best_split.gain":
        return "best_gain"
    if isinstance(e, ast.BinOp) and isinstance(e.op, ast.Add):
        return f"({real_operand(e.left, allowed)} + {real_operand(e.right, allowed)})"
    raise Fail("operand of a gain comparison: " + ast.unparse(e))


def real_leaf(allowed):
    return lambda e: cmp_r(e.ops[0], real_operand(e.left, allowed), real_operand(e.comparators[0], allowed))


def assigned_names(stmts):
    out = set()
    for s in stmts:
        for n in ast.walk(s):
            if isinstance(n, (ast.Assign, ast.AugAssign)):
                tg = n.targets if isinstance(n, ast.Assign) else [n.target]
                for t in tg:
                    for m in ast.walk(t):
                        if isinstance(m, ast.Name):
                            out.add(m.id)
    return out


class Exec:
    def __init__(self):
        self.formulas = {}
        self.tests = {}          # name -> (kind, params, body)
        self.guards = {}

    def put_test(self, name, text):
        if name in self.tests and self.tests[name] != text:
            raise Fail(f"two different tests classified as {name}")
        self.tests[name] = text

    def capture(self, name, env):
        v = env.get(name)
        if v is None or v is UNKNOWN:
            raise Fail(f"{name} has no closed form where it is compared")
        if name in self.formulas and self.formulas[name] != v:
            raise Fail(f"{name} is compared twice with different closed forms")
        self.formulas[name] = v

    def classify_if(self, s, env, stack):
        names = names_in(s.test)
        body_assigned = assigned_names(s.body)
        if "best_split.gain" in names:
            if "double_star_gain" in names:
                key, allowed = "double_star", ["double_star_gain"]
            elif "left_star" in names or "right_star" in names:
                key, allowed = "star", ["left_star", "right_star"]
            elif "left_switch" in names or "right_switch" in names:
                key, allowed = "switch", ["left_switch", "right_switch"]
            elif "refurbish" in names and "corrective_term" in names:
                key, allowed = "realloc", ["refurbish", "corrective_term"]
            else:
                raise Fail("update test of unknown shape: " + ast.unparse(s.test))
            for nm in allowed:
                if nm in names and nm != "refurbish":
                    self.capture(nm, env)
            self.put_test("upd_" + key, (allowed + ["best_gain"], btest(s.test, real_leaf(allowed))))
            if not stack:
                raise Fail("update test outside any guard")
            parts = [btest(t, int_leaf) for t in stack]
            g = parts[0]
            for p_ in parts[1:]:
                g = f"(andb {g} {p_})"
            if ("guard_" + key) in self.guards and self.guards["guard_" + key] != g:
                raise Fail("two guards for " + key)
            self.guards["guard_" + key] = g
            return
        if names <= {"left_star", "right_star"} and names:
            for nm in names:
                self.capture(nm, env)
            self.put_test("pick_star", (["left_star", "right_star"], btest(s.test, real_leaf(["left_star", "right_star"]))))
            return
        if names <= {"left_switch", "right_switch"} and names:
            for nm in names:
                self.capture(nm, env)
            self.put_test("pick_switch", (["left_switch", "right_switch"], btest(s.test, real_leaf(["left_switch", "right_switch"]))))
            return
        if names <= set(TRACK_VARS) and names & {"top_gain_left", "second_gain_left", "top_gain_right", "second_gain_right"}:
            if names & {"left_switch", "right_switch"}:
                for side in ("left", "right"):
                    if "top_gain_" + side in body_assigned:
                        self.put_test("track_top_" + side, (TRACK_VARS, btest(s.test, real_leaf(TRACK_VARS))))
                        return
                    if "second_gain_" + side in body_assigned:
                        self.put_test("track_second_" + side, (TRACK_VARS, btest(s.test, real_leaf(TRACK_VARS))))
                        return
                raise Fail("tracking test that updates nothing known: " + ast.unparse(s.test))
            self.put_test("pair_choice", (TRACK_VARS, btest(s.test, real_leaf(TRACK_VARS))))
            return
        if names <= {"top_k_left", "top_k_right"} and names:
            self.put_test("pair_distinct", (["top_k_left", "top_k_right"], btest(s.test, int_leaf), "Z"))
            return
        if names <= {"k", "k_prime"} and names and any(isinstance(b, ast.Continue) for b in s.body):
            self.put_test("skip_cluster", (["k", "k_prime"], btest(s.test, int_leaf), "Z"))
            return
        if names <= {"n_clusters", "K_max", "n_leaf", "cluster_sizes", "k"}:
            return          # a pure guard: rendered when an update test below it is met
        raise Fail("`if` of unknown shape: " + ast.unparse(s.test))

    def run(self, stmts, env, stack):
        for s in stmts:
            if isinstance(s, ast.Expr) and isinstance(s.value, ast.Constant) and isinstance(s.value.value, str):
                continue                                    # docstring
            if isinstance(s, ast.Pass) or isinstance(s, ast.Continue):
                continue
            if isinstance(s, ast.Assign):
                if len(s.targets) == 1 and isinstance(s.targets[0], ast.Name):
                    try:
                        env[s.targets[0].id] = ev(s.value, env)
                    except Fail:
                        env[s.targets[0].id] = UNKNOWN
                else:
                    for nm in assigned_names([s]):
                        env[nm] = UNKNOWN
                continue
            if isinstance(s, ast.AugAssign):
                if not isinstance(s.target, ast.Name):
                    raise Fail("augmented assignment to " + ast.unparse(s.target))
                op = {ast.Add: "+", ast.Sub: "-", ast.Mult: "*", ast.Div: "/"}.get(type(s.op))
                cur = env.get(s.target.id, ("v", s.target.id))
                try:
                    if op is None or cur is UNKNOWN:
                        raise Fail("aug")
                    env[s.target.id] = (op, cur, ev(s.value, env))
                except Fail:
                    env[s.target.id] = UNKNOWN
                continue
            if isinstance(s, ast.If):
                self.classify_if(s, env, stack)
                pure_guard = names_in(s.test) <= {"n_clusters", "K_max", "n_leaf", "cluster_sizes", "k"}
                self.run(s.body, dict(env), stack + [s.test] if pure_guard else stack)
                self.run(s.orelse, dict(env), stack)
                for nm in assigned_names(s.body) | assigned_names(s.orelse):
                    env[nm] = UNKNOWN
                continue
            if isinstance(s, ast.For):
                if s.orelse:
                    raise Fail("for/else")
                e2 = dict(env)
                for nm in assigned_names(s.body) | assigned_names([ast.Assign(targets=[s.target], value=ast.Constant(0))]):
                    e2[nm] = UNKNOWN
                self.run(s.body, e2, stack)
                for nm in assigned_names(s.body):
                    env[nm] = UNKNOWN
                continue
            if isinstance(s, ast.Expr) and isinstance(s.value, ast.Call):
                f = s.value.func
                if isinstance(f, ast.Attribute) and isinstance(f.value, ast.Name) and f.value.id == "best_split" \
                        and f.attr in ("set_gain", "set_targets", "set_decision", "set_leaf"):
                    continue
                raise Fail("call " + ast.unparse(s.value))
            if isinstance(s, ast.Return):
                continue
            raise Fail("statement " + type(s).__name__)


def main():
    try:
        import pyx_desugar
        src = pyx_desugar.desugared_source(os.path.join(REPO, "gemclus", "tree", "_utils.pyx"))
    except Exception as e:  # noqa
        die(f"desugarer: {type(e).__name__}: {e}")
    import warnings
    with warnings.catch_warnings():
        warnings.simplefilter("ignore")
        tree = ast.parse(src)
    fns = [n for n in tree.body if isinstance(n, ast.FunctionDef) and n.name == "compute_all_splits"]
    if len(fns) != 1:
        die("compute_all_splits not found exactly once")
    ex = Exec()
    try:
        ex.run(fns[0].body, {}, [])
        for f in FORMULAS:
            if f not in ex.formulas:
                raise Fail("formula not found: " + f)
        for t in ("upd_double_star", "upd_star", "upd_switch", "upd_realloc", "pick_star", "pick_switch",
                  "track_top_left", "track_second_left", "track_top_right", "track_second_right",
                  "pair_distinct", "pair_choice", "skip_cluster"):
            if t not in ex.tests:
                raise Fail("test not found: " + t)
        for g in ("guard_double_star", "guard_star", "guard_switch", "guard_realloc"):
            if g not in ex.guards:
                raise Fail("guard not found: " + g)
        out = []
        out.append("(* GENERATED by translator/tr_kauriformulas.py from gemclus/tree/_utils.pyx::compute_all_splits")
        out.append("   (desugared by harness/pyx_desugar.py, straight-line arithmetic executed symbolically) - do not edit.")
        out.append("   Names follow the source: gamma[k, k] -> gamma_k_k, cluster_sizes[k_prime] -> cluster_sizes_k_prime, ... *)")
        out.append("From Coq Require Import Reals ZArith Bool.")
        out.append("From GV Require Import Common.NumR.")
        out.append("")
        out.append("(* every named stock / size a formula of compute_all_splits may read *)")
        out.append("Record stocks : Type := Build_stocks {")
        out.append(";\n".join(f"  {v} : R" for v in REAL_VARS))
        out.append("}.")
        out.append("")
        out.append("Section Formulas.")
        out.append("Local Open Scope R_scope.")
        pat = "'(Build_stocks " + " ".join(REAL_VARS) + ")"
        for f in FORMULAS:
            t = ex.formulas[f]
            bad = fv(t, set()) - set(REAL_VARS)
            if bad:
                raise Fail(f"{f} reads {sorted(bad)} which is outside the vocabulary")
            out.append(f"Definition {f} (s : stocks) : R :=\n  let {pat} := s in\n  {coq_real(t)}.")
        for name in sorted(ex.tests):
            spec = ex.tests[name]
            if len(spec) == 2:
                params, body = spec
                out.append(f"Definition {name} ({' '.join(params)} : R) : bool :=\n  {body}.")
        out.append("End Formulas.")
        out.append("")
        out.append("Section Guards.")
        out.append("Local Open Scope Z_scope.")
        for g in sorted(ex.guards):
            out.append(f"Definition {g} ({' '.join(INT_VARS)} : Z) : bool :=\n  {ex.guards[g]}.")
        for name in sorted(ex.tests):
            spec = ex.tests[name]
            if len(spec) == 3:
                params, body, _ = spec
                out.append(f"Definition {name} ({' '.join(params)} : Z) : bool :=\n  {body}.")
        out.append("End Guards.")
        text = "\n".join(out) + "\n"
    except Fail as e:
        die(str(e))
    # guards may only mention the integer vocabulary
    import re
    for g, body in ex.guards.items():
        ids = set(re.findall(r"[A-Za-z_]\w*", body)) - {"negb", "andb", "orb"}
        if not ids <= set(INT_VARS):
            die(f"{g} mentions {sorted(ids - set(INT_VARS))}")
    os.makedirs(os.path.dirname(OUT), exist_ok=True)
    if not os.path.exists(OUT) or open(OUT).read() != text:
        open(OUT, "w").write(text)
        print("tr_kauriformulas: wrote", OUT)
    else:
        print("tr_kauriformulas: unchanged", OUT)


if __name__ == "__main__":
    main()
