#!/usr/bin/env python3
"""C11 — fail-closed translator: estimator / GEMINI constructors, get_gemini overrides and the
_str_to_gemini registry of /repo  ->  coq/Gen/Forwarding.v (syntax of coq/Model/Forwarding.v).

Per class with an estimator (BaseEstimator) or GEMINI (_GEMINI) ancestry: constructor parameters with
their literal defaults, the statements of __init__ in source order (`self.x = expr`,
`super().__init__(..)` / `Parent.__init__(self, ..)` with positional and keyword arguments), the
names of all methods defined in the class body, the straight-line data flow of `score` and `fit_predict` (assignments,
`if v is None: v = e`, attribute reads / getattr, calls), and the body of get_gemini (either
`return Cls(k=self.attr | literal, ..)` or the None / str / instance resolution of
DiscriminativeModel).  From gemini/_utils.py: AVAILABLE_GEMINIS and the if-chain of _str_to_gemini.

Any construct outside this fragment aborts with a non-zero status and nothing is written."""
import ast, os, sys

REPO = os.environ.get("VERIF_REPO", "/repo")
ROOT = os.path.dirname(os.path.dirname(os.path.abspath(__file__)))
OUT = os.path.join(ROOT, "coq", "Gen", "Forwarding.v")
FILES = ["gemclus/_base_gemini.py", "gemclus/gemini/_base_loss.py", "gemclus/gemini/_fdivergences.py",
         "gemclus/gemini/_geomdistances.py", "gemclus/linear/_linear_geminis.py", "gemclus/mlp/_mlp_geminis.py",
         "gemclus/sparse/_linear_sparse.py", "gemclus/sparse/_mlp_sparse.py",
         "gemclus/nonparametric/_categorical_models.py", "gemclus/tree/kauri.py", "gemclus/tree/douglas.py"]
UTILS = "gemclus/gemini/_utils.py"
EXTERNAL_BASES = {"ABC", "ClusterMixin", "BaseEstimator"}     # define none of __init__(params) / get_gemini / evaluate / compute_affinity
ROOT_MARKS = {"BaseEstimator"}                                   # external base that makes a class an estimator
ROOT_CLASSES = {"_GEMINI"}                                       # in-repo root of the GEMINI hierarchy
INIT_DECORATORS = {"constraint_params"}                          # argument validation only (property C16)


class Unknown(Exception):
    pass


def die(where, node, why):
    line = getattr(node, "lineno", "?")
    raise Unknown(f"{where}:{line}: {why}: {ast.dump(node)[:200] if isinstance(node, ast.AST) else node}")


def q(s):
    if not isinstance(s, str) or any(ord(ch) < 32 or ord(ch) > 126 for ch in s):
        raise Unknown(f"string not printable ASCII: {s!r}")
    return '"' + s.replace('"', '""') + '"'


def const(where, node):
    if not isinstance(node, ast.Constant):
        die(where, node, "not a literal")
    v = node.value
    if v is None:
        return "CNone"
    if v is True or v is False:
        return f"(CBool {'true' if v else 'false'})"
    if isinstance(v, str):
        return f"(CStr {q(v)})"
    if isinstance(v, (int, float)) and not isinstance(v, bool):
        return f"(CNum {q(repr(v))})"
    die(where, node, "literal of unsupported type")


def is_self_attr(node):
    return isinstance(node, ast.Attribute) and isinstance(node.value, ast.Name) and node.value.id == "self" \
        and isinstance(node.ctx, (ast.Load, ast.Store))


def lst(items):
    return "[" + "; ".join(items) + "]"


def strip_doc(body):
    if body and isinstance(body[0], ast.Expr) and isinstance(body[0].value, ast.Constant) and isinstance(body[0].value.value, str):
        return body[1:]
    return body


def init_expr(where, node, params):
    if isinstance(node, ast.Name) and isinstance(node.ctx, ast.Load):
        if node.id not in params:
            die(where, node, "name that is not a constructor parameter")
        return f"(EParam {q(node.id)})"
    if isinstance(node, ast.Constant):
        return f"(EConst {const(where, node)})"
    die(where, node, "unsupported expression in __init__")


def call_args(where, call, params, skip_self):
    args = list(call.args)
    if skip_self:
        if not args or not (isinstance(args[0], ast.Name) and args[0].id == "self"):
            die(where, call, "explicit parent __init__ call without self")
        args = args[1:]
    pos = []
    for a in args:
        if isinstance(a, ast.Starred):
            die(where, a, "starred argument")
        pos.append(init_expr(where, a, params))
    kws = []
    seen = set()
    for k in call.keywords:
        if k.arg is None:
            die(where, call, "**kwargs in call")
        if k.arg in seen:
            die(where, call, "duplicated keyword")
        seen.add(k.arg)
        kws.append(f"({q(k.arg)}, {init_expr(where, k.value, params)})")
    return pos, kws


def tr_init(where, fn, parent, ancestors):
    for d in fn.decorator_list:
        if not (isinstance(d, ast.Call) and isinstance(d.func, ast.Name) and d.func.id in INIT_DECORATORS):
            die(where, d, "unknown decorator on __init__")
    a = fn.args
    if a.posonlyargs or a.kwonlyargs or a.vararg or a.kwarg or a.kw_defaults:
        die(where, fn, "unsupported parameter kinds in __init__")
    if not a.args or a.args[0].arg != "self":
        die(where, fn, "__init__ without self")
    names = [x.arg for x in a.args[1:]]
    if len(set(names)) != len(names):
        die(where, fn, "duplicate parameter")
    ndef = len(a.defaults)
    if ndef > len(names):
        die(where, fn, "default for self")
    defaults = [None] * (len(names) - ndef) + list(a.defaults)
    params = []
    for n, d in zip(names, defaults):
        params.append(f"({q(n)}, {'None' if d is None else '(Some ' + const(where, d) + ')'})")
    body = []
    for st in strip_doc(fn.body):
        if isinstance(st, ast.Assign) and len(st.targets) == 1 and is_self_attr(st.targets[0]):
            body.append(f"SStore {q(st.targets[0].attr)} {init_expr(where, st.value, names)}")
            continue
        if isinstance(st, ast.Expr) and isinstance(st.value, ast.Call) and isinstance(st.value.func, ast.Attribute) \
                and st.value.func.attr == "__init__":
            tgt = st.value.func.value
            if isinstance(tgt, ast.Call) and isinstance(tgt.func, ast.Name) and tgt.func.id == "super" \
                    and not tgt.args and not tgt.keywords:
                if parent is None:
                    die(where, st, "super().__init__ with no translated parent")
                pos, kws = call_args(where, st.value, names, skip_self=False)
                target = parent
            elif isinstance(tgt, ast.Name):
                if tgt.id not in ancestors:
                    die(where, st, "explicit __init__ of a class that is not a translated ancestor")
                pos, kws = call_args(where, st.value, names, skip_self=True)
                target = tgt.id
            else:
                die(where, st, "unsupported __init__ call")
            body.append(f"SSuper {{| sc_target := {q(target)}; sc_pos := {lst(pos)}; sc_kw := {lst(kws)} |}}")
            continue
        if isinstance(st, ast.Pass):
            continue
        die(where, st, "unsupported statement in __init__")
    return f"{{| i_params := {lst(params)};\n        i_body := {lst(body)} |}}"


def resolve_template(attr, dflt):
    src = (f"if self.{attr} is None:\n    return _str_to_gemini({dflt!r})\n"
           f"if isinstance(self.{attr}, str):\n    return _str_to_gemini(self.{attr})\n"
           f"return self.{attr}\n")
    return [ast.dump(s) for s in ast.parse(src).body]


def tr_get_gemini(where, fn, class_names):
    if fn.decorator_list:
        die(where, fn, "decorated get_gemini")
    a = fn.args
    if a.posonlyargs or a.kwonlyargs or a.vararg or a.kwarg or a.defaults or [x.arg for x in a.args] != ["self"]:
        die(where, fn, "get_gemini takes parameters")
    body = strip_doc(fn.body)
    if len(body) == 1 and isinstance(body[0], ast.Return) and isinstance(body[0].value, ast.Call) \
            and isinstance(body[0].value.func, ast.Name):
        call = body[0].value
        if call.func.id not in class_names:
            die(where, call, "get_gemini builds a class that is not translated")
        if call.args:
            die(where, call, "positional arguments in the GEMINI constructor call")
        kws, seen = [], set()
        for k in call.keywords:
            if k.arg is None or k.arg in seen:
                die(where, call, "**kwargs / duplicated keyword")
            seen.add(k.arg)
            if is_self_attr(k.value):
                e = f"(EAttr {q(k.value.attr)})"
            elif isinstance(k.value, ast.Constant):
                e = f"(EConst {const(where, k.value)})"
            else:
                die(where, k.value, "unsupported argument in the GEMINI constructor call")
            kws.append(f"({q(k.arg)}, {e})")
        return f"GGCall {q(call.func.id)} {lst(kws)}"
    if len(body) == 3 and isinstance(body[0], ast.If) and isinstance(body[0].test, ast.Compare) \
            and is_self_attr(body[0].test.left) and len(body[0].body) == 1 and isinstance(body[0].body[0], ast.Return) \
            and isinstance(body[0].body[0].value, ast.Call) and len(body[0].body[0].value.args) == 1 \
            and isinstance(body[0].body[0].value.args[0], ast.Constant) and isinstance(body[0].body[0].value.args[0].value, str):
        attr = body[0].test.left.attr
        dflt = body[0].body[0].value.args[0].value
        if [ast.dump(s) for s in body] == resolve_template(attr, dflt):
            return f"GGResolve {q(attr)} {q(dflt)}"
    die(where, fn, "get_gemini body outside the known fragment")


def tr_score(where, fn):
    """score / fit_predict (self, X, y=None): straight-line data flow of the local variables (fail-closed)."""
    if fn.decorator_list:
        die(where, fn, "decorated method")
    a = fn.args
    if a.posonlyargs or a.kwonlyargs or a.vararg or a.kwarg or [x.arg for x in a.args] != ["self", "X", "y"] \
            or len(a.defaults) != 1 or not (isinstance(a.defaults[0], ast.Constant) and a.defaults[0].value is None):
        die(where, fn, "unexpected signature (self, X, y=None expected)")
    local = {"X", "y"}

    def ex(node):
        if isinstance(node, ast.Name) and isinstance(node.ctx, ast.Load):
            if node.id not in local:
                die(where, node, "name that is not a local variable")
            return f"(MVar {q(node.id)})"
        if isinstance(node, ast.Constant):
            return f"(MConst {const(where, node)})"
        if is_self_attr(node) and isinstance(node.ctx, ast.Load):
            return f"(MSelfAttr {q(node.attr)})"
        if isinstance(node, ast.Call):
            if node.keywords or any(isinstance(x, ast.Starred) for x in node.args):
                die(where, node, "keyword / starred arguments in a call")
            f = node.func
            if isinstance(f, ast.Name) and f.id == "getattr":
                if len(node.args) == 3 and isinstance(node.args[0], ast.Name) and node.args[0].id == "self" \
                        and isinstance(node.args[1], ast.Constant) and isinstance(node.args[1].value, str):
                    return f"(MGetAttr {q(node.args[1].value)} {ex(node.args[2])})"
                die(where, node, "unsupported getattr")
            args = lst([ex(x) for x in node.args])
            if isinstance(f, ast.Name):
                if f.id in local:
                    return f"(MApply (MVar {q(f.id)}) {args})"
                if f.id in ("self", "setattr", "hasattr", "vars", "eval", "exec", "globals", "locals"):
                    die(where, node, "unsupported builtin")
                return f"(MFn {q(f.id)} {args})"
            if isinstance(f, ast.Attribute):
                if isinstance(f.value, ast.Name) and f.value.id == "self":
                    return f"(MSelfCall {q(f.attr)} {args})"
                return f"(MMeth {ex(f.value)} {q(f.attr)} {args})"
        if isinstance(node, ast.Attribute) and isinstance(node.ctx, ast.Load):
            return f"(MField {ex(node.value)} {q(node.attr)})"
        die(where, node, "unsupported expression in method body")

    out = []
    for st in strip_doc(fn.body):
        if isinstance(st, ast.Assign) and len(st.targets) == 1 and isinstance(st.targets[0], ast.Name):
            e = ex(st.value)
            local.add(st.targets[0].id)
            out.append(f"MAssign {q(st.targets[0].id)} {e}")
        elif isinstance(st, ast.Assign) and len(st.targets) == 1 and is_self_attr(st.targets[0]):
            out.append(f"MSetAttr {q(st.targets[0].attr)} {ex(st.value)}")
        elif isinstance(st, ast.If) and not st.orelse and isinstance(st.test, ast.Compare) and isinstance(st.test.left, ast.Name) \
                and st.test.left.id in local and len(st.test.ops) == 1 and isinstance(st.test.ops[0], ast.Is) \
                and isinstance(st.test.comparators[0], ast.Constant) and st.test.comparators[0].value is None \
                and len(st.body) == 1 and isinstance(st.body[0], ast.Assign) and len(st.body[0].targets) == 1 \
                and isinstance(st.body[0].targets[0], ast.Name) and st.body[0].targets[0].id == st.test.left.id:
            out.append(f"MIfNone {q(st.test.left.id)} {ex(st.body[0].value)}")
        elif isinstance(st, ast.Return) and st.value is not None:
            out.append(f"MReturn {ex(st.value)}")
        else:
            die(where, st, "unsupported statement in score")
    return lst(out)


def collect_classes():
    found = []          # (file, ClassDef)
    for rel in FILES:
        tree = ast.parse(open(os.path.join(REPO, rel)).read())
        for node in tree.body:
            if isinstance(node, ast.ClassDef):
                found.append((rel, node))
    by_name = {}
    for rel, c in found:
        if c.name in by_name:
            raise Unknown(f"{rel}: class {c.name} defined twice")
        by_name[c.name] = (rel, c)

    def base_names(rel, c):
        out = []
        if c.keywords:
            die(rel, c, "class keywords (metaclass)")
        for b in c.bases:
            if not isinstance(b, ast.Name):
                die(rel, b, "base class that is not a plain name")
            out.append(b.id)
        return out

    memo = {}

    def included(name, stack=()):
        if name in memo:
            return memo[name]
        if name in stack:
            raise Unknown(f"inheritance cycle at {name}")
        rel, c = by_name[name]
        res = name in ROOT_CLASSES
        for b in base_names(rel, c):
            if b in ROOT_MARKS or (b in by_name and included(b, stack + (name,))):
                res = True
        memo[name] = res
        return res

    table, skipped = [], []
    for rel, c in found:
        if not included(c.name):
            skipped.append(c.name)
            continue
        bases = base_names(rel, c)
        inrepo = [b for b in bases if b in by_name]
        for b in bases:
            if b not in by_name and b not in EXTERNAL_BASES:
                die(rel, c, f"unknown external base class {b}")
        if len(inrepo) > 1:
            die(rel, c, "multiple translated base classes")
        if inrepo and not included(inrepo[0]):
            die(rel, c, "translated class derives from a skipped class")
        table.append((rel, c, inrepo[0] if inrepo else None))
    return table, skipped, by_name


def ancestors_of(name, parent_of):
    out = []
    p = parent_of.get(name)
    while p is not None:
        out.append(p)
        p = parent_of.get(p)
    return out


def tr_class(rel, c, parent, parent_of, class_names):
    where = f"{rel}:{c.name}"
    methods, init, gg, score, fp = [], "None", "None", "None", "None"
    for st in c.body:
        if isinstance(st, ast.FunctionDef):
            if st.name in methods:
                die(where, st, "method defined twice")
            methods.append(st.name)
            if st.name == "__init__":
                init = "(Some " + tr_init(where + ".__init__", st, parent, ancestors_of(c.name, parent_of)) + ")"
            elif st.name == "get_gemini":
                gg = "(Some (" + tr_get_gemini(where + ".get_gemini", st, class_names) + "))"
            elif st.name == "score":
                score = "(Some " + tr_score(where + ".score", st) + ")"
            elif st.name == "fit_predict":
                fp = "(Some " + tr_score(where + ".fit_predict", st) + ")"
        elif isinstance(st, ast.Expr) and isinstance(st.value, ast.Constant) and isinstance(st.value.value, str):
            pass                                   # docstring
        elif isinstance(st, (ast.Assign, ast.AnnAssign)):
            tg = st.targets if isinstance(st, ast.Assign) else [st.target]
            for t in tg:
                if not isinstance(t, ast.Name) or not t.id.startswith("_") or t.id.startswith("__"):
                    die(where, st, "class attribute that could shadow a method")
        elif isinstance(st, ast.Pass):
            pass
        else:
            die(where, st, "unsupported statement in class body")
    par = "None" if parent is None else f"(Some {q(parent)})"
    return (f"  {{| c_name := {q(c.name)}; c_parent := {par};\n      c_init := {init};\n"
            f"      c_methods := {lst([q(m) for m in methods])};\n      c_get_gemini := {gg};\n      c_score := {score};\n      c_fit_predict := {fp} |}}")


def tr_registry(class_names):
    where = UTILS
    tree = ast.parse(open(os.path.join(REPO, UTILS)).read())
    avail, fn = None, None
    for st in tree.body:
        if isinstance(st, (ast.Import, ast.ImportFrom)):
            continue
        if isinstance(st, ast.FunctionDef) and st.name == "_str_to_gemini" and fn is None:
            fn = st
        elif isinstance(st, ast.Assign) and len(st.targets) == 1 and isinstance(st.targets[0], ast.Name) \
                and st.targets[0].id == "AVAILABLE_GEMINIS" and avail is None and isinstance(st.value, ast.List):
            avail = []
            for e in st.value.elts:
                if not (isinstance(e, ast.Constant) and isinstance(e.value, str)):
                    die(where, e, "AVAILABLE_GEMINIS entry is not a string literal")
                avail.append(e.value)
        else:
            die(where, st, "unsupported top-level statement")
    if avail is None or fn is None:
        raise Unknown(f"{where}: AVAILABLE_GEMINIS or _str_to_gemini missing")
    a = fn.args
    if fn.decorator_list or a.posonlyargs or a.kwonlyargs or a.vararg or a.kwarg or a.defaults or len(a.args) != 1:
        die(where, fn, "unexpected signature of _str_to_gemini")
    arg = a.args[0].arg
    body = strip_doc(fn.body)
    guard = ast.parse(f"if {arg} not in AVAILABLE_GEMINIS:\n    raise ValueError('x')\n").body[0]
    if len(body) != 2 or not isinstance(body[0], ast.If) or ast.dump(body[0].test) != ast.dump(guard.test) \
            or body[0].orelse or len(body[0].body) != 1 or not isinstance(body[0].body[0], ast.Raise) \
            or not (isinstance(body[0].body[0].exc, ast.Call) and isinstance(body[0].body[0].exc.func, ast.Name)
                    and body[0].body[0].exc.func.id == "ValueError"):
        die(where, fn, "guard of _str_to_gemini outside the known fragment")

    def names_of(test):
        if isinstance(test, ast.BoolOp) and isinstance(test.op, ast.Or):
            return [n for v in test.values for n in names_of(v)]
        if isinstance(test, ast.Compare) and isinstance(test.left, ast.Name) and test.left.id == arg \
                and len(test.ops) == 1 and isinstance(test.ops[0], ast.Eq) \
                and isinstance(test.comparators[0], ast.Constant) and isinstance(test.comparators[0].value, str):
            return [test.comparators[0].value]
        die(where, test, "unsupported test in the _str_to_gemini chain")

    chain = []
    node = body[1]
    while True:
        if not isinstance(node, ast.If):
            die(where, node, "the chain of _str_to_gemini is not an if/elif chain")
        if len(node.body) != 1 or not isinstance(node.body[0], ast.Return) or not isinstance(node.body[0].value, ast.Call) \
                or not isinstance(node.body[0].value.func, ast.Name):
            die(where, node, "branch that is not `return Cls(...)`")
        call = node.body[0].value
        if call.func.id not in class_names:
            die(where, call, "registry builds a class that is not translated")
        if call.args:
            die(where, call, "positional argument in a registry constructor call")
        kws, seen = [], set()
        for k in call.keywords:
            if k.arg is None or k.arg in seen:
                die(where, call, "**kwargs / duplicated keyword")
            seen.add(k.arg)
            kws.append(f"({q(k.arg)}, {const(where, k.value)})")
        for n in names_of(node.test):
            chain.append(f"({q(n)}, ({q(call.func.id)}, {lst(kws)}))")
        if not node.orelse:
            break
        if len(node.orelse) != 1:
            die(where, node, "else branch in the _str_to_gemini chain")
        node = node.orelse[0]
    return (f"{{| r_available := {lst([q(s) for s in avail])};\n"
            f"     r_chain := [\n    " + ";\n    ".join(chain) + "] |}")


def main():
    table, skipped, by_name = collect_classes()
    parent_of = {c.name: parent for _, c, parent in table}
    class_names = {c.name for _, c, _ in table}
    cls = [tr_class(rel, c, parent, parent_of, class_names) for rel, c, parent in table]
    reg = tr_registry(class_names)
    text = ("(* GENERATED by translator/tr_forwarding.py from the current sources of the repository - do not edit.\n"
            "   Sources: " + " ".join(FILES + [UTILS]) + "\n"
            "   Classes without estimator / GEMINI ancestry are not translated: " + (" ".join(skipped) or "(none)") + " *)\n"
            "From Coq Require Import List String.\nFrom GV Require Import Model.Forwarding.\nImport ListNotations.\n"
            "Open Scope string_scope.\n\n"
            "Definition classes : list class_desc := [\n" + ";\n".join(cls) + "].\n\n"
            "Definition gemini_registry : registry :=\n  " + reg + ".\n"
            "(* EXTRACT: classes gemini_registry *)\n")
    os.makedirs(os.path.dirname(OUT), exist_ok=True)
    if not os.path.exists(OUT) or open(OUT).read() != text:
        with open(OUT + ".tmp", "w") as f:
            f.write(text)
        os.replace(OUT + ".tmp", OUT)


if __name__ == "__main__":
    try:
        main()
    except Unknown as e:
        print("tr_forwarding: " + str(e), file=sys.stderr)
        sys.exit(1)
    except (OSError, SyntaxError) as e:
        print(f"tr_forwarding: cannot read sources: {e}", file=sys.stderr)
        sys.exit(1)
