#!/usr/bin/env python3
"""Fail-closed translator:
     gemclus/sparse/_linear_sparse.py :: SparseLinearModel.{_update_weights, get_selection, _n_selected_features, _group_lasso_penalty, fit}
     gemclus/sparse/_mlp_sparse.py    :: SparseMLPModel.{same methods}
  ->  coq/Gen/SelectionRules.v

What is translated and how
  * `_update_weights` is translated WHOLE by a small symbolic execution of the method body over the state
    (optimiser state, weight attributes).  Vocabulary of statements:
        self.optimiser_.update_params(weights, gradients)         (the in-place optimiser step on all weights)
        if self.groups_ is None / is not None: ... else: ...      (becomes `match groups_ with None | Some`)
        name = <expr> ;  a, b = <operator call>                   (locals are substituted, nothing is re-associated)
        np.copyto(self.<weight>, <expr>) ; self.<weight>[:] = <expr> ; self.<weight>[...] = <expr>
    expressions: locals, self.<weight attribute>, self.alpha, self.M, self.learning_rate (the hyper-parameter),
        self.optimiser_.learning_rate (the rate of the *current* optimiser state), self.groups_ (in the not-None
        branch), + - * /, small non-negative integer literals, calls of the four operators imported from ._prox_grad
        with positional arguments.
    The result is a Gallina function of the same oracles as Model/Selection.v::update_weights_* (optimiser step,
    rate, the two operators); Proofs/SelectionGen.v proves it equal to the hand-written model.
  * `get_selection`, `_n_selected_features`, `_group_lasso_penalty` (one `return`) are translated WHOLE into the numpy
    vocabulary of Model/Selection.v (np_norm_axis1/0, np_ne0/gt0/ge0/eq0, np_nonzero0, np_count, np_sum), with the
    attribute, axis, order, comparison and reduction read from the source.
  * `fit` is matched against the four-statement skeleton
        self._validate_params(); X = validate_data(self, X, ensure_min_samples=self.<attr>);
        self.<target> = check_groups(self.<source>, X.shape[<axis>]); return super().fit(X, y)
    in any order of the first three (the order found is recorded); holes: <attr>, <target>, <source>, <axis>, order.
Assumed (checked here): `weights` is `_get_weights()` = the literal list of weight attributes of the class; the four
operator names are bound by `from ._prox_grad import ...` and nothing else at module level rebinds them.
Any other statement / expression node: exit status 1 WITHOUT writing (the build prints TRANSLATOR-FAIL; the previous
Gen file stays; the check relies on the correspondence).  The file is rewritten only when its text changes; then the
compiled objects of Proofs/SelectionGen.v and Props/C06gen.v are removed so that the build must re-prove them.
"""
import ast
import hashlib
import os
import sys

ROOT = os.path.dirname(os.path.dirname(os.path.abspath(__file__)))
REPO = os.environ.get("VERIF_REPO", "/repo")
OUT = os.path.join(ROOT, "coq", "Gen", "SelectionRules.v")
DEPENDENTS = ["Proofs/SelectionGen", "Props/C06gen"]

PROX = {  # name -> (argument kinds, result kind)
    "linear_prox_grad": (["mat", "T"], "mat"),
    "group_linear_prox_grad": (["groups", "mat", "T"], "mat"),
    "mlp_prox_grad": (["mat", "mat", "T", "T"], "pair"),
    "group_mlp_prox_grad": (["groups", "mat", "mat", "T", "T"], "pair"),
}

CLASSES = {
    "linear": dict(file="_linear_sparse.py", cls="SparseLinearModel", record="lin_params",
                   fields={"W_": ("lW", "mat"), "b_": ("lb", "vec")}, order=["W_", "b_"],
                   ops=["linear_prox_grad", "group_linear_prox_grad"], has_M=False,
                   weights_src=("linear/_linear_geminis.py", "LinearModel"),
                   dims={"W_": ("d", "K")}, dimargs="(d K : nat)"),
    "mlp": dict(file="_mlp_sparse.py", cls="SparseMLPModel", record="mlp_params",
                fields={"W1_": ("mW1", "mat"), "W2_": ("mW2", "mat"), "W_skip_": ("mWskip", "mat"), "b1_": ("mb1", "vec"), "b2_": ("mb2", "vec")},
                order=["W1_", "W2_", "W_skip_", "b1_", "b2_"],
                ops=["mlp_prox_grad", "group_mlp_prox_grad"], has_M=True,
                weights_src=("sparse/_mlp_sparse.py", "SparseMLPModel"),
                dims={"W_skip_": ("d", "K"), "W1_": ("d", "h"), "W2_": ("h", "K")}, dimargs="(d h K : nat)"),
}


class Fail(Exception):
    pass


def fail(msg, node=None):
    where = f" (line {getattr(node, 'lineno', '?')})" if node is not None else ""
    raise Fail(msg + where)


def strip_doc(body):
    if body and isinstance(body[0], ast.Expr) and isinstance(body[0].value, ast.Constant) and isinstance(body[0].value.value, str):
        return body[1:]
    return body


def find_class(mod, name):
    cl = [n for n in mod.body if isinstance(n, ast.ClassDef) and n.name == name]
    if len(cl) != 1:
        fail(f"class {name} not found exactly once")
    return cl[0]


def find_method(cl, name):
    ms = [n for n in cl.body if isinstance(n, ast.FunctionDef) and n.name == name]
    if len(ms) != 1:
        fail(f"{cl.name}.{name} not found exactly once")
    if ms[0].decorator_list:
        fail(f"{cl.name}.{name} is decorated", ms[0])
    return ms[0]


def plain_args(fn, names):
    a = fn.args
    got = [x.arg for x in a.args]
    if got != names or a.vararg or a.kwarg or a.kwonlyargs or a.posonlyargs:
        fail(f"{fn.name}: unexpected signature {got}", fn)


def self_attr(e):
    """self.<name> -> name, else None"""
    if isinstance(e, ast.Attribute) and isinstance(e.value, ast.Name) and e.value.id == "self":
        return e.attr
    return None


# ------------------------------------------------------------------ _update_weights : symbolic execution
class State:
    def __init__(self, cfg):
        self.cfg = cfg
        self.opt = "s"                                   # current optimiser state
        self.attrs = {a: f"{f} weights" for a, (f, _) in cfg["fields"].items()}
        self.whole = "weights"                           # the record, while no attribute has been rewritten since
        self.locals = {}                                 # name -> (term, kind)
        self.groups = None                               # term for self.groups_ (inside the Some branch)
        self.groups_known = None                         # None unknown / "none" / "some"
        self.nlet = 0

    def copy(self):
        st = State.__new__(State)
        st.__dict__.update(self.__dict__)
        st.attrs = dict(self.attrs)
        st.locals = dict(self.locals)
        return st

    def record(self):
        if self.whole is not None:
            return self.whole
        c = self.cfg
        return "{| " + "; ".join(f"{c['fields'][a][0]} := {self.attrs[a]}" for a in c["order"]) + " |}"


ARITH = {ast.Add: "nadd", ast.Sub: "nsub", ast.Mult: "nmul", ast.Div: "ndiv"}


def uexpr(e, st):
    """-> (term, kind) with kind in T / mat / vec / groups / pair"""
    cfg = st.cfg
    if isinstance(e, ast.Name):
        if e.id in st.locals:
            return st.locals[e.id]
        fail(f"unknown name {e.id}", e)
    a = self_attr(e)
    if a is not None:
        if a in cfg["fields"]:
            return st.attrs[a], cfg["fields"][a][1]
        if a == "alpha":
            return "alpha", "T"
        if a == "M" and cfg["has_M"]:
            return "M", "T"
        if a == "learning_rate":
            return "hp_learning_rate", "T"
        if a == "groups_":
            if st.groups is None:
                fail("self.groups_ is read where it is None or untested", e)
            return st.groups, "groups"
        fail(f"attribute self.{a} is not part of the modelled state", e)
    if isinstance(e, ast.Attribute) and e.attr == "learning_rate" and self_attr(e.value) == "optimiser_":
        return f"learning_rate {st.opt}", "T"
    if isinstance(e, ast.Constant) and isinstance(e.value, int) and not isinstance(e.value, bool) and 0 <= e.value <= 1000:
        return ("n0 o" if e.value == 0 else "n1 o" if e.value == 1 else f"nofnat o {e.value}"), "T"
    if isinstance(e, ast.BinOp) and type(e.op) in ARITH:
        x, kx = uexpr(e.left, st)
        y, ky = uexpr(e.right, st)
        if kx != "T" or ky != "T":
            fail("arithmetic on non-scalars is not part of the modelled method", e)
        return f"{ARITH[type(e.op)]} o ({x}) ({y})", "T"
    if isinstance(e, ast.Call) and isinstance(e.func, ast.Name) and e.func.id in cfg["ops"]:
        kinds, res = PROX[e.func.id]
        if e.keywords or len(e.args) != len(kinds):
            fail(f"{e.func.id}: positional call with {len(kinds)} arguments expected", e)
        args = []
        for arg, k in zip(e.args, kinds):
            t, kt = uexpr(arg, st)
            if kt != k:
                fail(f"{e.func.id}: argument of kind {kt} where {k} is expected", arg)
            args.append(f"({t})")
        return f"{e.func.id} " + " ".join(args), res
    fail(f"unknown expression {type(e).__name__}: {ast.unparse(e)[:80]}", e)


def is_full_slice(sl):
    return (isinstance(sl, ast.Slice) and sl.lower is None and sl.upper is None and sl.step is None) or \
           (isinstance(sl, ast.Constant) and sl.value is Ellipsis)


def write_attr(st, a, term, kind, node):
    cfg = st.cfg
    if a not in cfg["fields"]:
        fail(f"write to self.{a}, which is not a weight attribute", node)
    if kind != cfg["fields"][a][1]:
        fail(f"self.{a} receives a value of kind {kind}", node)
    st.attrs[a] = term
    st.whole = None


def uexec(stmts, st, ind):
    """symbolically execute; returns the Gallina term of the final (optimiser state, weights)"""
    cfg = st.cfg
    pad = "  " * ind
    if not stmts:
        return f"{pad}({st.opt}, {st.record()})"
    s, rest = stmts[0], stmts[1:]
    if isinstance(s, ast.Pass):
        return uexec(rest, st, ind)
    if isinstance(s, ast.Expr) and isinstance(s.value, ast.Call):
        c = s.value
        fn = ast.unparse(c.func)
        if fn == "self.optimiser_.update_params":
            if c.keywords or [ast.unparse(x) for x in c.args] != ["weights", "gradients"]:
                fail("update_params is not called on (weights, gradients)", s)
            st.nlet += 1
            v = f"sw{st.nlet}"
            line = f"{pad}let {v} := update_params {st.opt} ({st.record()}) gradients in\n" if st.whole is None else \
                   f"{pad}let {v} := update_params {st.opt} {st.whole} gradients in\n"
            st.opt = f"(fst {v})"
            st.whole = f"(snd {v})"
            st.attrs = {a: f"{f} (snd {v})" for a, (f, _) in cfg["fields"].items()}
            return line + uexec(rest, st, ind)
        if fn == "np.copyto":
            if c.keywords or len(c.args) != 2 or self_attr(c.args[0]) is None:
                fail("np.copyto(self.<weight>, value) expected", s)
            t, k = uexpr(c.args[1], st)
            write_attr(st, self_attr(c.args[0]), t, k, s)
            return uexec(rest, st, ind)
        fail(f"unknown call statement {fn}", s)
    if isinstance(s, ast.Assign) and len(s.targets) == 1:
        tg = s.targets[0]
        if isinstance(tg, ast.Name):
            st.locals[tg.id] = uexpr(s.value, st)
            return uexec(rest, st, ind)
        if isinstance(tg, ast.Tuple) and len(tg.elts) == 2 and all(isinstance(x, ast.Name) for x in tg.elts):
            t, k = uexpr(s.value, st)
            if k != "pair":
                fail("tuple assignment from something that is not a pair of matrices", s)
            st.locals[tg.elts[0].id] = (f"fst ({t})", "mat")
            st.locals[tg.elts[1].id] = (f"snd ({t})", "mat")
            return uexec(rest, st, ind)
        if isinstance(tg, ast.Subscript) and self_attr(tg.value) is not None and is_full_slice(tg.slice):
            t, k = uexpr(s.value, st)
            write_attr(st, self_attr(tg.value), t, k, s)
            return uexec(rest, st, ind)
        fail("unknown assignment target", s)
    if isinstance(s, ast.If):
        t = s.test
        if not (isinstance(t, ast.Compare) and len(t.ops) == 1 and self_attr(t.left) == "groups_"
                and isinstance(t.comparators[0], ast.Constant) and t.comparators[0].value is None
                and isinstance(t.ops[0], (ast.Is, ast.IsNot))):
            fail("the only modelled test is `self.groups_ is None` / `is not None`", s)
        none_body, some_body = (s.body, s.orelse) if isinstance(t.ops[0], ast.Is) else (s.orelse, s.body)
        if st.groups_known == "none":
            return uexec(list(none_body) + rest, st, ind)
        if st.groups_known == "some":
            return uexec(list(some_body) + rest, st, ind)
        a, b = st.copy(), st.copy()
        a.groups_known, b.groups_known, b.groups = "none", "some", "groups_v"
        return (f"{pad}match groups_ with\n{pad}| None =>\n" + uexec(list(none_body) + rest, a, ind + 2) +
                f"\n{pad}| Some groups_v =>\n" + uexec(list(some_body) + rest, b, ind + 2) + f"\n{pad}end")
    fail(f"unknown statement {type(s).__name__}", s)


def check_weights_alias(cfg):
    rel, cls = cfg["weights_src"]
    mod = ast.parse(open(os.path.join(REPO, "gemclus", rel)).read())
    m = find_method(find_class(mod, cls), "_get_weights")
    body = strip_doc(m.body)
    want = "return [" + ", ".join("self." + a for a in cfg["order"]) + "]"
    if len(body) != 1 or ast.unparse(body[0]) != want:
        fail(f"{cls}._get_weights is not `{want}`", m)


def check_imports(mod, cfg):
    bound = {}
    for n in mod.body:
        if isinstance(n, ast.ImportFrom):
            for al in n.names:
                bound[al.asname or al.name] = (n.module, n.level, al.name)
        elif isinstance(n, (ast.FunctionDef, ast.ClassDef)):
            bound[n.name] = "def"
        elif isinstance(n, (ast.Assign, ast.AugAssign, ast.AnnAssign)):
            for t in ast.walk(n):
                if isinstance(t, ast.Name) and isinstance(t.ctx, ast.Store):
                    bound[t.id] = "assigned"
        elif isinstance(n, ast.Import):
            for al in n.names:
                bound[(al.asname or al.name).split(".")[0]] = "import"
    for op in cfg["ops"] + ["check_groups"]:
        want = ("_base_sparse", 1, op) if op == "check_groups" else ("_prox_grad", 1, op)
        if bound.get(op) != want:
            fail(f"{op} is not bound by `from .{want[0]} import {op}` at module level")
    if bound.get("np") != "import":
        fail("numpy is not imported as np")


def tr_update(cl, key):
    cfg = CLASSES[key]
    fn = find_method(cl, "_update_weights")
    plain_args(fn, ["self", "weights", "gradients"])
    st = State(cfg)
    body = uexec(strip_doc(fn.body), st, 1)
    rec = f"@{cfg['record']} T"
    mat = "(nat -> nat -> T)"
    if key == "linear":
        ops = (f"(linear_prox_grad : {mat} -> T -> {mat})\n    (group_linear_prox_grad : list (list nat) -> {mat} -> T -> {mat})")
        hp = "(alpha hp_learning_rate : T)"
    else:
        ops = (f"(mlp_prox_grad : {mat} -> {mat} -> T -> T -> {mat} * {mat})\n"
               f"    (group_mlp_prox_grad : list (list nat) -> {mat} -> {mat} -> T -> T -> {mat} * {mat})")
        hp = "(alpha M hp_learning_rate : T)"
    return (f"(* {cfg['cls']}._update_weights, lines {fn.lineno}-{fn.end_lineno}: update_params = self.optimiser_.update_params (on all\n"
            f"   weights, in place), learning_rate s = self.optimiser_.learning_rate in optimiser state s, hp_learning_rate = self.learning_rate *)\n"
            f"Definition gen_update_weights_{key} {{T St : Type}} (o : NumOps T)\n"
            f"    (update_params : St -> {rec} -> {rec} -> St * {rec}) (learning_rate : St -> T)\n    {ops}\n"
            f"    (groups_ : option (list (list nat))) {hp} (s : St) (weights gradients : {rec}) : St * {rec} :=\n{body}.\n"), (fn.lineno, fn.end_lineno)


# ------------------------------------------------------------------ the one-line methods
CMP0 = {ast.NotEq: "np_ne0", ast.Gt: "np_gt0", ast.GtE: "np_ge0", ast.Eq: "np_eq0"}


def oexpr(e, cfg):
    """-> (term, kind, length) ; kinds: mat (rows, cols) / vec n / bvec n / idx / nat / T"""
    a = self_attr(e)
    if a is not None:
        if a not in cfg["dims"]:
            fail(f"self.{a} is not a weight matrix of known shape", e)
        return f"{cfg['fields'][a][0]} w", "mat", cfg["dims"][a]
    if isinstance(e, ast.Call) and ast.unparse(e.func) == "np.linalg.norm":
        if len(e.args) != 1:
            fail("np.linalg.norm: one positional argument expected", e)
        kw = {k.arg: k.value for k in e.keywords}
        if set(kw) - {"axis", "ord"} or "axis" not in kw:
            fail("np.linalg.norm: keywords axis (required) and ord only", e)
        if "ord" in kw and not (isinstance(kw["ord"], ast.Constant) and kw["ord"].value in (2, None)):
            fail("np.linalg.norm: only the Euclidean norm (ord=2 / None) is modelled", e)
        ax = kw["axis"]
        if not (isinstance(ax, ast.Constant) and ax.value in (0, 1) and not isinstance(ax.value, bool)):
            fail("np.linalg.norm: axis must be the literal 0 or 1", e)
        t, k, dims = oexpr(e.args[0], cfg)
        if k != "mat":
            fail("np.linalg.norm of a non-matrix", e)
        r, c = dims
        return (f"np_norm_axis1 o {c} ({t})", "vec", r) if ax.value == 1 else (f"np_norm_axis0 o {r} ({t})", "vec", c)
    if isinstance(e, ast.Subscript) and isinstance(e.value, ast.Call) and ast.unparse(e.value.func) == "np.nonzero":
        c = e.value
        if not (isinstance(e.slice, ast.Constant) and e.slice.value == 0 and not isinstance(e.slice.value, bool)) or c.keywords or len(c.args) != 1:
            fail("np.nonzero(v)[0] expected", e)
        t, k, n = oexpr(c.args[0], cfg)
        if k != "vec":
            fail("np.nonzero of a non-vector", e)
        return f"np_nonzero0 o {n} ({t})", "idx", None
    if isinstance(e, ast.Compare) and len(e.ops) == 1 and type(e.ops[0]) in CMP0:
        r = e.comparators[0]
        if not (isinstance(r, ast.Constant) and r.value == 0 and not isinstance(r.value, bool)):
            fail("comparison with something other than the literal 0", e)
        t, k, n = oexpr(e.left, cfg)
        if k != "vec":
            fail("comparison of a non-vector", e)
        return f"{CMP0[type(e.ops[0])]} o ({t})", "bvec", n
    if isinstance(e, ast.Call) and isinstance(e.func, ast.Attribute) and e.func.attr == "sum" and not e.args and not e.keywords:
        t, k, n = oexpr(e.func.value, cfg)
        if k == "bvec":
            return f"np_count {n} ({t})", "nat", None
        if k == "vec":
            return f"np_sum o {n} ({t})", "T", None
        fail(".sum() of something that is neither a vector nor a boolean vector", e)
    fail(f"unknown expression {type(e).__name__}: {ast.unparse(e)[:80]}", e)


def tr_oneliner(cl, key, meth, gen, want_kind, coq_ty):
    cfg = CLASSES[key]
    fn = find_method(cl, meth)
    plain_args(fn, ["self"])
    body = strip_doc(fn.body)
    if len(body) != 1 or not isinstance(body[0], ast.Return) or body[0].value is None:
        fail(f"{cfg['cls']}.{meth} is not a single return", fn)
    t, k, _ = oexpr(body[0].value, cfg)
    if k != want_kind:
        fail(f"{cfg['cls']}.{meth} returns a value of kind {k}, {want_kind} expected", fn)
    return (f"(* {cfg['cls']}.{meth}, lines {fn.lineno}-{fn.end_lineno}:  {ast.unparse(body[0])} *)\n"
            f"Definition {gen}_{key} {{T : Type}} (o : NumOps T) {cfg['dimargs']} (w : @{cfg['record']} T) : {coq_ty} :=\n  {t}.\n"), (fn.lineno, fn.end_lineno)


# ------------------------------------------------------------------ fit : skeleton + holes
def tr_fit(cl, key):
    cfg = CLASSES[key]
    fn = find_method(cl, "fit")
    a = fn.args
    if [x.arg for x in a.args] != ["self", "X", "y"] or len(a.defaults) != 1 or ast.unparse(a.defaults[0]) != "None" or a.vararg or a.kwarg or a.kwonlyargs:
        fail("fit: signature is not (self, X, y=None)", fn)
    body = strip_doc(fn.body)
    if len(body) != 4:
        fail(f"fit: expected 4 statements, found {len(body)}", fn)
    steps, holes = [], {}
    for s in body[:3]:
        txt = ast.unparse(s)
        if txt == "self._validate_params()":
            steps.append("_validate_params")
            continue
        if isinstance(s, ast.Assign) and len(s.targets) == 1 and isinstance(s.value, ast.Call):
            c, tg = s.value, s.targets[0]
            if isinstance(c.func, ast.Name) and c.func.id == "validate_data" and ast.unparse(tg) == "X":
                if [ast.unparse(x) for x in c.args] != ["self", "X"] or len(c.keywords) != 1 or c.keywords[0].arg != "ensure_min_samples" \
                        or self_attr(c.keywords[0].value) is None:
                    fail("fit: validate_data(self, X, ensure_min_samples=self.<attr>) expected", s)
                holes["min_samples"] = self_attr(c.keywords[0].value)
                steps.append("validate_data")
                continue
            if isinstance(c.func, ast.Name) and c.func.id == "check_groups" and self_attr(tg) is not None:
                if c.keywords or len(c.args) != 2 or self_attr(c.args[0]) is None:
                    fail("fit: check_groups(self.<source>, X.shape[<axis>]) expected", s)
                sh = c.args[1]
                if not (isinstance(sh, ast.Subscript) and ast.unparse(sh.value) == "X.shape" and isinstance(sh.slice, ast.Constant)
                        and isinstance(sh.slice.value, int) and not isinstance(sh.slice.value, bool) and 0 <= sh.slice.value <= 1):
                    fail("fit: second argument of check_groups is not X.shape[0|1]", s)
                if "validate_data" not in steps:
                    fail("fit: X.shape is read before validate_data returned the validated array", s)
                holes["source"], holes["axis"], holes["target"] = self_attr(c.args[0]), sh.slice.value, self_attr(tg)
                steps.append("check_groups")
                continue
        fail(f"fit: statement outside the modelled skeleton: {txt[:100]}", s)
    if sorted(steps) != ["_validate_params", "check_groups", "validate_data"]:
        fail(f"fit: the three modelled statements do not occur exactly once each: {steps}", fn)
    if ast.unparse(body[3]) != "return super().fit(X, y)":
        fail("fit: does not end with `return super().fit(X, y)`", body[3])
    steps.append("super().fit")
    q = lambda x: '"' + x + '"'
    return (f"(* {cfg['cls']}.fit, lines {fn.lineno}-{fn.end_lineno} *)\n"
            f"Definition gen_fit_rules_{key} : fit_rules := {{|\n"
            f"  fr_steps := [{'; '.join(q(x) for x in steps)}];\n"
            f"  fr_groups_source := {q(holes['source'])}; fr_shape_axis := {holes['axis']};\n"
            f"  fr_groups_target := {q(holes['target'])}; fr_min_samples := {q(holes['min_samples'])} |}}.\n"), (fn.lineno, fn.end_lineno)


def translate():
    parts, head = [], []
    for key, cfg in CLASSES.items():
        path = os.path.join(REPO, "gemclus", "sparse", cfg["file"])
        raw = open(path, "rb").read()
        mod = ast.parse(raw.decode("utf-8"))
        check_imports(mod, cfg)
        check_weights_alias(cfg)
        cl = find_class(mod, cfg["cls"])
        ranges = []
        for text, rg, nm in (tr_update(cl, key) + ("_update_weights",),
                             tr_oneliner(cl, key, "get_selection", "gen_get_selection", "idx", "list nat") + ("get_selection",),
                             tr_oneliner(cl, key, "_n_selected_features", "gen_n_selected_features", "nat", "nat") + ("_n_selected_features",),
                             tr_oneliner(cl, key, "_group_lasso_penalty", "gen_group_lasso_penalty", "T", "T") + ("_group_lasso_penalty",),
                             tr_fit(cl, key) + ("fit",)):
            parts.append(text)
            ranges.append(f"{nm} {rg[0]}-{rg[1]}")
        head.append(f"   Source: gemclus/sparse/{cfg['file']}  sha256 {hashlib.sha256(raw).hexdigest()}\n     {cfg['cls']}: lines " + ", ".join(ranges))
    return ("(* GENERATED by translator/tr_selection.py - do not edit.\n" + "\n".join(head) + "\n"
            "   _update_weights: whole-method symbolic execution; get_selection / _n_selected_features / _group_lasso_penalty: whole\n"
            "   expression in the numpy vocabulary of Model/Selection.v; fit: skeleton + holes.  Compared with the hand-written\n"
            "   Model/Selection.v in Proofs/SelectionGen.v. *)\n"
            "From Coq Require Import List String.\nFrom GV Require Import Common.Num Model.Selection.\nImport ListNotations.\nLocal Open Scope string_scope.\n\n"
            + "\n".join(parts))


def main():
    try:
        text = translate()
    except (Fail, SyntaxError, OSError, KeyError) as e:
        print(f"tr_selection: FAIL-CLOSED: {e}")
        sys.exit(1)
    old = open(OUT).read() if os.path.exists(OUT) else None
    if old != text:
        os.makedirs(os.path.dirname(OUT), exist_ok=True)
        open(OUT, "w").write(text)
        print("tr_selection: wrote", OUT)
        for dep in DEPENDENTS:
            for ext in (".vo", ".vos", ".vok", ".glob"):
                stale = os.path.join(ROOT, "coq", dep + ext)
                if os.path.exists(stale):
                    os.remove(stale)
        # the statement files are also compiled into build/props by the harness
        stale = os.path.join(ROOT, "build", "props", "C06gen.vo")
        if os.path.exists(stale):
            os.remove(stale)
    else:
        print("tr_selection: unchanged", OUT)


if __name__ == "__main__":
    main()
