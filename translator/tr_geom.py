#!/usr/bin/env python3
"""Fail-closed, shape-aware symbolic translator:
     gemclus/gemini/_geomdistances.py :: MMDGEMINI.evaluate  ->  coq/Gen/Geom.v

Same engine as tr_fdiv.py (copied, not shared, so that tr_fdiv.py and Gen/FDiv.v stay untouched): the
straight-line numpy code of `evaluate` is interpreted symbolically over abstract arrays with symbolic
shapes (dimensions are the symbols n, K or the literal 1; y_pred : (n, K), affinity : (n, n)).  Every array
is a function of its indices; every Python variable that is assigned becomes a Gallina `let`; sums become
`bsum o dim (fun j => ...)`.  The grouping of the arithmetic is the grouping of the source (nothing is
re-associated, distributed or simplified).  The two flags `self.ovo` and `return_grad` are known constants:
each of the four combinations is translated separately, so every statement is interpreted at least once.

Vocabulary (anything else aborts with a non-zero exit status WITHOUT writing, the build then prints
TRANSLATOR-FAIL):
  statements   x = e ; x op= e (op in + - * /, e broadcast INTO the shape of x) ; x[mask] = scalar and
               x[:, mask] = scalar (boolean-mask assignment) ; if self.ovo / if return_grad (also `not`) ;
               return e / return e, e ; docstrings
  expressions  y_pred, affinity, self.epsilon, assigned names, literals 0 1 2 0.5 and small non-negative
               integers, unary -, + - * / with numpy broadcasting, > < >= <= == (masks), & | on masks,
               a @ b on rank-2 operands (a contraction over a literal 1 is the product) and on rank-3 (batched),
               np.dot / .dot (rank-2 x rank-2, rank-2 x rank-1, rank-1 x rank-1), x.T, x.shape[c], len(x),
               d ** 2 and d1 * d2 and c / d on Python integers (shape entries), np.eye(d), np.diag (matrix ->
               diagonal vector, vector -> diagonal matrix), np.maximum, np.clip(x, lo, hi) with scalar bounds,
               np.log, np.sqrt, np.abs, np.sign, np.square, np.sum / np.mean / .sum / .mean (axis = integer
               or none, keepdims), .reshape((-1, 1)) / .reshape((1, -1)) of a vector, np.expand_dims,
               np.repeat of a unit axis by a shape entry, np.transpose(axes=...), np.squeeze(axis=...) of a
               unit axis, .squeeze() / np.squeeze(x) of an array whose every axis is a literal 1
Conventions   mask * float (or mask + float): the mask entry is `if b then n1 o else n0 o`; 0.5 is n1/n2;
               -x is nneg x = 0 - x; a Python integer used in float arithmetic is `nofnat o <nat expression>`
               (N -> nofnat o n, N ** 2 -> nofnat o (n * n)); int / int is the float quotient of the two
               conversions; np.square(x) is x * x; np.maximum(x, y) is nmax x y = if x < y then y else x;
               np.clip(x, lo, hi) is nclip lo hi x; np.eye(d)[i, j] is `if Nat.eqb i j then n1 o else n0 o`;
               np.diag(v)[i, j] is `if Nat.eqb i j then v i else n0 o`; x[mask] = c is pointwise
               `if mask then c else x`; a sum over a unit axis is the element; mean = sum / count; a sum over
               several axes nests with the first axis outermost.
Aliasing      an in-place update (op= or mask assignment) is accepted only on a variable that holds a freshly
               allocated array of which no view (.T, reshape, squeeze, np.diag of a matrix, plain `y = x`) has
               been stored in another variable; otherwise the functional reading would be wrong -> abort.
Assumed (not read here): `self.epsilon` is the constructor's epsilon.
Python variables whose name collides with the generated vocabulary (e.g. `A`) get the suffix `_py`.
WassersteinGEMINI.evaluate is NOT translated (Python loops around ot.emd2, dict / list values): hand model + L2.

  tr_geom.py            regenerate coq/Gen/Geom.v (rewritten only when its text changes; when it is rewritten the
                        compiled objects of Proofs/GeomGen.v are removed so that the build must re-prove them)
  tr_geom.py --python   print the same symbolic terms as plain Python functions/lambdas (stdout); writes nothing
"""
import ast
import hashlib
import os
import re
import sys

ROOT = os.path.dirname(os.path.dirname(os.path.abspath(__file__)))
REPO = os.environ.get("VERIF_REPO", "/repo")
SRC = os.path.join(REPO, "gemclus", "gemini", "_geomdistances.py")
OUT = os.path.join(ROOT, "coq", "Gen", "Geom.v")

CLASSES = [("mmd", "MMDGEMINI")]

RESERVED = set("""o eps n K Y A T i k Nat eqb n0 n1 n2 nadd nsub nmul ndiv nsqrt nln nexp nabs nltb nleb neqb nofnat nmax nmin
 nneg bsum lsum norm2 nclip nsign andb orb negb nat bool true false fun let in if then else match with end forall
 exists return as at fix cofix for using where Prop Set Type mod IF Definition Lemma Theorem Proof Qed
 math lambda None True False""".split())


class Fail(Exception):
    pass


def fail(msg, node=None):
    where = f" (line {getattr(node, 'lineno', '?')})" if node is not None else ""
    raise Fail(msg + where)


def die(msg):
    sys.stderr.write("tr_geom: FAIL-CLOSED: " + msg + "\n")
    sys.exit(2)


# ------------------------------------------------------------------------------------------- values
class Arr:
    """abstract array: shape = tuple of 'n' | 'K' | 1 ; kind 'f' (float) or 'b' (mask) ;
    fn(list of index terms, None at unit positions) -> term ; pyint marks a Python integer scalar:
    ("lit", v) | ("dim", d) | ("prod", (d, ...)).
    root: None for a freshly allocated array, otherwise the array (or INPUT) whose memory this one may share;
    viewed: a view of this array has been stored in a variable."""

    def __init__(self, shape, kind, fn, pyint=None, root=None):
        self.shape, self.kind, self.fn, self.pyint = tuple(shape), kind, fn, pyint
        self.root, self.viewed = root, False


INPUT = Arr((), "f", lambda idx: None)      # sentinel: memory owned by the caller


def view_of(x, shape, kind, fn):
    """an array that shares memory with x"""
    return Arr(shape, kind, fn, None, x.root if x.root is not None else x)


def dims_of(p):
    if p is None:
        return None
    if p[0] == "dim":
        return (p[1],)
    if p[0] == "prod":
        return tuple(p[1])
    return None


def at(x, idx):
    """element term of x at idx (len(idx) == rank); indices at unit positions are dropped"""
    if len(idx) != len(x.shape):
        raise Fail("internal: rank mismatch")
    clean = []
    for d, ix in zip(x.shape, idx):
        if d == 1:
            clean.append(None)
        else:
            if ix is None:
                raise Fail("internal: missing index on a non-unit axis")
            clean.append(ix)
    return x.fn(clean)


def scalar(term, pyint=None):
    return Arr((), "f", lambda idx: term, pyint)


def as_float(x, t):
    return ("ofbool", t) if x.kind == "b" else t


def broadcast(sa, sb, node):
    r = max(len(sa), len(sb))
    pa, pb = (1,) * (r - len(sa)) + tuple(sa), (1,) * (r - len(sb)) + tuple(sb)
    out = []
    for x, y in zip(pa, pb):
        if x == y:
            out.append(x)
        elif x == 1:
            out.append(y)
        elif y == 1:
            out.append(x)
        else:
            fail(f"shapes {sa} and {sb} do not broadcast", node)
    return tuple(out)


def tail(idx, x):
    return list(idx[len(idx) - len(x.shape):]) if x.shape else []


# ------------------------------------------------------------------------------------------- interpreter
class Interp:
    def __init__(self, ovo, grad):
        self.flags = {"ovo": ovo, "return_grad": grad}
        self.env = {}
        self.lets = []            # (uid, [(param, dim)], kind, term)
        self.used = set()
        self.counter = 0
        self.result = None

    def fresh(self, dim):
        self.counter += 1
        return ("ix", ("i" if dim == "n" else "k") + str(self.counter))

    # ---- helpers
    def const_int(self, e):
        if isinstance(e, ast.Constant) and isinstance(e.value, int) and not isinstance(e.value, bool):
            return e.value
        if isinstance(e, ast.UnaryOp) and isinstance(e.op, ast.USub) and isinstance(e.operand, ast.Constant) \
                and isinstance(e.operand.value, int) and not isinstance(e.operand.value, bool):
            return -e.operand.value
        fail("integer literal expected", e)

    def args(self, call, names, required, skip=0):
        """positional + keyword arguments of a call mapped to `names`; unknown keywords fail"""
        got = {}
        pos = call.args[skip:]
        if len(pos) > len(names):
            fail("too many arguments", call)
        for a in pos:
            if isinstance(a, ast.Starred):
                fail("starred argument", call)
        for nm, a in zip(names, pos):
            got[nm] = a
        for kw in call.keywords:
            if kw.arg is None or kw.arg not in names or kw.arg in got:
                fail(f"keyword {kw.arg!r} not in the vocabulary of this call", call)
            got[kw.arg] = kw.value
        for nm in required:
            if nm not in got:
                fail(f"argument {nm} missing", call)
        return got

    def axis_of(self, e, rank, node):
        a = self.const_int(e)
        if a < 0:
            a += rank
        if not 0 <= a < rank:
            fail("axis out of range", node)
        return a

    # ---- array operations
    def binop(self, op, a, b, node):
        if a.pyint is not None and b.pyint is not None:
            da, db = dims_of(a.pyint), dims_of(b.pyint)
            if op == "mul" and da is not None and db is not None:          # N * N : still a Python integer
                return scalar(("ofn", da + db), ("prod", da + db))
            if op == "div":                                                # int / int : true division, a float
                return scalar(("div", at(a, []), at(b, [])))
            fail("integer arithmetic between two Python integers outside d1 * d2 and c / d", node)
        if a.kind == "b" and b.kind == "b":
            fail("arithmetic between two masks", node)
        shape = broadcast(a.shape, b.shape, node)

        def fn(idx):
            return (op, as_float(a, at(a, tail(idx, a))), as_float(b, at(b, tail(idx, b))))
        return Arr(shape, "f", fn)

    def compare(self, op, a, b, node):
        if a.kind != "f" or b.kind != "f" or (a.pyint is not None and b.pyint is not None):
            fail("comparison of masks or of two Python integers", node)
        shape = broadcast(a.shape, b.shape, node)
        if isinstance(op, ast.Gt):
            mk = lambda x, y: ("ltb", y, x)
        elif isinstance(op, ast.Lt):
            mk = lambda x, y: ("ltb", x, y)
        elif isinstance(op, ast.GtE):
            mk = lambda x, y: ("leb", y, x)
        elif isinstance(op, ast.LtE):
            mk = lambda x, y: ("leb", x, y)
        elif isinstance(op, ast.Eq):
            mk = lambda x, y: ("eqb", x, y)
        else:
            fail("comparison " + type(op).__name__, node)
        return Arr(shape, "b", lambda idx: mk(at(a, tail(idx, a)), at(b, tail(idx, b))))

    def logic(self, op, a, b, node):
        if a.kind != "b" or b.kind != "b":
            fail("& / | on non-masks", node)
        shape = broadcast(a.shape, b.shape, node)
        return Arr(shape, "b", lambda idx: (op, at(a, tail(idx, a)), at(b, tail(idx, b))))

    def unary(self, op, x, node):
        if op == "neg" and x.kind == "f" and x.pyint is not None and x.pyint[0] == "lit":
            return scalar(("neg", at(x, [])), ("lit", -x.pyint[1]))       # -2 : the float nneg 2
        if x.kind != "f" or x.pyint is not None:
            fail("numeric function of a mask or of a Python integer", node)
        return Arr(x.shape, "f", lambda idx: (op, at(x, idx)))

    def reduce(self, x, axis_node, keep_node, mean, node):
        if x.kind != "f" or x.pyint is not None:
            fail("sum/mean of a mask or of a Python integer", node)
        rank = len(x.shape)
        if rank == 0:
            fail("sum/mean of a scalar", node)
        if axis_node is None or (isinstance(axis_node, ast.Constant) and axis_node.value is None):
            axes = list(range(rank))
        else:
            axes = [self.axis_of(axis_node, rank, node)]
        keep = False
        if keep_node is not None:
            if not (isinstance(keep_node, ast.Constant) and isinstance(keep_node.value, bool)):
                fail("keepdims must be a literal boolean", node)
            keep = keep_node.value
        shape = tuple((1 if d in axes else x.shape[d]) for d in range(rank) if keep or d not in axes)
        red = [d for d in axes if x.shape[d] != 1]

        def fn(idx):
            it = iter(idx)
            full = []
            for d in range(rank):
                if d in axes:
                    if keep:
                        next(it)
                    full.append(None)
                else:
                    full.append(next(it))
            vs = {}
            for d in red:
                vs[d] = self.fresh(x.shape[d])
                full[d] = vs[d]
            t = at(x, full)
            for d in reversed(red):
                t = ("sum", x.shape[d], vs[d][1], t)
            if mean and red:
                t = ("div", t, ("ofn", tuple(x.shape[d] for d in red)))
            return t
        return Arr(shape, "f", fn)

    def maximum(self, a, b, node):
        if a.kind != "f" or b.kind != "f" or (a.pyint is not None and b.pyint is not None):
            fail("np.maximum of masks or of two Python integers", node)
        shape = broadcast(a.shape, b.shape, node)
        return Arr(shape, "f", lambda idx: ("max", at(a, tail(idx, a)), at(b, tail(idx, b))))

    def contract(self, a, b, q, ia, ib):
        """sum over j < q of a[ia(j)] * b[ib(j)] ; q == 1: the product"""
        if q == 1:
            return ("mul", at(a, ia(None)), at(b, ib(None)))
        j = self.fresh(q)
        return ("sum", q, j[1], ("mul", at(a, ia(j)), at(b, ib(j))))

    def matmul(self, a, b, node):
        if a.kind != "f" or b.kind != "f" or a.pyint is not None or b.pyint is not None:
            fail("@ on masks or Python integers", node)
        if len(a.shape) == 2 and len(b.shape) == 2:
            q = a.shape[1]
            if q != b.shape[0]:
                fail(f"@: inner dimensions {a.shape} / {b.shape} differ", node)
            return Arr((a.shape[0], b.shape[1]), "f",
                       lambda idx: self.contract(a, b, q, lambda j: [idx[0], j], lambda j: [j, idx[1]]))
        if len(a.shape) != 3 or len(b.shape) != 3:
            fail("@ is only known on two rank-2 or two rank-3 (batched) operands", node)
        batch = broadcast(a.shape[:1], b.shape[:1], node)[0]
        q = a.shape[2]
        if q != b.shape[1]:
            fail(f"@: inner dimensions {a.shape} / {b.shape} differ", node)

        def fn(idx):
            i, p, r = idx
            if q == 1:
                return ("mul", at(a, [i, p, None]), at(b, [i, None, r]))
            j = self.fresh(q)
            return ("sum", q, j[1], ("mul", at(a, [i, p, j]), at(b, [i, j, r])))
        return Arr((batch, a.shape[1], b.shape[2]), "f", fn)

    def dot(self, a, b, node):
        if a.kind != "f" or b.kind != "f" or a.pyint is not None or b.pyint is not None:
            fail("dot on masks or Python integers", node)
        ra, rb = len(a.shape), len(b.shape)
        if ra == 2 and rb == 2:
            return self.matmul(a, b, node)
        if rb == 1 and ra in (1, 2):
            q = a.shape[-1]
            if q != b.shape[0]:
                fail(f"dot: inner dimensions {a.shape} / {b.shape} differ", node)
            return Arr(a.shape[:-1], "f",
                       lambda idx: self.contract(a, b, q, lambda j: list(idx) + [j], lambda j: [j]))
        fail(f"dot of shapes {a.shape} / {b.shape} is not in the vocabulary", node)

    def diag(self, x, node):
        if x.pyint is not None or x.kind != "f":
            fail("np.diag of a mask or of a Python integer", node)
        if len(x.shape) == 2:
            d = x.shape[0]
            if d == 1 or d != x.shape[1]:
                fail(f"np.diag of a matrix of shape {x.shape}", node)
            return view_of(x, (d,), "f", lambda idx: at(x, [idx[0], idx[0]]))
        if len(x.shape) == 1 and x.shape[0] != 1:
            d = x.shape[0]
            return Arr((d, d), "f", lambda idx: ("ite", ("nateq", idx[0], idx[1]), at(x, [idx[0]]), ("n0",)))
        fail(f"np.diag of shape {x.shape}", node)

    def eye(self, d, node):
        ds = dims_of(d.pyint)
        if ds is None or len(ds) != 1:
            fail("np.eye: the size must be an entry of a shape", node)
        return Arr((ds[0], ds[0]), "f", lambda idx: ("ofbool", ("nateq", idx[0], idx[1])))

    def transpose(self, x, axes_node, node):
        rank = len(x.shape)
        if axes_node is None:
            axes = list(reversed(range(rank)))
        else:
            if not isinstance(axes_node, (ast.List, ast.Tuple)):
                fail("axes must be a literal list", node)
            axes = [self.const_int(e) for e in axes_node.elts]
            axes = [a + rank if a < 0 else a for a in axes]
        if sorted(axes) != list(range(rank)):
            fail("axes is not a permutation of the axes", node)
        shape = tuple(x.shape[axes[d]] for d in range(rank))

        def fn(idx):
            src = [None] * rank
            for d in range(rank):
                src[axes[d]] = idx[d]
            return at(x, src)
        return view_of(x, shape, x.kind, fn)

    def expand_dims(self, x, axis_node, node):
        if x.pyint is not None:
            fail("expand_dims of a Python integer", node)
        rank = len(x.shape) + 1
        a = self.axis_of(axis_node, rank, node)
        shape = x.shape[:a] + (1,) + x.shape[a:]
        return view_of(x, shape, x.kind, lambda idx: at(x, list(idx[:a]) + list(idx[a + 1:])))

    def squeeze(self, x, axis_node, node):
        if x.pyint is not None:
            fail("squeeze of a Python integer", node)
        if axis_node is None:
            if any(d != 1 for d in x.shape):
                fail(f"squeeze() of shape {x.shape}: only known when every axis is a literal 1", node)
            return view_of(x, (), x.kind, lambda idx: at(x, [None] * len(x.shape)))
        a = self.axis_of(axis_node, len(x.shape), node)
        if x.shape[a] != 1:
            fail("squeeze of an axis that is not a literal 1", node)
        shape = x.shape[:a] + x.shape[a + 1:]
        return view_of(x, shape, x.kind, lambda idx: at(x, list(idx[:a]) + [None] + list(idx[a:])))

    def repeat(self, x, reps, axis_node, node):
        a = self.axis_of(axis_node, len(x.shape), node)
        if x.shape[a] != 1:
            fail("repeat along an axis that is not a literal 1", node)
        if reps.pyint is None or reps.pyint[0] != "dim":
            fail("repeat count must be an entry of a shape", node)
        shape = x.shape[:a] + (reps.pyint[1],) + x.shape[a + 1:]
        return Arr(shape, x.kind, lambda idx: at(x, list(idx[:a]) + [None] + list(idx[a + 1:])))

    def reshape(self, x, call):
        if len(call.args) == 1 and isinstance(call.args[0], (ast.Tuple, ast.List)) and not call.keywords:
            dims = [self.const_int(e) for e in call.args[0].elts]
        elif not call.keywords:
            dims = [self.const_int(e) for e in call.args]
        else:
            fail("reshape with keywords", call)
        if len(x.shape) != 1 or x.shape[0] == 1:
            fail("reshape is only known on a vector", call)
        if dims == [-1, 1]:
            return view_of(x, (x.shape[0], 1), x.kind, lambda idx: at(x, [idx[0]]))
        if dims == [1, -1]:
            return view_of(x, (1, x.shape[0]), x.kind, lambda idx: at(x, [idx[1]]))
        fail("reshape to " + repr(dims), call)

    # ---- expressions
    def ev(self, e):
        if isinstance(e, ast.Constant):
            v = e.value
            if isinstance(v, bool) or not isinstance(v, (int, float)):
                fail("constant " + repr(v), e)
            if isinstance(v, float):
                if v == 0.5:
                    return scalar(("half",))
                if not (v.is_integer() and 0 <= v <= 4096):
                    fail(f"float literal {v!r} outside the vocabulary", e)
                m, py = int(v), None
            else:
                if not 0 <= v <= 4096:
                    fail(f"integer literal {v!r} outside the vocabulary", e)
                m, py = v, ("lit", v)
            t = ("n0",) if m == 0 else ("n1",) if m == 1 else ("n2",) if m == 2 else ("ofn", (m,))
            return scalar(t, py)
        if isinstance(e, ast.Name):
            if e.id in self.env:
                x = self.env[e.id]
                if x.pyint is not None:
                    return x
                return view_of(x, x.shape, x.kind, x.fn)          # the same memory under another handle
            fail("name " + e.id + " is not known here", e)
        if isinstance(e, ast.Attribute):
            if isinstance(e.value, ast.Name) and e.value.id == "self" and e.attr == "epsilon":
                return scalar(("eps",))
            if e.attr == "T" and not (isinstance(e.value, ast.Name) and e.value.id in ("self", "np")):
                x = self.ev(e.value)
                if x.pyint is not None or not x.shape:
                    fail(".T of a scalar", e)
                return self.transpose(x, None, e)
            fail("attribute " + ast.unparse(e), e)
        if isinstance(e, ast.Subscript):
            if isinstance(e.value, ast.Attribute) and e.value.attr == "shape":
                x = self.ev(e.value.value)
                if x.pyint is not None or not x.shape:
                    fail("shape of a scalar", e)
                a = self.axis_of(e.slice, len(x.shape), e)
                d = x.shape[a]
                if d == 1:
                    return scalar(("n1",), ("lit", 1))
                return scalar(("ofn", (d,)), ("dim", d))
            fail("subscript " + ast.unparse(e), e)
        if isinstance(e, ast.UnaryOp):
            if isinstance(e.op, ast.USub):
                return self.unary("neg", self.ev(e.operand), e)
            if isinstance(e.op, ast.UAdd):
                return self.ev(e.operand)
            fail("unary " + type(e.op).__name__, e)
        if isinstance(e, ast.BinOp):
            a, b = self.ev(e.left), self.ev(e.right)
            ops = {ast.Add: "add", ast.Sub: "sub", ast.Mult: "mul", ast.Div: "div"}
            if type(e.op) in ops:
                return self.binop(ops[type(e.op)], a, b, e)
            if isinstance(e.op, ast.BitAnd):
                return self.logic("andb", a, b, e)
            if isinstance(e.op, ast.BitOr):
                return self.logic("orb", a, b, e)
            if isinstance(e.op, ast.MatMult):
                return self.matmul(a, b, e)
            if isinstance(e.op, ast.Pow):
                ds = dims_of(a.pyint)
                if ds is None or b.pyint != ("lit", 2):
                    fail("** is only known as <shape entry> ** 2", e)
                return scalar(("ofn", ds + ds), ("prod", ds + ds))
            fail("operator " + type(e.op).__name__, e)
        if isinstance(e, ast.Compare):
            if len(e.ops) != 1:
                fail("chained comparison", e)
            return self.compare(e.ops[0], self.ev(e.left), self.ev(e.comparators[0]), e)
        if isinstance(e, ast.Call):
            return self.call(e)
        fail("expression " + type(e).__name__, e)

    def call(self, c):
        f = c.func
        if isinstance(f, ast.Name) and f.id == "len" and "len" not in self.env:
            g = self.args(c, ["x"], ["x"])
            x = self.ev(g["x"])
            if x.pyint is not None or not x.shape:
                fail("len of a scalar", c)
            d = x.shape[0]
            return scalar(("n1",), ("lit", 1)) if d == 1 else scalar(("ofn", (d,)), ("dim", d))
        if not isinstance(f, ast.Attribute):
            fail("call " + ast.unparse(f), c)
        if isinstance(f.value, ast.Name) and f.value.id == "np":
            nm = f.attr
            if nm in ("log", "sqrt", "abs", "sign", "square"):
                g = self.args(c, ["x"], ["x"])
                x = self.ev(g["x"])
                if nm == "square":
                    if x.kind != "f" or x.pyint is not None:
                        fail("square of a mask or of a Python integer", c)
                    return Arr(x.shape, "f", lambda idx: ("mul", at(x, idx), at(x, idx)))
                return self.unary({"log": "ln", "sqrt": "sqrt", "abs": "abs", "sign": "sign"}[nm], x, c)
            if nm == "clip":
                g = self.args(c, ["a", "a_min", "a_max"], ["a", "a_min", "a_max"])
                x, lo, hi = self.ev(g["a"]), self.ev(g["a_min"]), self.ev(g["a_max"])
                if lo.shape or hi.shape or lo.kind != "f" or hi.kind != "f" or x.kind != "f" or x.pyint is not None:
                    fail("clip: bounds must be scalars, the operand a float array", c)
                return Arr(x.shape, "f", lambda idx: ("clip", at(lo, []), at(hi, []), at(x, idx)))
            if nm in ("sum", "mean"):
                g = self.args(c, ["a", "axis", "keepdims"], ["a"])
                return self.reduce(self.ev(g["a"]), g.get("axis"), g.get("keepdims"), nm == "mean", c)
            if nm == "expand_dims":
                g = self.args(c, ["a", "axis"], ["a", "axis"])
                return self.expand_dims(self.ev(g["a"]), g["axis"], c)
            if nm == "repeat":
                g = self.args(c, ["a", "repeats", "axis"], ["a", "repeats", "axis"])
                return self.repeat(self.ev(g["a"]), self.ev(g["repeats"]), g["axis"], c)
            if nm == "transpose":
                g = self.args(c, ["a", "axes"], ["a"])
                return self.transpose(self.ev(g["a"]), g.get("axes"), c)
            if nm == "squeeze":
                g = self.args(c, ["a", "axis"], ["a"])
                return self.squeeze(self.ev(g["a"]), g.get("axis"), c)
            if nm == "maximum":
                g = self.args(c, ["x1", "x2"], ["x1", "x2"])
                return self.maximum(self.ev(g["x1"]), self.ev(g["x2"]), c)
            if nm == "dot":
                g = self.args(c, ["a", "b"], ["a", "b"])
                return self.dot(self.ev(g["a"]), self.ev(g["b"]), c)
            if nm == "diag":
                if len(c.args) != 1 or c.keywords:
                    fail("np.diag takes exactly one positional argument here", c)
                return self.diag(self.ev(c.args[0]), c)
            if nm == "eye":
                if len(c.args) != 1 or c.keywords:
                    fail("np.eye takes exactly one positional argument here", c)
                return self.eye(self.ev(c.args[0]), c)
            fail("np." + nm + " is not in the vocabulary", c)
        # methods of arrays
        x = self.ev(f.value)
        if x.pyint is not None:
            fail("method of a Python integer", c)
        if f.attr in ("sum", "mean"):
            g = self.args(c, ["axis", "keepdims"], [])
            return self.reduce(x, g.get("axis"), g.get("keepdims"), f.attr == "mean", c)
        if f.attr == "reshape":
            return self.reshape(x, c)
        if f.attr == "squeeze":
            g = self.args(c, ["axis"], [])
            return self.squeeze(x, g.get("axis"), c)
        if f.attr == "dot":
            g = self.args(c, ["b"], ["b"])
            return self.dot(x, self.ev(g["b"]), c)
        fail("method ." + f.attr + " is not in the vocabulary", c)

    # ---- statements
    def bind(self, name, v, node):
        if not re.fullmatch(r"[A-Za-z][A-Za-z0-9_]*", name) or re.fullmatch(r"[ik]\d+", name) \
                or re.fullmatch(r".*_v\d+", name) or re.fullmatch(r".*_py", name) or name in ("self", "np", "len"):
            fail("variable name " + name + " collides with the generated vocabulary", node)
        if v.pyint is not None:
            self.env[name] = v
            return
        base = name + "_py" if name in RESERVED else name
        uid, c = base, 1
        while uid in self.used:
            c += 1
            uid = f"{base}_v{c}"
        self.used.add(uid)
        params = [(self.fresh(d), d) for d in v.shape if d != 1]
        it = iter(p for p, _ in params)
        term = at(v, [None if d == 1 else next(it) for d in v.shape])
        self.lets.append((uid, [(p[1], d) for p, d in params], v.kind, term))
        shape = v.shape

        def fn(idx, uid=uid, shape=shape):
            return ("app", uid, tuple(ix for d, ix in zip(shape, idx) if d != 1))
        if v.root is not None and v.root is not INPUT:
            v.root.viewed = True                       # a view of v.root now lives in the variable `name`
        self.env[name] = Arr(shape, v.kind, fn, None, v.root)

    def inplace_target(self, name, node):
        cur = self.env.get(name)
        if cur is None or cur.pyint is not None or cur.kind != "f" or not cur.shape:
            fail("in-place update of something that is not a float array variable", node)
        if cur.root is not None or cur.viewed:
            fail("in-place update of an array that may share memory with an input or with another variable", node)
        return cur

    def mask_assign(self, s):
        tgt = s.targets[0]
        if not isinstance(tgt.value, ast.Name):
            fail("subscript assignment target", s)
        cur = self.inplace_target(tgt.value.id, s)
        val = self.ev(s.value)
        if val.shape or val.kind != "f":
            fail("mask assignment: the assigned value must be a float scalar", s)
        rank = len(cur.shape)
        sl = tgt.slice
        if isinstance(sl, ast.Tuple):
            if len(sl.elts) != rank:
                fail("mask assignment: one subscript per axis expected", s)
            where = None
            for a, el in enumerate(sl.elts):
                if isinstance(el, ast.Slice):
                    if el.lower is not None or el.upper is not None or el.step is not None:
                        fail("mask assignment: only the full slice `:` is known", s)
                    continue
                if where is not None:
                    fail("mask assignment: more than one mask subscript", s)
                m = self.ev(el)
                if m.kind != "b" or cur.shape[a] == 1 or m.shape != (cur.shape[a],):
                    fail("mask assignment: the subscript must be a mask over that axis", s)
                where = (a, m)
            if where is None:
                fail("mask assignment without a mask", s)
            a, m = where
            new = Arr(cur.shape, "f", lambda idx: ("ite", at(m, [idx[a]]), at(val, []), at(cur, idx)))
        else:
            m = self.ev(sl)
            if m.kind != "b" or m.shape != cur.shape:
                fail("mask assignment: the mask must have the shape of the array", s)
            new = Arr(cur.shape, "f", lambda idx: ("ite", at(m, idx), at(val, []), at(cur, idx)))
        self.bind(tgt.value.id, new, s)

    def test(self, e):
        if isinstance(e, ast.UnaryOp) and isinstance(e.op, ast.Not):
            return not self.test(e.operand)
        if isinstance(e, ast.Attribute) and isinstance(e.value, ast.Name) and e.value.id == "self" and e.attr == "ovo":
            return self.flags["ovo"]
        if isinstance(e, ast.Name) and e.id == "return_grad":
            return self.flags["return_grad"]
        fail("`if` test outside the vocabulary: " + ast.unparse(e), e)

    def run(self, stmts):
        """returns True when a return statement was executed"""
        for s in stmts:
            if isinstance(s, ast.Expr) and isinstance(s.value, ast.Constant) and isinstance(s.value.value, str):
                continue
            if isinstance(s, ast.Assign) and len(s.targets) == 1 and isinstance(s.targets[0], ast.Subscript):
                self.mask_assign(s)
                continue
            if isinstance(s, ast.Assign):
                if len(s.targets) != 1 or not isinstance(s.targets[0], ast.Name):
                    fail("assignment target", s)
                self.bind(s.targets[0].id, self.ev(s.value), s)
                continue
            if isinstance(s, ast.AugAssign):
                if not isinstance(s.target, ast.Name) or s.target.id not in self.env:
                    fail("augmented assignment target", s)
                ops = {ast.Add: "add", ast.Sub: "sub", ast.Mult: "mul", ast.Div: "div"}
                if type(s.op) not in ops:
                    fail("augmented operator " + type(s.op).__name__, s)
                cur = self.inplace_target(s.target.id, s)
                new = self.binop(ops[type(s.op)], cur, self.ev(s.value), s)
                if new.shape != cur.shape:
                    fail("in-place update changes the shape", s)
                self.bind(s.target.id, new, s)
                continue
            if isinstance(s, ast.If):
                if self.run(s.body if self.test(s.test) else s.orelse):
                    return True
                continue
            if isinstance(s, ast.Return):
                if s.value is None:
                    fail("bare return", s)
                if self.flags["return_grad"]:
                    if not isinstance(s.value, ast.Tuple) or len(s.value.elts) != 2:
                        fail("return_grad=True must return (score, gradient)", s)
                    sc, gr = self.ev(s.value.elts[0]), self.ev(s.value.elts[1])
                    if gr.shape != ("n", "K") or gr.kind != "f":
                        fail(f"gradient has shape {gr.shape}, expected (n, K)", s)
                else:
                    if isinstance(s.value, ast.Tuple):
                        fail("return_grad=False must return the score alone", s)
                    sc, gr = self.ev(s.value), None
                if sc.shape != () or sc.kind != "f" or sc.pyint is not None:
                    fail(f"score has shape {sc.shape}, expected a float scalar", s)
                self.result = (sc, gr)
                return True
            fail("statement " + type(s).__name__, s)
        return False


def interpret(fn, ovo, grad):
    it = Interp(ovo, grad)
    it.env["y_pred"] = Arr(("n", "K"), "f", lambda idx: ("Y", idx[0], idx[1]), None, INPUT)
    it.env["affinity"] = Arr(("n", "n"), "f", lambda idx: ("A", idx[0], idx[1]), None, INPUT)
    if not it.run(fn.body) or it.result is None:
        fail("evaluate falls off its end without returning", fn)
    sc, gr = it.result
    if grad:
        return it.lets, at(sc, []), at(gr, [("ix", "i"), ("ix", "k")])
    return it.lets, at(sc, []), None


# ------------------------------------------------------------------------------------------- rendering
def refs(t, acc):
    if isinstance(t, tuple):
        if t and t[0] == "app":
            acc.add(t[1])
        for x in t:
            refs(x, acc)
    return acc


def prune(lets, result):
    need = refs(result, set())
    keep = []
    for uid, params, kind, term in reversed(lets):
        if uid in need:
            keep.append((uid, params, kind, term))
            refs(term, need)
    return list(reversed(keep))


def dimtxt(d):
    return str(d)


BIN_COQ = {"add": "nadd", "sub": "nsub", "mul": "nmul", "div": "ndiv"}
UN_COQ = {"ln": "nln", "sqrt": "nsqrt", "abs": "nabs", "sign": "nsign", "neg": "nneg"}


def coq(t):
    k = t[0]
    if k == "ix":
        return t[1]
    if k in ("Y", "A"):
        return f"({k} {coq(t[1])} {coq(t[2])})"
    if k == "eps":
        return "eps"
    if k in ("n0", "n1", "n2"):
        return f"({k} o)"
    if k == "half":
        return "(ndiv o (n1 o) (n2 o))"
    if k == "ofn":
        ds = t[1]
        return f"(nofnat o {dimtxt(ds[0])})" if len(ds) == 1 else "(nofnat o (" + " * ".join(dimtxt(d) for d in ds) + "))"
    if k in BIN_COQ:
        return f"({BIN_COQ[k]} o {coq(t[1])} {coq(t[2])})"
    if k in UN_COQ:
        return f"({UN_COQ[k]} o {coq(t[1])})"
    if k == "clip":
        return f"(nclip o {coq(t[1])} {coq(t[2])} {coq(t[3])})"
    if k == "max":
        return f"(nmax o {coq(t[1])} {coq(t[2])})"
    if k == "ite":
        return f"(if {coq(t[1])} then {coq(t[2])} else {coq(t[3])})"
    if k == "eqb":
        return f"(neqb o {coq(t[1])} {coq(t[2])})"
    if k == "nateq":
        return f"(Nat.eqb {coq(t[1])} {coq(t[2])})"
    if k == "sum":
        return f"(bsum o {dimtxt(t[1])} (fun {t[2]} : nat => {coq(t[3])}))"
    if k == "ofbool":
        return f"(if {coq(t[1])} then n1 o else n0 o)"
    if k == "ltb":
        return f"(nltb o {coq(t[1])} {coq(t[2])})"
    if k == "leb":
        return f"(nleb o {coq(t[1])} {coq(t[2])})"
    if k in ("andb", "orb"):
        return f"({k} {coq(t[1])} {coq(t[2])})"
    if k == "app":
        return t[1] if not t[2] else "(" + t[1] + " " + " ".join(coq(x) for x in t[2]) + ")"
    raise Fail("internal: term " + repr(k))


BIN_PY = {"add": "+", "sub": "-", "mul": "*"}
UN_PY = {"ln": "_ln", "sqrt": "_sqrt", "abs": "abs", "sign": "_sign"}


def py(t):
    k = t[0]
    if k == "ix":
        return t[1]
    if k in ("Y", "A"):
        return f"{k}({py(t[1])}, {py(t[2])})"
    if k == "eps":
        return "eps"
    if k == "n0":
        return "0.0"
    if k == "n1":
        return "1.0"
    if k == "n2":
        return "(1.0 + 1.0)"
    if k == "half":
        return "(1.0 / (1.0 + 1.0))"
    if k == "ofn":
        return "float(" + " * ".join(dimtxt(d) for d in t[1]) + ")"
    if k in BIN_PY:
        return f"({py(t[1])} {BIN_PY[k]} {py(t[2])})"
    if k == "div":
        return f"_div({py(t[1])}, {py(t[2])})"
    if k == "neg":
        return f"(0.0 - {py(t[1])})"
    if k in UN_PY:
        return f"{UN_PY[k]}({py(t[1])})"
    if k == "clip":
        return f"_clip({py(t[1])}, {py(t[2])}, {py(t[3])})"
    if k == "max":
        return f"_max({py(t[1])}, {py(t[2])})"
    if k == "ite":
        return f"({py(t[2])} if {py(t[1])} else {py(t[3])})"
    if k in ("eqb", "nateq"):
        return f"({py(t[1])} == {py(t[2])})"
    if k == "sum":
        return f"_bsum({dimtxt(t[1])}, lambda {t[2]}: {py(t[3])})"
    if k == "ofbool":
        return f"(1.0 if {py(t[1])} else 0.0)"
    if k == "ltb":
        return f"({py(t[1])} < {py(t[2])})"
    if k == "leb":
        return f"({py(t[1])} <= {py(t[2])})"
    if k == "andb":
        return f"({py(t[1])} and {py(t[2])})"
    if k == "orb":
        return f"({py(t[1])} or {py(t[2])})"
    if k == "app":
        return t[1] if not t[2] else t[1] + "(" + ", ".join(py(x) for x in t[2]) + ")"
    raise Fail("internal: term " + repr(k))


PY_PRELUDE = '''# GENERATED by translator/tr_geom.py --python : the symbolic terms of coq/Gen/Geom.v as plain Python.
# Number system = IEEE double; _bsum is the left fold of Common/Num.v; _clip/_sign are nclip/nsign.
import math
_inf, _nan = float("inf"), float("nan")
def _bsum(n, f):
    s = 0.0
    for j in range(n):
        s = s + f(j)
    return s
def _div(a, b):
    try:
        return a / b
    except ZeroDivisionError:
        return _nan if (a == 0.0 or a != a) else (_inf if (a > 0.0) == (math.copysign(1.0, b) > 0.0) else -_inf)
def _ln(x):
    return math.log(x) if x > 0.0 else (-_inf if x == 0.0 else _nan)
def _sqrt(x):
    return math.sqrt(x) if x >= 0.0 else _nan
def _max(a, b):      # nmax a b = if a < b then b else a
    return b if a < b else a
def _min(a, b):      # nmin a b = if b < a then b else a
    return b if b < a else a
def _clip(lo, hi, x):
    return _min(_max(x, lo), hi)
def _sign(x):
    return 1.0 if 0.0 < x else ((0.0 - 1.0) if x < 0.0 else 0.0)
'''


def render_coq(name, lets, result, grad):
    sig = f"Definition {name} {{T : Type}} (o : NumOps T) (eps : T) (n K : nat) (Y A : nat -> nat -> T)"
    sig += " (i k : nat) : T :=" if grad else " : T :="
    lines = [sig]
    for uid, params, kind, term in prune(lets, result):
        if params:
            ps = " ".join(f"({p} : nat)" for p, _ in params)
            lines.append(f"  let {uid} := fun {ps} => {coq(term)} in")
        else:
            lines.append(f"  let {uid} := {coq(term)} in")
    lines.append(f"  {coq(result)}.")
    return "\n".join(lines)


def render_py(name, lets, result, grad):
    lines = [f"def {name}(eps, n, K, Y, A" + (", i, k" if grad else "") + "):"]
    for uid, params, kind, term in prune(lets, result):
        if params:
            lines.append(f"    {uid} = lambda {', '.join(p for p, _ in params)}: {py(term)}")
        else:
            lines.append(f"    {uid} = {py(term)}")
    lines.append(f"    return {py(result)}")
    return "\n".join(lines)


# ------------------------------------------------------------------------------------------- driver
def find_evaluate(tree, cls):
    cs = [n for n in tree.body if isinstance(n, ast.ClassDef) and n.name == cls]
    if len(cs) != 1:
        fail(f"class {cls} not found exactly once")
    fs = [n for n in cs[0].body if isinstance(n, ast.FunctionDef) and n.name == "evaluate"]
    if len(fs) != 1:
        fail(f"{cls}.evaluate not found exactly once")
    fn = fs[0]
    a = fn.args
    if fn.decorator_list or a.vararg or a.kwarg or a.kwonlyargs or a.posonlyargs \
            or [x.arg for x in a.args] != ["self", "y_pred", "affinity", "return_grad"] \
            or len(a.defaults) != 1 or not (isinstance(a.defaults[0], ast.Constant) and a.defaults[0].value is False):
        fail(f"{cls}.evaluate: signature is not (self, y_pred, affinity, return_grad=False)", fn)
    for n in ast.walk(fn):
        if isinstance(n, (ast.Lambda, ast.FunctionDef, ast.AsyncFunctionDef, ast.ClassDef, ast.Global, ast.Nonlocal)) \
                and n is not fn:
            fail("nested scope in evaluate", n)
    return fn


def translate():
    raw = open(SRC, "rb").read()
    tree = ast.parse(raw.decode("utf-8"))
    digest = hashlib.sha256(raw).hexdigest()
    coq_defs, py_defs, ranges = [], [], []
    for short, cls in CLASSES:
        fn = find_evaluate(tree, cls)
        ranges.append(f"{cls}.evaluate lines {fn.lineno}-{fn.end_lineno}")
        for ovo in (False, True):
            suffix = "ovo" if ovo else "ova"
            lets0, score0, _ = interpret(fn, ovo, False)
            lets1, score1, grad1 = interpret(fn, ovo, True)
            for what, nm, lets, res, g in (
                    ("return_grad = False : the score", "score", lets0, score0, False),
                    ("return_grad = True : the score (first component)", "gscore", lets1, score1, False),
                    ("return_grad = True : entry [i, k] of the gradient (second component)", "grad", lets1, grad1, True)):
                coq_defs.append(f"(* {cls}.evaluate, self.ovo = {ovo}, {what} *)\n"
                                + render_coq(f"gen_{short}_{nm}_{suffix}", lets, res, g))
                py_defs.append(render_py(f"gen_{short}_{nm}_{suffix}", lets, res, g))
    head = ["(* GENERATED by translator/tr_geom.py - do not edit.",
            "   Source: gemclus/gemini/_geomdistances.py  sha256 " + digest]
    head += ["   " + r for r in ranges]
    head += ["   Symbolic, shape-aware translation of the numpy code of MMDGEMINI.evaluate (y_pred = Y : (n, K),",
             "   affinity = A : (n, n), self.epsilon = eps), one definition per value of self.ovo and per returned",
             "   component; every assigned Python variable is a `let` (a name that collides with an argument gets the",
             "   suffix _py), arrays are functions of their non-unit indices, the arithmetic keeps the grouping of the",
             "   source; the Python integer N ** 2 is nofnat o (n * n).  Compared with the hand-written Model/Gemini.v",
             "   in Proofs/GeomGen.v. *)",
             "From GV Require Import Common.Num.", ""]
    coq_text = "\n".join(head) + "\n" + "\n\n".join(coq_defs) + "\n"
    py_text = PY_PRELUDE + "\n" + "\n\n".join(py_defs) + "\n"
    return coq_text, py_text


def main():
    argv = sys.argv[1:]
    if argv not in ([], ["--python"]):
        die("usage: tr_geom.py [--python]")
    try:
        coq_text, py_text = translate()
    except Fail as e:
        die(str(e))
    except Exception as e:  # noqa  (anything unexpected is a failure to translate, never a partial output)
        die(f"{type(e).__name__}: {e}")
    if argv == ["--python"]:
        sys.stdout.write(py_text)
        return
    os.makedirs(os.path.dirname(OUT), exist_ok=True)
    if not os.path.exists(OUT) or open(OUT).read() != coq_text:
        open(OUT, "w").write(coq_text)
        print("tr_geom: wrote", OUT)
        # build.sh reports BUILD-FAIL only for a MISSING .vo: remove the compiled equality proofs so that a failing
        # re-compilation against the new text cannot hide behind the stale object of the previous text
        for ext in (".vo", ".vos", ".vok", ".glob"):
            stale = os.path.join(ROOT, "coq", "Proofs", "GeomGen" + ext)
            if os.path.exists(stale):
                os.remove(stale)
    else:
        print("tr_geom: unchanged", OUT)


if __name__ == "__main__":
    main()
