#!/usr/bin/env python3
"""Fail-closed symbolic translator:  gemclus/sparse/_prox_grad.py  ->  coq/Gen/ProxGen.v

All five functions of the module are translated WHOLE into Gallina definitions over `NumOps T`:

  soft_threshold(threshold, x)            -> gen_soft_threshold    (scalar; calls to it are elementwise)
  linear_prox_grad(W, alpha)              -> gen_linear_prox_row   (one row of W)    + gen_linear_prox
  mlp_prox_grad(W_skip_, W1_, alpha, M)   -> gen_mlp_prox_row      (one row pair)    + gen_mlp_prox
  group_linear_prox_grad(groups, W, alpha)          -> gen_group_linear_prox
  group_mlp_prox_grad(groups, W_skip, W1, alpha, M) -> gen_group_mlp_prox

Row mode (the three numpy functions).  The straight-line code is interpreted symbolically over abstract arrays of
shape (batch, d) / (batch, 1) / (1, d) / scalar, with symbolic column dimensions.  Every operation of the
vocabulary acts on each row separately (elementwise with broadcasting, or along axis=1 with keepdims), so an
array of shape (batch, d) is represented by the Gallina list of ONE generic row and an array of shape (batch, 1)
by one number; the matrix function is the row function mapped over the rows (that frame is emitted by this
translator and is justified by the vocabulary: nothing in it mixes rows).  Elementwise expressions are fused inside
one Python expression and become one `map` (over `combine` for two list operands); every assigned Python
variable becomes a `let`.  The grouping of the arithmetic is the grouping of the source.  Operations along the
row are the named list operations of Model/Prox.v / Common/Num.v:
  np.sort(x, axis=1)             sort_asc o x          np.sort(x, axis=1)[:, ::-1]   sort_desc o x   (idiom)
  x[:, ::-1]                     rev x                 np.cumsum(x, axis=1)          np_cumsum o x
  np.concatenate([a, b], axis=1) a ++ b  (t :: b / a ++ [t] for a (batch, 1) piece t)
  np.arange(k + c).reshape((1,-1))  map (nofnat o) (seq 0 (S^c k))     np.zeros((batch, 1))   n0 o
  np.linalg.norm(x, [ord=2,] axis=1, keepdims=True)   norm2 o x
  np.sum(mask, axis=1, keepdims=True)                  count_true mask
  np.take_along_axis(x, idx, axis=1)[.reshape((batch, 1))]   nth idx x (n0 o)   (numpy raises when idx is out of range)
Scalars: a > b is nltb o b a, a >= b is nleb o b a, a == b is neqb o a b, np.maximum/np.minimum are nmax/nmin,
np.where(c, a, b) is `if c then a else b`, np.abs nabs, np.sign nsign, -x is nneg o x, x ** 2 is x * x,
literals 0 and 1 are n0 o / n1 o, other small non-negative integers nofnat o k.

Group mode (the two wrappers).  Expected statements: `X = np.empty(Y.shape)` (accumulators), one `for g in groups:`
whose body consists of `a = Y[g]` (gather; IndexError iff an index >= len(Y): the guard `group_ok`),
`r = f(a.reshape((1, -1)), ..., scalars)` with f one of the two numpy functions above applied to one flattened
row, `X[g] = r.reshape(a.shape)` (unflatten + scatter), and `return X` / `return X1, X2`.  The loop becomes a
`fold_left` over `groups`; the result is `None` when a guard fails (the IndexError), as in Model/Prox.v.

Anything outside this vocabulary aborts with a non-zero exit status WITHOUT writing (the build prints
TRANSLATOR-FAIL and the C05 check then relies on the correspondence).  When the text changes the compiled objects of
Proofs/ProxTie.v and Props/C05gen.v are removed so that the build must re-prove the equalities with Model/Prox.v.
"""
import ast
import hashlib
import os
import sys

ROOT = os.path.dirname(os.path.dirname(os.path.abspath(__file__)))
REPO = os.environ.get("VERIF_REPO", "/repo")
SRC = os.path.join(REPO, "gemclus", "sparse", "_prox_grad.py")
OUT = os.path.join(ROOT, "coq", "Gen", "ProxGen.v")
DEPENDENTS = ["Proofs/ProxTie", "Props/C05gen"]

RESERVED = set("""o T e_ p_ row_ acc_ r_ g n0 n1 n2 nadd nsub nmul ndiv nsqrt nln nexp nabs nltb nleb neqb nofnat nmax nmin
 nneg nsign bsum lsum norm2 nclip map combine seq nth rev fst snd length repeat fold_left forallb andb orb negb nat bool
 true false fun let in if then else match with end forall exists return as at fix cofix for using where Prop Set Type
 mod IF Definition Lemma Theorem Proof Qed Some None option list S O app concat firstn skipn
 sort_desc sort_asc np_cumsum cumsum_acc count_true gather flatten unflatten scatter set_nth ncols group_ok
 soft_threshold linear_prox_row linear_prox hier_prox_row mlp_prox group_linear_prox group_mlp_prox
 gen_soft_threshold gen_linear_prox_row gen_linear_prox gen_mlp_prox_row gen_mlp_prox gen_group_linear_prox
 gen_group_mlp_prox""".split())


class Fail(Exception):
    pass


def fail(msg, node=None):
    where = f" (line {getattr(node, 'lineno', '?')})" if node is not None else ""
    raise Fail(msg + where)


def die(msg):
    sys.stderr.write("tr_prox: FAIL-CLOSED: " + msg + "\n")
    sys.exit(2)


def check_name(name, node):
    if not name.isidentifier() or not name.isascii() or name in RESERVED or name.startswith("gen_"):
        fail("variable name " + name + " collides with the generated vocabulary", node)


# ------------------------------------------------------------------------------------------- row mode values
class Arr:
    """abstract array.  b: 'B' (one entry per row of the batch) or 1;  d: 1 or a symbolic column dimension
    (base, offset);  kind: 'f' float, 'b' mask, 'i' integer.  d == 1: body([]) is the term of the single entry;
    otherwise srcs are Gallina list terms (strings) zipped position by position and body(vars) the entry term.
    py: ('lit', k) for a Python integer literal, ('dim', d) / ('batch',) for an entry of a .shape.
    asc_of: when the array is exactly np.sort(<list term>, axis=1), that list term."""

    def __init__(self, b, d, kind, srcs, body, py=None, asc_of=None):
        self.b, self.d, self.kind, self.srcs, self.body, self.py, self.asc_of = b, d, kind, list(srcs), body, py, asc_of


def scalar(term, kind="f", py=None, b=1):
    return Arr(b, 1, kind, [], lambda vs: term, py)


def listarr(b, d, kind, term, asc_of=None):
    return Arr(b, d, kind, [term], lambda vs: vs[0], asc_of=asc_of)


def bcast(x, y, node):
    b = "B" if "B" in (x.b, y.b) else 1
    if x.d == 1:
        d = y.d
    elif y.d == 1 or x.d == y.d:
        d = x.d
    else:
        fail(f"column dimensions {x.d} and {y.d} do not broadcast", node)
    return b, d


def merge(parts):
    """zip the sources of several arrays (identical source terms are shared); returns (srcs, [reader per part])"""
    srcs, readers = [], []
    for a in parts:
        pos = []
        for s in a.srcs:
            if s not in srcs:
                srcs.append(s)
            pos.append(srcs.index(s))
        readers.append(lambda vs, a=a, pos=pos: a.body([vs[i] for i in pos]))
    return srcs, readers


def ewise(parts, kind, f, node):
    """elementwise combination of arrays: f(list of entry terms) -> entry term"""
    b, d = parts[0].b, parts[0].d
    for a in parts[1:]:
        b, d = bcast(Arr(b, d, "f", [], None), a, node)
    srcs, readers = merge(parts)
    return Arr(b, d, kind, srcs, lambda vs: f([r(vs) for r in readers]))


def materialise(a, node):
    """Gallina term of type list (the generic row) for an array with a non-unit column dimension"""
    if a.d == 1:
        fail("internal: materialise of a unit column", node)
    if len(a.srcs) == 1:
        probe = a.body(["\0"])
        if probe == "\0":
            return a.srcs[0]
        return f"map (fun e_ => {a.body(['e_'])}) {par(a.srcs[0])}"
    if len(a.srcs) == 2:
        return f"map (fun p_ => {a.body(['(fst p_)', '(snd p_)'])}) (combine {par(a.srcs[0])} {par(a.srcs[1])})"
    fail(f"an elementwise expression over {len(a.srcs)} different arrays is outside the vocabulary", node)


def entry(a, node):
    if a.d != 1:
        fail("a (batch, 1) or scalar value is expected here", node)
    return a.body([])


def dim_nat(d, env_dims, node):
    """nat term of a symbolic dimension, using the Python variable that holds its base"""
    base, off = d
    if base not in env_dims:
        fail("this dimension is not held by a Python variable", node)
    t = env_dims[base]
    for _ in range(off):
        t = f"S ({t})" if " " in t else f"S {t}"
    return t


def lit_term(v, node):
    if isinstance(v, bool) or not isinstance(v, (int, float)):
        fail("constant " + repr(v), node)
    if isinstance(v, float) and not v.is_integer():
        fail(f"float literal {v!r} outside the vocabulary", node)
    k = int(v)
    if not 0 <= k <= 4096:
        fail(f"literal {v!r} outside the vocabulary", node)
    return "n0 o" if k == 0 else "n1 o" if k == 1 else f"nofnat o {k}"


def par(t):
    if all(c.isalnum() or c == "_" for c in t):
        return t
    if t.startswith("(") and t.endswith(")"):
        depth = 0
        for i, c in enumerate(t):
            depth += (c == "(") - (c == ")")
            if depth == 0 and i < len(t) - 1:
                break
        else:
            return t
    return "(" + t + ")"


class RowInterp:
    """symbolic execution of one numpy function on the generic row"""

    def __init__(self, fname, params, funcs):
        self.fname, self.funcs = fname, funcs
        self.env, self.lets, self.used, self.dimvars, self.dim_src = {}, [], set(), {}, {}
        for name, val in params:
            self.env[name] = val
            self.used.add(name)
        self.result = None

    # ---- argument helpers
    def kwargs(self, call, names, required, skip=0):
        got, pos = {}, call.args[skip:]
        if len(pos) > len(names) or any(isinstance(a, ast.Starred) for a in pos):
            fail("positional arguments outside the vocabulary", call)
        for nm, a in zip(names, pos):
            got[nm] = a
        for kw in call.keywords:
            if kw.arg is None or kw.arg not in names or kw.arg in got:
                fail(f"keyword {kw.arg!r} not in the vocabulary of this call", call)
            got[kw.arg] = kw.value
        for nm in required:
            if nm not in got:
                fail(f"argument {nm} missing", call)
        return got

    def const(self, e, want):
        if not isinstance(e, ast.Constant):
            return False
        if isinstance(want, bool):
            return e.value is want
        return isinstance(e.value, (int, float)) and not isinstance(e.value, bool) and e.value == want

    def need_axis1(self, g, call, keep):
        if "axis" not in g or not self.const(g["axis"], 1):
            fail("axis=1 is required (the only axis of the row-wise vocabulary)", call)
        if keep and ("keepdims" not in g or not self.const(g["keepdims"], True)):
            fail("keepdims=True is required", call)

    def need_row_list(self, x, node):
        if x.b != "B" or x.d == 1 or x.py is not None:
            fail("a (batch, d) array is expected here", node)

    # ---- expressions
    def ev(self, e):
        if isinstance(e, ast.Constant):
            v = e.value
            t = lit_term(v, e)
            return scalar(t, py=("lit", v) if isinstance(v, int) else ("flit", v))
        if isinstance(e, ast.Name):
            if e.id in self.env:
                return self.env[e.id]
            fail("name " + e.id + " is not known here", e)
        if isinstance(e, ast.UnaryOp):
            if isinstance(e.op, ast.USub):
                x = self.ev(e.operand)
                if x.kind != "f":
                    fail("negation of a mask / integer", e)
                return ewise([x], "f", lambda ts: f"nneg o {par(ts[0])}", e)
            if isinstance(e.op, ast.UAdd):
                return self.ev(e.operand)
            fail("unary " + type(e.op).__name__, e)
        if isinstance(e, ast.BinOp):
            ops = {ast.Add: "nadd", ast.Sub: "nsub", ast.Mult: "nmul", ast.Div: "ndiv"}
            if isinstance(e.op, ast.Pow):
                if not self.const(e.right, 2):
                    fail("** is only known with the literal exponent 2", e)
                x = self.ev(e.left)
                if x.kind != "f" or x.py is not None:
                    fail("square of a mask / integer", e)
                return ewise([x], "f", lambda ts: f"nmul o {par(ts[0])} {par(ts[0])}", e)
            if type(e.op) not in ops:
                fail("operator " + type(e.op).__name__, e)
            a, b = self.ev(e.left), self.ev(e.right)
            for x in (a, b):
                if x.kind != "f" or (x.py is not None and x.py[0] in ("dim", "batch")):
                    fail("arithmetic on a mask, an integer array or a shape entry", e)
            op = ops[type(e.op)]
            return ewise([a, b], "f", lambda ts: f"{op} o {par(ts[0])} {par(ts[1])}", e)
        if isinstance(e, ast.Compare):
            if len(e.ops) != 1:
                fail("chained comparison", e)
            a, b = self.ev(e.left), self.ev(e.comparators[0])
            if a.kind != "f" or b.kind != "f":
                fail("comparison of masks / integers", e)
            op = e.ops[0]
            if isinstance(op, ast.Gt):
                f = lambda ts: f"nltb o {par(ts[1])} {par(ts[0])}"
            elif isinstance(op, ast.Lt):
                f = lambda ts: f"nltb o {par(ts[0])} {par(ts[1])}"
            elif isinstance(op, ast.GtE):
                f = lambda ts: f"nleb o {par(ts[1])} {par(ts[0])}"
            elif isinstance(op, ast.LtE):
                f = lambda ts: f"nleb o {par(ts[0])} {par(ts[1])}"
            elif isinstance(op, ast.Eq):
                f = lambda ts: f"neqb o {par(ts[0])} {par(ts[1])}"
            else:
                fail("comparison " + type(op).__name__, e)
            return ewise([a, b], "b", f, e)
        if isinstance(e, ast.Subscript):
            return self.subscript(e)
        if isinstance(e, ast.Call):
            return self.call(e)
        fail("expression " + type(e).__name__, e)

    def subscript(self, e):
        sl = e.slice
        full = lambda s: isinstance(s, ast.Slice) and s.lower is None and s.upper is None and s.step is None
        rev = lambda s: isinstance(s, ast.Slice) and s.lower is None and s.upper is None and s.step is not None \
            and isinstance(s.step, ast.UnaryOp) and isinstance(s.step.op, ast.USub) and self.const(s.step.operand, 1)
        if isinstance(sl, ast.Tuple) and len(sl.elts) == 2 and full(sl.elts[0]) and rev(sl.elts[1]):
            x = self.ev(e.value)
            self.need_row_list(x, e)
            if x.asc_of is not None:
                return listarr("B", x.d, x.kind, f"sort_desc o {par(x.asc_of)}")
            return listarr("B", x.d, x.kind, f"rev {par(materialise(x, e))}")
        fail("subscript " + ast.unparse(e) + " is outside the vocabulary", e)

    def shape_of(self, e):
        """(batch entry, column entry) of <array>.shape"""
        if not (isinstance(e, ast.Attribute) and e.attr == "shape"):
            fail("`.shape` expected", e)
        x = self.ev(e.value)
        self.need_row_list(x, e)
        return scalar("batch", "i", ("batch",)), scalar(None, "i", ("dim", x.d))

    def call(self, c):
        f = c.func
        if isinstance(f, ast.Name):
            if f.id == "soft_threshold" and "soft_threshold" in self.funcs and self.fname != "soft_threshold":
                g = self.kwargs(c, ["threshold", "x"], ["threshold", "x"])
                a, b = self.ev(g["threshold"]), self.ev(g["x"])
                if a.kind != "f" or b.kind != "f":
                    fail("soft_threshold of a mask / integer", c)
                return ewise([a, b], "f", lambda ts: f"gen_soft_threshold o {par(ts[0])} {par(ts[1])}", c)
            fail("call of " + f.id + " is outside the vocabulary", c)
        if not isinstance(f, ast.Attribute):
            fail("call " + ast.unparse(f), c)
        path = ast.unparse(f)
        if path in ("np.abs", "np.sign"):
            x = self.ev(self.kwargs(c, ["x"], ["x"])["x"])
            if x.kind != "f" or x.py is not None and x.py[0] in ("dim", "batch"):
                fail(path + " of a mask / integer", c)
            op = {"np.abs": "nabs", "np.sign": "nsign"}[path]
            return ewise([x], "f", lambda ts: f"{op} o {par(ts[0])}", c)
        if path in ("np.maximum", "np.minimum"):
            g = self.kwargs(c, ["x1", "x2"], ["x1", "x2"])
            a, b = self.ev(g["x1"]), self.ev(g["x2"])
            if a.kind != "f" or b.kind != "f":
                fail(path + " of masks / integers", c)
            op = {"np.maximum": "nmax", "np.minimum": "nmin"}[path]
            return ewise([a, b], "f", lambda ts: f"{op} o {par(ts[0])} {par(ts[1])}", c)
        if path == "np.where":
            g = self.kwargs(c, ["condition", "x", "y"], ["condition", "x", "y"])
            m, a, b = self.ev(g["condition"]), self.ev(g["x"]), self.ev(g["y"])
            if m.kind != "b" or a.kind != "f" or b.kind != "f":
                fail("np.where(mask, float, float) expected", c)
            return ewise([m, a, b], "f", lambda ts: f"if {ts[0]} then {ts[1]} else {ts[2]}", c)
        if path == "np.sort":
            g = self.kwargs(c, ["a", "axis"], ["a", "axis"])
            self.need_axis1(g, c, False)
            x = self.ev(g["a"])
            self.need_row_list(x, c)
            if x.kind != "f":
                fail("np.sort of a mask / integer array", c)
            src = materialise(x, c)
            return listarr("B", x.d, "f", f"sort_asc o {par(src)}", asc_of=src)
        if path == "np.cumsum":
            g = self.kwargs(c, ["a", "axis"], ["a", "axis"])
            self.need_axis1(g, c, False)
            x = self.ev(g["a"])
            self.need_row_list(x, c)
            if x.kind != "f":
                fail("np.cumsum of a mask / integer array", c)
            return listarr("B", x.d, "f", f"np_cumsum o {par(materialise(x, c))}")
        if path == "np.concatenate":
            g = self.kwargs(c, ["arrays", "axis"], ["arrays", "axis"])
            self.need_axis1(g, c, False)
            if not isinstance(g["arrays"], (ast.List, ast.Tuple)) or len(g["arrays"].elts) != 2:
                fail("np.concatenate of a literal list of two arrays expected", c)
            a, b = (self.ev(x) for x in g["arrays"].elts)
            for x in (a, b):
                if x.b != "B" or x.kind != "f" or x.py is not None:
                    fail("np.concatenate of (batch, .) float arrays expected", c)
            if a.d == 1 and b.d != 1:
                return listarr("B", (b.d[0], b.d[1] + 1), "f", f"{par(entry(a, c))} :: {par(materialise(b, c))}")
            if a.d != 1 and b.d == 1:
                return listarr("B", (a.d[0], a.d[1] + 1), "f", f"{par(materialise(a, c))} ++ [{entry(b, c)}]")
            fail("np.concatenate of two non-unit blocks is outside the vocabulary", c)
        if path == "np.arange":
            g = self.kwargs(c, ["start", "stop"], ["start"])
            start, stop = (0, g["start"]) if "stop" not in g else (g["start"], g["stop"])
            if start != 0:
                if not (isinstance(start, ast.Constant) and isinstance(start.value, int) and not isinstance(start.value, bool)
                        and 0 <= start.value <= 16):
                    fail("np.arange start must be a small integer literal", c)
                start = start.value
            d = self.count_expr(stop)
            if d[1] - start < 0:
                fail("np.arange with a negative count", c)
            n = dim_nat((d[0], d[1] - start), self.dimvars, c)
            return Arr(1, (d[0], d[1] - start), "f", [f"map (nofnat o) (seq {start} {par(n)})"], lambda vs: vs[0], py=("vec",))
        if path == "np.zeros":
            g = self.kwargs(c, ["shape"], ["shape"])
            sh = g["shape"]
            if isinstance(sh, ast.Tuple) and len(sh.elts) == 2 and self.const(sh.elts[1], 1):
                b = self.ev(sh.elts[0])
                if b.py == ("batch",):
                    return scalar("n0 o", b="B")
            fail("np.zeros((batch, 1)) expected", c)
        if path == "np.linalg.norm":
            g = self.kwargs(c, ["x", "ord", "axis", "keepdims"], ["x"])
            self.need_axis1(g, c, True)
            if "ord" in g and not self.const(g["ord"], 2):
                fail("np.linalg.norm: only ord=2 is known", c)
            x = self.ev(g["x"])
            self.need_row_list(x, c)
            if x.kind != "f":
                fail("norm of a mask / integer array", c)
            return scalar(f"norm2 o {par(materialise(x, c))}", b="B")
        if path == "np.sum":
            g = self.kwargs(c, ["a", "axis", "keepdims"], ["a"])
            self.need_axis1(g, c, True)
            x = self.ev(g["a"])
            self.need_row_list(x, c)
            if x.kind != "b":
                fail("np.sum is only known on a mask (count of True)", c)
            return scalar(f"count_true {par(materialise(x, c))}", "i", b="B")
        if path == "np.take_along_axis":
            g = self.kwargs(c, ["arr", "indices", "axis"], ["arr", "indices", "axis"])
            self.need_axis1(g, c, False)
            x, i = self.ev(g["arr"]), self.ev(g["indices"])
            self.need_row_list(x, c)
            if x.kind != "f" or i.kind != "i" or i.b != "B" or i.d != 1 or i.py is not None:
                fail("np.take_along_axis(float (batch, d), integer (batch, 1), axis=1) expected", c)
            return scalar(f"nth {par(entry(i, c))} {par(materialise(x, c))} (n0 o)", b="B")
        if f.attr == "reshape":
            x = self.ev(f.value)
            if len(c.args) != 1 or c.keywords or not isinstance(c.args[0], ast.Tuple) or len(c.args[0].elts) != 2:
                fail("reshape((a, b)) expected", c)
            p, q = c.args[0].elts
            minus1 = lambda z: isinstance(z, ast.UnaryOp) and isinstance(z.op, ast.USub) and self.const(z.operand, 1)
            if x.py == ("vec",) and self.const(p, 1) and minus1(q):          # 1-D arange -> (1, d)
                return Arr(1, x.d, x.kind, x.srcs, x.body)
            if x.b == "B" and x.d == 1 and x.py is None and self.const(q, 1) and self.ev(p).py == ("batch",):
                return x                                                        # (batch, 1) -> (batch, 1)
            fail("reshape " + ast.unparse(c) + " is outside the vocabulary", c)
        fail("call " + path + " is outside the vocabulary", c)

    def count_expr(self, e):
        """k, k + c, c + k with k an entry of a shape (a column dimension) and c a small non-negative integer-valued literal"""
        def lit(z):
            if isinstance(z, ast.Constant) and isinstance(z.value, (int, float)) and not isinstance(z.value, bool) \
                    and float(z.value).is_integer() and 0 <= z.value <= 16:
                return int(z.value)
            return None
        if isinstance(e, ast.BinOp) and isinstance(e.op, ast.Add):
            for a, b in ((e.left, e.right), (e.right, e.left)):
                if lit(b) is not None:
                    d = self.count_expr(a)
                    return (d[0], d[1] + lit(b))
            fail("count expression " + ast.unparse(e), e)
        if isinstance(e, ast.BinOp) and isinstance(e.op, ast.Sub) and lit(e.right) is not None:
            d = self.count_expr(e.left)
            if d[1] - lit(e.right) < 0:
                fail("count expression below the dimension is outside the vocabulary", e)
            return (d[0], d[1] - lit(e.right))
        x = self.ev(e)
        if x.py is not None and x.py[0] == "dim":
            return x.py[1]
        fail("count expression " + ast.unparse(e), e)

    # ---- statements
    def bind(self, name, v, node):
        check_name(name, node)
        if v.py is not None and v.py[0] in ("lit", "flit", "batch", "vec"):
            if v.py[0] == "vec":
                fail("a 1-D array cannot be assigned (reshape it to (1, -1) first)", node)
            self.env[name] = v
            return
        uid, n = name, 1
        while uid in self.used:
            n += 1
            uid = f"{name}_v{n}"
        check_name(uid, node)
        self.used.add(uid)
        if v.py is not None and v.py[0] == "dim":
            base = v.py[1]
            if base[1] != 0 or base[0] in self.dimvars:
                fail("this shape entry cannot be bound", node)
            self.dimvars[base[0]] = uid
            self.lets.append((uid, f"length {par(self.dim_src[base[0]])}"))
            self.env[name] = scalar(uid, "i", v.py)
            return
        if v.d == 1:
            self.lets.append((uid, entry(v, node)))
            self.env[name] = Arr(v.b, 1, v.kind, [], lambda vs, uid=uid: uid)
        else:
            self.lets.append((uid, materialise(v, node)))
            self.env[name] = Arr(v.b, v.d, v.kind, [uid], lambda vs: vs[0], asc_of=v.asc_of)

    def run(self, fn):
        for s in fn.body:
            if isinstance(s, ast.Expr) and isinstance(s.value, ast.Constant) and isinstance(s.value.value, str):
                continue
            if isinstance(s, ast.Assign) and len(s.targets) == 1:
                t = s.targets[0]
                if isinstance(t, ast.Name):
                    self.bind(t.id, self.ev(s.value), s)
                    continue
                if isinstance(t, ast.Tuple) and len(t.elts) == 2 and all(isinstance(x, ast.Name) for x in t.elts):
                    b, d = self.shape_of(s.value)
                    self.bind(t.elts[0].id, b, s)
                    self.bind(t.elts[1].id, d, s)
                    continue
                fail("assignment target", s)
            if isinstance(s, ast.Return):
                if self.result is not None or s is not fn.body[-1] or s.value is None:
                    fail("return must be the last statement", s)
                vals = s.value.elts if isinstance(s.value, ast.Tuple) else [s.value]
                out = []
                for v in vals:
                    x = self.ev(v)
                    out.append(x)
                self.result = out
                continue
            fail("statement " + type(s).__name__, s)
        if self.result is None:
            fail(self.fname + " falls off its end without returning", fn)


# ------------------------------------------------------------------------------------------- translate the row functions
def find_function(tree, name, params):
    fs = [n for n in tree.body if isinstance(n, ast.FunctionDef) and n.name == name]
    if len(fs) != 1:
        fail(f"function {name} not found exactly once")
    fn = fs[0]
    a = fn.args
    if fn.decorator_list or a.vararg or a.kwarg or a.kwonlyargs or a.posonlyargs or a.defaults \
            or [x.arg for x in a.args] != params:
        fail(f"{name}: signature is not ({', '.join(params)})", fn)
    for n in ast.walk(fn):
        if isinstance(n, (ast.Lambda, ast.FunctionDef, ast.AsyncFunctionDef, ast.ClassDef, ast.Global, ast.Nonlocal)) and n is not fn:
            fail("nested scope in " + name, n)
    for p in params:
        check_name(p, fn)
    return fn


def render_lets(lets, result, indent="  "):
    lines = [f"{indent}let {uid} := {term} in" for uid, term in lets]
    lines.append(f"{indent}{result}.")
    return "\n".join(lines)


def tr_soft_threshold(tree):
    fn = find_function(tree, "soft_threshold", ["threshold", "x"])
    it = RowInterp("soft_threshold", [("threshold", scalar("threshold")), ("x", scalar("x"))], {})
    it.run(fn)
    if len(it.result) != 1 or it.result[0].d != 1 or it.result[0].kind != "f" or it.result[0].b != 1:
        fail("soft_threshold must return one scalar", fn)
    text = "Definition gen_soft_threshold {T : Type} (o : NumOps T) (threshold x : T) : T :=\n" \
           + render_lets(it.lets, entry(it.result[0], fn))
    return fn, text


def tr_linear(tree, funcs):
    fn = find_function(tree, "linear_prox_grad", ["W", "alpha"])
    it = RowInterp("linear_prox_grad", [("W", listarr("B", ("W", 0), "f", "W")), ("alpha", scalar("alpha"))], funcs)
    it.dim_src = {"W": "W"}
    it.run(fn)
    r = it.result
    if len(r) != 1 or r[0].b != "B" or r[0].d != ("W", 0) or r[0].kind != "f":
        fail("linear_prox_grad must return one float array of the shape of W", fn)
    text = "Definition gen_linear_prox_row {T : Type} (o : NumOps T) (W : list T) (alpha : T) : list T :=\n" \
           + render_lets(it.lets, materialise(r[0], fn)) + "\n" \
           "(* every operation above is row-wise: the matrix function maps the row function over the rows *)\n" \
           "Definition gen_linear_prox {T : Type} (o : NumOps T) (W : list (list T)) (alpha : T) : list (list T) :=\n" \
           "  map (fun row_ => gen_linear_prox_row o row_ alpha) W."
    return fn, text


def tr_mlp(tree, funcs):
    fn = find_function(tree, "mlp_prox_grad", ["W_skip_", "W1_", "alpha", "M"])
    it = RowInterp("mlp_prox_grad", [("W_skip_", listarr("B", ("W_skip_", 0), "f", "W_skip_")),
                                     ("W1_", listarr("B", ("W1_", 0), "f", "W1_")),
                                     ("alpha", scalar("alpha")), ("M", scalar("M"))], funcs)
    it.dim_src = {"W_skip_": "W_skip_", "W1_": "W1_"}
    it.run(fn)
    r = it.result
    if len(r) != 2 or any(x.b != "B" or x.kind != "f" for x in r) or r[0].d != ("W_skip_", 0) or r[1].d != ("W1_", 0):
        fail("mlp_prox_grad must return two float arrays of the shapes of W_skip_ and W1_", fn)
    text = "Definition gen_mlp_prox_row {T : Type} (o : NumOps T) (W_skip_ W1_ : list T) (alpha M : T) : list T * list T :=\n" \
           + render_lets(it.lets, f"({materialise(r[0], fn)}, {materialise(r[1], fn)})") + "\n" \
           "(* every operation above is row-wise: row j of the outputs is the row function on row j of the inputs *)\n" \
           "Definition gen_mlp_prox {T : Type} (o : NumOps T) (W_skip_ W1_ : list (list T)) (alpha M : T)\n" \
           "  : list (list T) * list (list T) :=\n" \
           "  let r_ := map (fun p_ => gen_mlp_prox_row o (fst p_) (snd p_) alpha M) (combine W_skip_ W1_) in\n" \
           "  (map fst r_, map snd r_)."
    return fn, text


# ------------------------------------------------------------------------------------------- group mode
class GMat:          # W[g] : rows gathered from matrix parameter `mat`
    def __init__(self, mat):
        self.mat = mat


class GRow:          # a (1, n) matrix given by its single row (a Gallina list term)
    def __init__(self, term):
        self.term = term


def tr_group(tree, name, params, mats, scalars, callee, callee_params, callee_gen, nres, out_name):
    fn = find_function(tree, name, params)
    if params[0] != "groups":
        fail("internal: first parameter must be groups")
    accs, guards = [], []
    body = list(fn.body)
    body = [s for s in body if not (isinstance(s, ast.Expr) and isinstance(s.value, ast.Constant) and isinstance(s.value.value, str))]
    # accumulators
    i = 0
    acc_of = {}
    while i < len(body) and isinstance(body[i], ast.Assign):
        s = body[i]
        if len(s.targets) != 1 or not isinstance(s.targets[0], ast.Name):
            fail("accumulator assignment target", s)
        v = s.value
        if not (isinstance(v, ast.Call) and ast.unparse(v.func) == "np.empty" and len(v.args) == 1 and not v.keywords
                and isinstance(v.args[0], ast.Attribute) and v.args[0].attr == "shape"
                and isinstance(v.args[0].value, ast.Name) and v.args[0].value.id in mats):
            fail("`X = np.empty(<matrix parameter>.shape)` expected", s)
        nm = s.targets[0].id
        check_name(nm, s)
        if nm in acc_of or nm in params:
            fail("accumulator defined twice / shadows a parameter", s)
        acc_of[nm] = v.args[0].value.id
        accs.append(nm)
        i += 1
    if not accs or len(accs) > 2:
        fail("one or two np.empty accumulators expected", fn)
    if i + 2 != len(body) or not isinstance(body[i], ast.For) or not isinstance(body[i + 1], ast.Return):
        fail("`for g in groups:` followed by `return` expected after the accumulators", fn)
    loop, ret = body[i], body[i + 1]
    if not (isinstance(loop.target, ast.Name) and loop.target.id == "g" and isinstance(loop.iter, ast.Name)
            and loop.iter.id == "groups" and not loop.orelse):
        fail("`for g in groups:` expected", loop)
    cur = {a: ("fst acc_" if k == 0 else "snd acc_") if len(accs) == 2 else "acc_" for k, a in enumerate(accs)}
    written = []
    env = {}

    def is_g(e):
        return isinstance(e, ast.Name) and e.id == "g"

    def ev(e):
        if isinstance(e, ast.Name):
            if e.id in env:
                return env[e.id]
            if e.id in scalars:
                return e.id
            fail("name " + e.id + " is not known here", e)
        if isinstance(e, ast.Subscript) and isinstance(e.value, ast.Name) and e.value.id in mats and is_g(e.slice):
            guards.append(e.value.id)
            return GMat(e.value.id)
        if isinstance(e, ast.Call) and isinstance(e.func, ast.Attribute) and e.func.attr == "reshape":
            x = ev(e.func.value)
            if len(e.args) != 1 or e.keywords:
                fail("reshape(<shape>) expected", e)
            sh = e.args[0]
            if isinstance(x, GMat) and isinstance(sh, ast.Tuple) and len(sh.elts) == 2 \
                    and isinstance(sh.elts[0], ast.Constant) and sh.elts[0].value == 1 and not isinstance(sh.elts[0].value, bool) \
                    and isinstance(sh.elts[1], ast.UnaryOp) and isinstance(sh.elts[1].op, ast.USub) \
                    and isinstance(sh.elts[1].operand, ast.Constant) and sh.elts[1].operand.value == 1:
                return GRow(f"flatten (gather {x.mat} g)")
            if isinstance(x, GRow) and isinstance(sh, ast.Attribute) and sh.attr == "shape":
                y = ev(sh.value)
                if isinstance(y, GMat):
                    return ("rows", f"unflatten (length g) (ncols {y.mat}) {par(x.term)}")
            fail("reshape " + ast.unparse(e) + " is outside the vocabulary", e)
        if isinstance(e, ast.Call) and isinstance(e.func, ast.Name) and e.func.id == callee:
            if e.keywords or len(e.args) != len(callee_params):
                fail("positional call of " + callee + " expected", e)
            args = []
            for k, a in enumerate(e.args):
                x = ev(a)
                if k < nres:
                    if not isinstance(x, GRow):
                        fail("a flattened group (…reshape((1, -1))) is expected as matrix argument", a)
                    args.append(par(x.term))
                else:
                    if not isinstance(x, str):
                        fail("a scalar parameter is expected here", a)
                    args.append(x)
            return ("call", f"{callee_gen} o {' '.join(args)}")
        fail("expression " + ast.unparse(e) + " is outside the vocabulary", e)

    for s in loop.body:
        if not isinstance(s, ast.Assign) or len(s.targets) != 1:
            fail("statement in the loop body", s)
        t = s.targets[0]
        if isinstance(t, ast.Name):
            check_name(t.id, s)
            if t.id in accs or t.id in params:
                fail("assignment to an accumulator / parameter in the loop", s)
            v = ev(s.value)
            if isinstance(v, tuple) and v[0] == "call":
                if nres != 1:
                    fail(callee + " returns a pair", s)
                v = GRow(v[1])
            env[t.id] = v
            continue
        if isinstance(t, ast.Tuple) and all(isinstance(x, ast.Name) for x in t.elts):
            v = ev(s.value)
            if not (isinstance(v, tuple) and v[0] == "call") or len(t.elts) != nres or nres != 2:
                fail("tuple assignment from " + callee + " expected", s)
            for x, proj in zip(t.elts, ("fst", "snd")):
                check_name(x.id, s)
                if x.id in accs or x.id in params:
                    fail("assignment to an accumulator / parameter in the loop", s)
                env[x.id] = GRow(f"{proj} ({v[1]})")
            continue
        if isinstance(t, ast.Subscript) and isinstance(t.value, ast.Name) and t.value.id in accs and is_g(t.slice):
            v = ev(s.value)
            if not (isinstance(v, tuple) and v[0] == "rows"):
                fail("`X[g] = <row>.reshape(<gathered>.shape)` expected", s)
            a = t.value.id
            cur[a] = f"scatter g ({v[1]}) {par(cur[a])}"
            written.append(a)
            continue
        fail("assignment target in the loop body", s)
    rv = ret.value.elts if isinstance(ret.value, ast.Tuple) else [ret.value]
    if not all(isinstance(x, ast.Name) and x.id in accs for x in rv) or len(rv) != len(accs) or len({x.id for x in rv}) != len(rv):
        fail("the accumulators must be returned", ret)
    order = [accs.index(x.id) for x in rv]
    step = cur[accs[0]] if len(accs) == 1 else f"({cur[accs[0]]},\n             {cur[accs[1]]})"
    init = f"repeat None (length {acc_of[accs[0]]})" if len(accs) == 1 else \
        f"(repeat None (length {acc_of[accs[0]]}), repeat None (length {acc_of[accs[1]]}))"
    fold = f"fold_left (fun acc_ g =>\n            {step})\n          groups ({init})" if len(accs) == 1 else \
        f"fold_left (fun acc_ g =>\n            {step})\n          groups {init}"
    if order == [1, 0]:
        fold = f"(fun r_ => (snd r_, fst r_)) ({fold})"
    if not guards:
        fail("no gather `<matrix>[g]` in the loop", loop)
    seen = []
    for m in guards:
        if m not in seen:
            seen.append(m)
    guard = " && ".join(f"group_ok (length {m}) g" for m in seen)
    mat_params = " ".join(mats)
    sc_params = " ".join(scalars)
    rty = "list (option (list T))" if len(accs) == 1 else "list (option (list T)) * list (option (list T))"
    text = f"Definition {out_name} {{T : Type}} (o : NumOps T) (groups : list (list nat)) ({mat_params} : list (list T)) ({sc_params} : T)\n" \
           f"  : option ({rty}) :=\n" \
           f"  if forallb (fun g => {guard}) groups then\n" \
           f"    Some ({fold})\n" \
           f"  else None."
    return fn, text


# ------------------------------------------------------------------------------------------- driver
def translate():
    raw = open(SRC, "rb").read()
    tree = ast.parse(raw.decode("utf-8"))
    digest = hashlib.sha256(raw).hexdigest()
    # module level: only `import numpy as np` and the five functions
    names = []
    for n in tree.body:
        if isinstance(n, ast.Import) and len(n.names) == 1 and n.names[0].name == "numpy" and n.names[0].asname == "np":
            continue
        if isinstance(n, ast.FunctionDef):
            names.append(n.name)
            continue
        if isinstance(n, ast.Expr) and isinstance(n.value, ast.Constant) and isinstance(n.value.value, str):
            continue
        fail("module-level statement outside the vocabulary", n)
    expected = {"soft_threshold", "mlp_prox_grad", "group_mlp_prox_grad", "linear_prox_grad", "group_linear_prox_grad"}
    if set(names) != expected or len(names) != len(expected):
        fail("the module must define exactly " + ", ".join(sorted(expected)))
    funcs = {"soft_threshold"}
    parts = [tr_soft_threshold(tree), tr_linear(tree, funcs), tr_mlp(tree, funcs),
             tr_group(tree, "group_linear_prox_grad", ["groups", "W", "alpha"], ["W"], ["alpha"],
                      "linear_prox_grad", ["W", "alpha"], "gen_linear_prox_row", 1, "gen_group_linear_prox"),
             tr_group(tree, "group_mlp_prox_grad", ["groups", "W_skip", "W1", "alpha", "M"], ["W_skip", "W1"], ["alpha", "M"],
                      "mlp_prox_grad", ["W_skip_", "W1_", "alpha", "M"], "gen_mlp_prox_row", 2, "gen_group_mlp_prox")]
    head = ["(* GENERATED by translator/tr_prox.py - do not edit.",
            "   Source: gemclus/sparse/_prox_grad.py  sha256 " + digest]
    head += [f"   {fn.name} lines {fn.lineno}-{fn.end_lineno}" for fn, _ in parts]
    head += ["   Symbolic translation of the whole module (see the translator's docstring for the vocabulary): the numpy",
             "   functions on the generic row (arrays of shape (batch, d) are lists, (batch, 1) numbers; every assigned Python",
             "   variable is a `let`; the arithmetic keeps the grouping of the source), the group wrappers as folds over the",
             "   groups.  Proved equal to the hand-written Model/Prox.v for every number system in Proofs/ProxTie.v. *)",
             "From Coq Require Import List Bool Arith.",
             "From GV Require Import Common.Num Model.Prox.",
             "Import ListNotations.", ""]
    return "\n".join(head) + "\n" + "\n\n".join(f"(* {fn.name} *)\n{text}" for fn, text in parts) + "\n"


def main():
    if sys.argv[1:] not in ([], ["--stdout"]):
        die("usage: tr_prox.py [--stdout]")
    try:
        text = translate()
    except Fail as e:
        die(str(e))
    except Exception as e:  # noqa  (anything unexpected is a failure to translate, never a partial output)
        die(f"{type(e).__name__}: {e}")
    if sys.argv[1:] == ["--stdout"]:
        sys.stdout.write(text)
        return
    os.makedirs(os.path.dirname(OUT), exist_ok=True)
    if not os.path.exists(OUT) or open(OUT).read() != text:
        open(OUT, "w").write(text)
        print("tr_prox: wrote", OUT)
        # build.sh reports BUILD-FAIL only for a MISSING .vo: remove the compiled tie so that a failing re-compilation
        # against the new text cannot hide behind the stale object of the previous text
        for dep in DEPENDENTS:
            for ext in (".vo", ".vos", ".vok", ".glob"):
                stale = os.path.join(ROOT, "coq", dep + ext)
                if os.path.exists(stale):
                    os.remove(stale)
    else:
        print("tr_prox: unchanged", OUT)


if __name__ == "__main__":
    main()
