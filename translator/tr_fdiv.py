#!/usr/bin/env python3
"""Fail-closed, shape-aware symbolic translator:
     gemclus/gemini/_fdivergences.py :: {KL,TV,Hellinger,ChiSquare}GEMINI.evaluate  ->  coq/Gen/FDiv.v

The straight-line numpy code of the four `evaluate` methods is interpreted symbolically over abstract
arrays with symbolic shapes (dimensions are the symbols n, K or the literal 1; y_pred : (n, K)).  Every
array is represented as a function of its indices (rank 0..3); every Python variable that is assigned
becomes a Gallina `let`; sums become `bsum o dim (fun j => ...)`.  The grouping of the arithmetic is the
grouping of the source (nothing is re-associated, distributed or simplified).  The two flags `self.ovo`
and `return_grad` are known constants: each of the four combinations is translated separately, so every
statement of the method is interpreted at least once.

Vocabulary (anything else aborts with a non-zero exit status WITHOUT writing, the build then prints
TRANSLATOR-FAIL):
  statements   x = e ; x op= e (op in + - * /, same shape) ; if self.ovo / if return_grad (also `not`) ;
               return e / return e, e ; docstrings
  expressions  y_pred, self.epsilon, assigned names, literals 0 1 2 0.5 and small non-negative integers,
               unary -, + - * / with numpy broadcasting, > < >= <= (masks), & | on masks,
               a @ b on rank-3 operands (batched; a contraction over a literal 1 is the product),
               x.shape[c], np.clip(x, lo, hi) with scalar bounds, np.log, np.sqrt, np.abs, np.sign,
               np.square, np.sum / np.mean / .sum / .mean (axis = integer or none, keepdims),
               .reshape((-1, 1)) / .reshape((1, -1)) of a vector, np.expand_dims, np.repeat of a unit axis
               by a shape entry, np.transpose(axes=...), np.squeeze(axis=...) of a unit axis
Conventions   mask * float: the mask entry is `if b then n1 o else n0 o`; 0.5 is n1/n2; -x is nneg x = 0 - x;
               the integer x.shape[0] used in float arithmetic is `nofnat o n`; np.square(x) is x * x;
               np.clip(x, lo, hi) is nclip lo hi x = min(max(x, lo), hi); a sum over a unit axis is the
               element; mean = sum / count; a sum over several axes nests with the first axis outermost.
Assumed (not read here): `self.epsilon` is the constructor's epsilon, `affinity` is unused.

  tr_fdiv.py            regenerate coq/Gen/FDiv.v (rewritten only when its text changes; when it is rewritten the
                        compiled objects of Proofs/FDivGen.v are removed so that the build must re-prove them)
  tr_fdiv.py --python   print the same symbolic terms as plain Python functions/lambdas (stdout); writes nothing
"""
import ast
import hashlib
import os
import re
import sys

ROOT = os.path.dirname(os.path.dirname(os.path.abspath(__file__)))
REPO = os.environ.get("VERIF_REPO", "/repo")
SRC = os.path.join(REPO, "gemclus", "gemini", "_fdivergences.py")
OUT = os.path.join(ROOT, "coq", "Gen", "FDiv.v")

CLASSES = [("kl", "KLGEMINI"), ("tv", "TVGEMINI"), ("he", "HellingerGEMINI"), ("chi", "ChiSquareGEMINI")]

RESERVED = set("""o eps n K Y T i k n0 n1 n2 nadd nsub nmul ndiv nsqrt nln nexp nabs nltb nleb neqb nofnat nmax nmin
 nneg bsum lsum norm2 nclip nsign andb orb negb nat bool true false fun let in if then else match with end forall
 exists return as at fix cofix for using where Prop Set Type mod IF Definition Lemma Theorem Proof Qed
 math lambda None True False""".split())


class Fail(Exception):
    pass


def fail(msg, node=None):
    where = f" (line {getattr(node, 'lineno', '?')})" if node is not None else ""
    raise Fail(msg + where)


def die(msg):
    sys.stderr.write("tr_fdiv: FAIL-CLOSED: " + msg + "\n")
    sys.exit(2)


# ------------------------------------------------------------------------------------------- values
class Arr:
    """abstract array: shape = tuple of 'n' | 'K' | 1 ; kind 'f' (float) or 'b' (mask) ;
    fn(list of index terms, None at unit positions) -> term ; pyint marks a Python integer scalar."""

    def __init__(self, shape, kind, fn, pyint=None):
        self.shape, self.kind, self.fn, self.pyint = tuple(shape), kind, fn, pyint


def at(x, idx):
    """element term of x at idx (len(idx) == rank); indices at unit positions are dropped"""
    if len(idx) != len(x.shape):
        raise Fail("internal: rank mismatch")
    clean = []
    for d, ix in zip(x.shape, idx):
        if d == 1:
            clean.append(None)
        else:
            if ix is None:
                raise Fail("internal: missing index on a non-unit axis")
            clean.append(ix)
    return x.fn(clean)


def scalar(term, pyint=None):
    return Arr((), "f", lambda idx: term, pyint)


def as_float(x, t):
    return ("ofbool", t) if x.kind == "b" else t


def broadcast(sa, sb, node):
    r = max(len(sa), len(sb))
    pa, pb = (1,) * (r - len(sa)) + tuple(sa), (1,) * (r - len(sb)) + tuple(sb)
    out = []
    for x, y in zip(pa, pb):
        if x == y:
            out.append(x)
        elif x == 1:
            out.append(y)
        elif y == 1:
            out.append(x)
        else:
            fail(f"shapes {sa} and {sb} do not broadcast", node)
    return tuple(out)


def tail(idx, x):
    return list(idx[len(idx) - len(x.shape):]) if x.shape else []


# ------------------------------------------------------------------------------------------- interpreter
class Interp:
    def __init__(self, ovo, grad):
        self.flags = {"ovo": ovo, "return_grad": grad}
        self.env = {}
        self.lets = []            # (uid, [(param, dim)], kind, term)
        self.used = set()
        self.counter = 0
        self.result = None

    def fresh(self, dim):
        self.counter += 1
        return ("ix", ("i" if dim == "n" else "k") + str(self.counter))

    # ---- helpers
    def const_int(self, e):
        if isinstance(e, ast.Constant) and isinstance(e.value, int) and not isinstance(e.value, bool):
            return e.value
        if isinstance(e, ast.UnaryOp) and isinstance(e.op, ast.USub) and isinstance(e.operand, ast.Constant) \
                and isinstance(e.operand.value, int) and not isinstance(e.operand.value, bool):
            return -e.operand.value
        fail("integer literal expected", e)

    def args(self, call, names, required, skip=0):
        """positional + keyword arguments of a call mapped to `names`; unknown keywords fail"""
        got = {}
        pos = call.args[skip:]
        if len(pos) > len(names):
            fail("too many arguments", call)
        for a in pos:
            if isinstance(a, ast.Starred):
                fail("starred argument", call)
        for nm, a in zip(names, pos):
            got[nm] = a
        for kw in call.keywords:
            if kw.arg is None or kw.arg not in names or kw.arg in got:
                fail(f"keyword {kw.arg!r} not in the vocabulary of this call", call)
            got[kw.arg] = kw.value
        for nm in required:
            if nm not in got:
                fail(f"argument {nm} missing", call)
        return got

    def axis_of(self, e, rank, node):
        a = self.const_int(e)
        if a < 0:
            a += rank
        if not 0 <= a < rank:
            fail("axis out of range", node)
        return a

    # ---- array operations
    def binop(self, op, a, b, node):
        if a.pyint is not None and b.pyint is not None:
            fail("integer arithmetic between two Python integers", node)
        if a.kind == "b" and b.kind == "b":
            fail("arithmetic between two masks", node)
        shape = broadcast(a.shape, b.shape, node)

        def fn(idx):
            return (op, as_float(a, at(a, tail(idx, a))), as_float(b, at(b, tail(idx, b))))
        return Arr(shape, "f", fn)

    def compare(self, op, a, b, node):
        if a.kind != "f" or b.kind != "f":
            fail("comparison of masks", node)
        shape = broadcast(a.shape, b.shape, node)
        if isinstance(op, ast.Gt):
            mk = lambda x, y: ("ltb", y, x)
        elif isinstance(op, ast.Lt):
            mk = lambda x, y: ("ltb", x, y)
        elif isinstance(op, ast.GtE):
            mk = lambda x, y: ("leb", y, x)
        elif isinstance(op, ast.LtE):
            mk = lambda x, y: ("leb", x, y)
        else:
            fail("comparison " + type(op).__name__, node)
        return Arr(shape, "b", lambda idx: mk(at(a, tail(idx, a)), at(b, tail(idx, b))))

    def logic(self, op, a, b, node):
        if a.kind != "b" or b.kind != "b":
            fail("& / | on non-masks", node)
        shape = broadcast(a.shape, b.shape, node)
        return Arr(shape, "b", lambda idx: (op, at(a, tail(idx, a)), at(b, tail(idx, b))))

    def unary(self, op, x, node):
        if x.kind != "f" or x.pyint is not None:
            fail("numeric function of a mask or of a Python integer", node)
        return Arr(x.shape, "f", lambda idx: (op, at(x, idx)))

    def reduce(self, x, axis_node, keep_node, mean, node):
        if x.kind != "f" or x.pyint is not None:
            fail("sum/mean of a mask or of a Python integer", node)
        rank = len(x.shape)
        if rank == 0:
            fail("sum/mean of a scalar", node)
        if axis_node is None or (isinstance(axis_node, ast.Constant) and axis_node.value is None):
            axes = list(range(rank))
        else:
            axes = [self.axis_of(axis_node, rank, node)]
        keep = False
        if keep_node is not None:
            if not (isinstance(keep_node, ast.Constant) and isinstance(keep_node.value, bool)):
                fail("keepdims must be a literal boolean", node)
            keep = keep_node.value
        shape = tuple((1 if d in axes else x.shape[d]) for d in range(rank) if keep or d not in axes)
        red = [d for d in axes if x.shape[d] != 1]

        def fn(idx):
            it = iter(idx)
            full = []
            for d in range(rank):
                if d in axes:
                    if keep:
                        next(it)
                    full.append(None)
                else:
                    full.append(next(it))
            vs = {}
            for d in red:
                vs[d] = self.fresh(x.shape[d])
                full[d] = vs[d]
            t = at(x, full)
            for d in reversed(red):
                t = ("sum", x.shape[d], vs[d][1], t)
            if mean and red:
                t = ("div", t, ("ofn", tuple(x.shape[d] for d in red)))
            return t
        return Arr(shape, "f", fn)

    def matmul(self, a, b, node):
        if a.kind != "f" or b.kind != "f" or a.pyint is not None or b.pyint is not None:
            fail("@ on masks or Python integers", node)
        if len(a.shape) != 3 or len(b.shape) != 3:
            fail("@ is only known on rank-3 (batched) operands", node)
        batch = broadcast(a.shape[:1], b.shape[:1], node)[0]
        q = a.shape[2]
        if q != b.shape[1]:
            fail(f"@: inner dimensions {a.shape} / {b.shape} differ", node)

        def fn(idx):
            i, p, r = idx
            if q == 1:
                return ("mul", at(a, [i, p, None]), at(b, [i, None, r]))
            j = self.fresh(q)
            return ("sum", q, j[1], ("mul", at(a, [i, p, j]), at(b, [i, j, r])))
        return Arr((batch, a.shape[1], b.shape[2]), "f", fn)

    def transpose(self, x, axes_node, node):
        rank = len(x.shape)
        if axes_node is None:
            axes = list(reversed(range(rank)))
        else:
            if not isinstance(axes_node, (ast.List, ast.Tuple)):
                fail("axes must be a literal list", node)
            axes = [self.const_int(e) for e in axes_node.elts]
            axes = [a + rank if a < 0 else a for a in axes]
        if sorted(axes) != list(range(rank)):
            fail("axes is not a permutation of the axes", node)
        shape = tuple(x.shape[axes[d]] for d in range(rank))

        def fn(idx):
            src = [None] * rank
            for d in range(rank):
                src[axes[d]] = idx[d]
            return at(x, src)
        return Arr(shape, x.kind, fn)

    def expand_dims(self, x, axis_node, node):
        if x.pyint is not None:
            fail("expand_dims of a Python integer", node)
        rank = len(x.shape) + 1
        a = self.axis_of(axis_node, rank, node)
        shape = x.shape[:a] + (1,) + x.shape[a:]
        return Arr(shape, x.kind, lambda idx: at(x, list(idx[:a]) + list(idx[a + 1:])))

    def squeeze(self, x, axis_node, node):
        a = self.axis_of(axis_node, len(x.shape), node)
        if x.shape[a] != 1:
            fail("squeeze of an axis that is not a literal 1", node)
        shape = x.shape[:a] + x.shape[a + 1:]
        return Arr(shape, x.kind, lambda idx: at(x, list(idx[:a]) + [None] + list(idx[a:])))

    def repeat(self, x, reps, axis_node, node):
        a = self.axis_of(axis_node, len(x.shape), node)
        if x.shape[a] != 1:
            fail("repeat along an axis that is not a literal 1", node)
        if reps.pyint is None or reps.pyint[0] != "dim":
            fail("repeat count must be an entry of a shape", node)
        shape = x.shape[:a] + (reps.pyint[1],) + x.shape[a + 1:]
        return Arr(shape, x.kind, lambda idx: at(x, list(idx[:a]) + [None] + list(idx[a + 1:])))

    def reshape(self, x, call):
        if len(call.args) == 1 and isinstance(call.args[0], (ast.Tuple, ast.List)) and not call.keywords:
            dims = [self.const_int(e) for e in call.args[0].elts]
        elif not call.keywords:
            dims = [self.const_int(e) for e in call.args]
        else:
            fail("reshape with keywords", call)
        if len(x.shape) != 1 or x.shape[0] == 1:
            fail("reshape is only known on a vector", call)
        if dims == [-1, 1]:
            return Arr((x.shape[0], 1), x.kind, lambda idx: at(x, [idx[0]]))
        if dims == [1, -1]:
            return Arr((1, x.shape[0]), x.kind, lambda idx: at(x, [idx[1]]))
        fail("reshape to " + repr(dims), call)

    # ---- expressions
    def ev(self, e):
        if isinstance(e, ast.Constant):
            v = e.value
            if isinstance(v, bool) or not isinstance(v, (int, float)):
                fail("constant " + repr(v), e)
            if isinstance(v, float):
                if v == 0.5:
                    return scalar(("half",))
                if not (v.is_integer() and 0 <= v <= 4096):
                    fail(f"float literal {v!r} outside the vocabulary", e)
                m, py = int(v), None
            else:
                if not 0 <= v <= 4096:
                    fail(f"integer literal {v!r} outside the vocabulary", e)
                m, py = v, ("lit", v)
            t = ("n0",) if m == 0 else ("n1",) if m == 1 else ("n2",) if m == 2 else ("ofn", (m,))
            return scalar(t, py)
        if isinstance(e, ast.Name):
            if e.id in self.env:
                return self.env[e.id]
            fail("name " + e.id + " is not known here", e)
        if isinstance(e, ast.Attribute):
            if isinstance(e.value, ast.Name) and e.value.id == "self" and e.attr == "epsilon":
                return scalar(("eps",))
            fail("attribute " + ast.unparse(e), e)
        if isinstance(e, ast.Subscript):
            if isinstance(e.value, ast.Attribute) and e.value.attr == "shape":
                x = self.ev(e.value.value)
                if x.pyint is not None or not x.shape:
                    fail("shape of a scalar", e)
                a = self.axis_of(e.slice, len(x.shape), e)
                d = x.shape[a]
                if d == 1:
                    return scalar(("n1",), ("lit", 1))
                return scalar(("ofn", (d,)), ("dim", d))
            fail("subscript " + ast.unparse(e), e)
        if isinstance(e, ast.UnaryOp):
            if isinstance(e.op, ast.USub):
                return self.unary("neg", self.ev(e.operand), e)
            if isinstance(e.op, ast.UAdd):
                return self.ev(e.operand)
            fail("unary " + type(e.op).__name__, e)
        if isinstance(e, ast.BinOp):
            a, b = self.ev(e.left), self.ev(e.right)
            ops = {ast.Add: "add", ast.Sub: "sub", ast.Mult: "mul", ast.Div: "div"}
            if type(e.op) in ops:
                return self.binop(ops[type(e.op)], a, b, e)
            if isinstance(e.op, ast.BitAnd):
                return self.logic("andb", a, b, e)
            if isinstance(e.op, ast.BitOr):
                return self.logic("orb", a, b, e)
            if isinstance(e.op, ast.MatMult):
                return self.matmul(a, b, e)
            fail("operator " + type(e.op).__name__, e)
        if isinstance(e, ast.Compare):
            if len(e.ops) != 1:
                fail("chained comparison", e)
            return self.compare(e.ops[0], self.ev(e.left), self.ev(e.comparators[0]), e)
        if isinstance(e, ast.Call):
            return self.call(e)
        fail("expression " + type(e).__name__, e)

    def call(self, c):
        f = c.func
        if not isinstance(f, ast.Attribute):
            fail("call " + ast.unparse(f), c)
        if isinstance(f.value, ast.Name) and f.value.id == "np":
            nm = f.attr
            if nm in ("log", "sqrt", "abs", "sign", "square"):
                g = self.args(c, ["x"], ["x"])
                x = self.ev(g["x"])
                if nm == "square":
                    if x.kind != "f" or x.pyint is not None:
                        fail("square of a mask or of a Python integer", c)
                    return Arr(x.shape, "f", lambda idx: ("mul", at(x, idx), at(x, idx)))
                return self.unary({"log": "ln", "sqrt": "sqrt", "abs": "abs", "sign": "sign"}[nm], x, c)
            if nm == "clip":
                g = self.args(c, ["a", "a_min", "a_max"], ["a", "a_min", "a_max"])
                x, lo, hi = self.ev(g["a"]), self.ev(g["a_min"]), self.ev(g["a_max"])
                if lo.shape or hi.shape or lo.kind != "f" or hi.kind != "f" or x.kind != "f" or x.pyint is not None:
                    fail("clip: bounds must be scalars, the operand a float array", c)
                return Arr(x.shape, "f", lambda idx: ("clip", at(lo, []), at(hi, []), at(x, idx)))
            if nm in ("sum", "mean"):
                g = self.args(c, ["a", "axis", "keepdims"], ["a"])
                return self.reduce(self.ev(g["a"]), g.get("axis"), g.get("keepdims"), nm == "mean", c)
            if nm == "expand_dims":
                g = self.args(c, ["a", "axis"], ["a", "axis"])
                return self.expand_dims(self.ev(g["a"]), g["axis"], c)
            if nm == "repeat":
                g = self.args(c, ["a", "repeats", "axis"], ["a", "repeats", "axis"])
                return self.repeat(self.ev(g["a"]), self.ev(g["repeats"]), g["axis"], c)
            if nm == "transpose":
                g = self.args(c, ["a", "axes"], ["a"])
                return self.transpose(self.ev(g["a"]), g.get("axes"), c)
            if nm == "squeeze":
                g = self.args(c, ["a", "axis"], ["a", "axis"])
                return self.squeeze(self.ev(g["a"]), g["axis"], c)
            fail("np." + nm + " is not in the vocabulary", c)
        # methods of arrays
        x = self.ev(f.value)
        if x.pyint is not None:
            fail("method of a Python integer", c)
        if f.attr in ("sum", "mean"):
            g = self.args(c, ["axis", "keepdims"], [])
            return self.reduce(x, g.get("axis"), g.get("keepdims"), f.attr == "mean", c)
        if f.attr == "reshape":
            return self.reshape(x, c)
        fail("method ." + f.attr + " is not in the vocabulary", c)

    # ---- statements
    def bind(self, name, v, node):
        if not re.fullmatch(r"[A-Za-z][A-Za-z0-9_]*", name) or name in RESERVED or re.fullmatch(r"[ik]\d+", name) \
                or re.fullmatch(r".*_v\d+", name):
            fail("variable name " + name + " collides with the generated vocabulary", node)
        if v.pyint is not None:
            self.env[name] = v
            return
        uid, c = name, 1
        while uid in self.used:
            c += 1
            uid = f"{name}_v{c}"
        self.used.add(uid)
        params = [(self.fresh(d), d) for d in v.shape if d != 1]
        it = iter(p for p, _ in params)
        term = at(v, [None if d == 1 else next(it) for d in v.shape])
        self.lets.append((uid, [(p[1], d) for p, d in params], v.kind, term))
        shape = v.shape

        def fn(idx, uid=uid, shape=shape):
            return ("app", uid, tuple(ix for d, ix in zip(shape, idx) if d != 1))
        self.env[name] = Arr(shape, v.kind, fn)

    def test(self, e):
        if isinstance(e, ast.UnaryOp) and isinstance(e.op, ast.Not):
            return not self.test(e.operand)
        if isinstance(e, ast.Attribute) and isinstance(e.value, ast.Name) and e.value.id == "self" and e.attr == "ovo":
            return self.flags["ovo"]
        if isinstance(e, ast.Name) and e.id == "return_grad":
            return self.flags["return_grad"]
        fail("`if` test outside the vocabulary: " + ast.unparse(e), e)

    def run(self, stmts):
        """returns True when a return statement was executed"""
        for s in stmts:
            if isinstance(s, ast.Expr) and isinstance(s.value, ast.Constant) and isinstance(s.value.value, str):
                continue
            if isinstance(s, ast.Assign):
                if len(s.targets) != 1 or not isinstance(s.targets[0], ast.Name):
                    fail("assignment target", s)
                self.bind(s.targets[0].id, self.ev(s.value), s)
                continue
            if isinstance(s, ast.AugAssign):
                if not isinstance(s.target, ast.Name) or s.target.id not in self.env:
                    fail("augmented assignment target", s)
                ops = {ast.Add: "add", ast.Sub: "sub", ast.Mult: "mul", ast.Div: "div"}
                if type(s.op) not in ops:
                    fail("augmented operator " + type(s.op).__name__, s)
                cur = self.env[s.target.id]
                if cur.pyint is not None or cur.kind != "f":
                    fail("in-place update of a mask or of a Python integer", s)
                new = self.binop(ops[type(s.op)], cur, self.ev(s.value), s)
                if new.shape != cur.shape:
                    fail("in-place update changes the shape", s)
                self.bind(s.target.id, new, s)
                continue
            if isinstance(s, ast.If):
                if self.run(s.body if self.test(s.test) else s.orelse):
                    return True
                continue
            if isinstance(s, ast.Return):
                if s.value is None:
                    fail("bare return", s)
                if self.flags["return_grad"]:
                    if not isinstance(s.value, ast.Tuple) or len(s.value.elts) != 2:
                        fail("return_grad=True must return (score, gradient)", s)
                    sc, gr = self.ev(s.value.elts[0]), self.ev(s.value.elts[1])
                    if gr.shape != ("n", "K") or gr.kind != "f":
                        fail(f"gradient has shape {gr.shape}, expected (n, K)", s)
                else:
                    if isinstance(s.value, ast.Tuple):
                        fail("return_grad=False must return the score alone", s)
                    sc, gr = self.ev(s.value), None
                if sc.shape != () or sc.kind != "f" or sc.pyint is not None:
                    fail(f"score has shape {sc.shape}, expected a float scalar", s)
                self.result = (sc, gr)
                return True
            fail("statement " + type(s).__name__, s)
        return False


def interpret(fn, ovo, grad):
    it = Interp(ovo, grad)
    it.env["y_pred"] = Arr(("n", "K"), "f", lambda idx: ("Y", idx[0], idx[1]))
    if not it.run(fn.body) or it.result is None:
        fail("evaluate falls off its end without returning", fn)
    sc, gr = it.result
    if grad:
        return it.lets, at(sc, []), at(gr, [("ix", "i"), ("ix", "k")])
    return it.lets, at(sc, []), None


# ------------------------------------------------------------------------------------------- rendering
def refs(t, acc):
    if isinstance(t, tuple):
        if t and t[0] == "app":
            acc.add(t[1])
        for x in t:
            refs(x, acc)
    return acc


def prune(lets, result):
    need = refs(result, set())
    keep = []
    for uid, params, kind, term in reversed(lets):
        if uid in need:
            keep.append((uid, params, kind, term))
            refs(term, need)
    return list(reversed(keep))


def dimtxt(d):
    return str(d)


BIN_COQ = {"add": "nadd", "sub": "nsub", "mul": "nmul", "div": "ndiv"}
UN_COQ = {"ln": "nln", "sqrt": "nsqrt", "abs": "nabs", "sign": "nsign", "neg": "nneg"}


def coq(t):
    k = t[0]
    if k == "ix":
        return t[1]
    if k == "Y":
        return f"(Y {coq(t[1])} {coq(t[2])})"
    if k == "eps":
        return "eps"
    if k in ("n0", "n1", "n2"):
        return f"({k} o)"
    if k == "half":
        return "(ndiv o (n1 o) (n2 o))"
    if k == "ofn":
        ds = t[1]
        return f"(nofnat o {dimtxt(ds[0])})" if len(ds) == 1 else "(nofnat o (" + " * ".join(dimtxt(d) for d in ds) + "))"
    if k in BIN_COQ:
        return f"({BIN_COQ[k]} o {coq(t[1])} {coq(t[2])})"
    if k in UN_COQ:
        return f"({UN_COQ[k]} o {coq(t[1])})"
    if k == "clip":
        return f"(nclip o {coq(t[1])} {coq(t[2])} {coq(t[3])})"
    if k == "sum":
        return f"(bsum o {dimtxt(t[1])} (fun {t[2]} : nat => {coq(t[3])}))"
    if k == "ofbool":
        return f"(if {coq(t[1])} then n1 o else n0 o)"
    if k == "ltb":
        return f"(nltb o {coq(t[1])} {coq(t[2])})"
    if k == "leb":
        return f"(nleb o {coq(t[1])} {coq(t[2])})"
    if k in ("andb", "orb"):
        return f"({k} {coq(t[1])} {coq(t[2])})"
    if k == "app":
        return t[1] if not t[2] else "(" + t[1] + " " + " ".join(coq(x) for x in t[2]) + ")"
    raise Fail("internal: term " + repr(k))


BIN_PY = {"add": "+", "sub": "-", "mul": "*"}
UN_PY = {"ln": "_ln", "sqrt": "_sqrt", "abs": "abs", "sign": "_sign"}


def py(t):
    k = t[0]
    if k == "ix":
        return t[1]
    if k == "Y":
        return f"Y({py(t[1])}, {py(t[2])})"
    if k == "eps":
        return "eps"
    if k == "n0":
        return "0.0"
    if k == "n1":
        return "1.0"
    if k == "n2":
        return "(1.0 + 1.0)"
    if k == "half":
        return "(1.0 / (1.0 + 1.0))"
    if k == "ofn":
        return "float(" + " * ".join(dimtxt(d) for d in t[1]) + ")"
    if k in BIN_PY:
        return f"({py(t[1])} {BIN_PY[k]} {py(t[2])})"
    if k == "div":
        return f"_div({py(t[1])}, {py(t[2])})"
    if k == "neg":
        return f"(0.0 - {py(t[1])})"
    if k in UN_PY:
        return f"{UN_PY[k]}({py(t[1])})"
    if k == "clip":
        return f"_clip({py(t[1])}, {py(t[2])}, {py(t[3])})"
    if k == "sum":
        return f"_bsum({dimtxt(t[1])}, lambda {t[2]}: {py(t[3])})"
    if k == "ofbool":
        return f"(1.0 if {py(t[1])} else 0.0)"
    if k == "ltb":
        return f"({py(t[1])} < {py(t[2])})"
    if k == "leb":
        return f"({py(t[1])} <= {py(t[2])})"
    if k == "andb":
        return f"({py(t[1])} and {py(t[2])})"
    if k == "orb":
        return f"({py(t[1])} or {py(t[2])})"
    if k == "app":
        return t[1] if not t[2] else t[1] + "(" + ", ".join(py(x) for x in t[2]) + ")"
    raise Fail("internal: term " + repr(k))


PY_PRELUDE = '''# GENERATED by translator/tr_fdiv.py --python : the symbolic terms of coq/Gen/FDiv.v as plain Python.
# Number system = IEEE double; _bsum is the left fold of Common/Num.v; _clip/_sign are nclip/nsign.
import math
_inf, _nan = float("inf"), float("nan")
def _bsum(n, f):
    s = 0.0
    for j in range(n):
        s = s + f(j)
    return s
def _div(a, b):
    try:
        return a / b
    except ZeroDivisionError:
        return _nan if (a == 0.0 or a != a) else (_inf if (a > 0.0) == (math.copysign(1.0, b) > 0.0) else -_inf)
def _ln(x):
    return math.log(x) if x > 0.0 else (-_inf if x == 0.0 else _nan)
def _sqrt(x):
    return math.sqrt(x) if x >= 0.0 else _nan
def _max(a, b):      # nmax a b = if a < b then b else a
    return b if a < b else a
def _min(a, b):      # nmin a b = if b < a then b else a
    return b if b < a else a
def _clip(lo, hi, x):
    return _min(_max(x, lo), hi)
def _sign(x):
    return 1.0 if 0.0 < x else ((0.0 - 1.0) if x < 0.0 else 0.0)
'''


def render_coq(name, lets, result, grad):
    sig = f"Definition {name} {{T : Type}} (o : NumOps T) (eps : T) (n K : nat) (Y : nat -> nat -> T)"
    sig += " (i k : nat) : T :=" if grad else " : T :="
    lines = [sig]
    for uid, params, kind, term in prune(lets, result):
        if params:
            ps = " ".join(f"({p} : nat)" for p, _ in params)
            lines.append(f"  let {uid} := fun {ps} => {coq(term)} in")
        else:
            lines.append(f"  let {uid} := {coq(term)} in")
    lines.append(f"  {coq(result)}.")
    return "\n".join(lines)


def render_py(name, lets, result, grad):
    lines = [f"def {name}(eps, n, K, Y" + (", i, k" if grad else "") + "):"]
    for uid, params, kind, term in prune(lets, result):
        if params:
            lines.append(f"    {uid} = lambda {', '.join(p for p, _ in params)}: {py(term)}")
        else:
            lines.append(f"    {uid} = {py(term)}")
    lines.append(f"    return {py(result)}")
    return "\n".join(lines)


# ------------------------------------------------------------------------------------------- driver
def find_evaluate(tree, cls):
    cs = [n for n in tree.body if isinstance(n, ast.ClassDef) and n.name == cls]
    if len(cs) != 1:
        fail(f"class {cls} not found exactly once")
    fs = [n for n in cs[0].body if isinstance(n, ast.FunctionDef) and n.name == "evaluate"]
    if len(fs) != 1:
        fail(f"{cls}.evaluate not found exactly once")
    fn = fs[0]
    a = fn.args
    if fn.decorator_list or a.vararg or a.kwarg or a.kwonlyargs or a.posonlyargs \
            or [x.arg for x in a.args] != ["self", "y_pred", "affinity", "return_grad"] \
            or len(a.defaults) != 1 or not (isinstance(a.defaults[0], ast.Constant) and a.defaults[0].value is False):
        fail(f"{cls}.evaluate: signature is not (self, y_pred, affinity, return_grad=False)", fn)
    for n in ast.walk(fn):
        if isinstance(n, (ast.Lambda, ast.FunctionDef, ast.AsyncFunctionDef, ast.ClassDef, ast.Global, ast.Nonlocal)) \
                and n is not fn:
            fail("nested scope in evaluate", n)
    return fn


def translate():
    raw = open(SRC, "rb").read()
    tree = ast.parse(raw.decode("utf-8"))
    digest = hashlib.sha256(raw).hexdigest()
    coq_defs, py_defs, ranges = [], [], []
    for short, cls in CLASSES:
        fn = find_evaluate(tree, cls)
        ranges.append(f"{cls}.evaluate lines {fn.lineno}-{fn.end_lineno}")
        for ovo in (False, True):
            suffix = "ovo" if ovo else "ova"
            lets0, score0, _ = interpret(fn, ovo, False)
            lets1, score1, grad1 = interpret(fn, ovo, True)
            for what, nm, lets, res, g in (
                    ("return_grad = False : the score", "score", lets0, score0, False),
                    ("return_grad = True : the score (first component)", "gscore", lets1, score1, False),
                    ("return_grad = True : entry [i, k] of the gradient (second component)", "grad", lets1, grad1, True)):
                coq_defs.append(f"(* {cls}.evaluate, self.ovo = {ovo}, {what} *)\n"
                                + render_coq(f"gen_{short}_{nm}_{suffix}", lets, res, g))
                py_defs.append(render_py(f"gen_{short}_{nm}_{suffix}", lets, res, g))
    head = ["(* GENERATED by translator/tr_fdiv.py - do not edit.",
            "   Source: gemclus/gemini/_fdivergences.py  sha256 " + digest]
    head += ["   " + r for r in ranges]
    head += ["   Symbolic, shape-aware translation of the numpy code of the four evaluate methods (y_pred = Y : (n, K),",
             "   self.epsilon = eps), one definition per value of self.ovo and per returned component; every assigned",
             "   Python variable is a `let`, arrays are functions of their non-unit indices, the arithmetic keeps the",
             "   grouping of the source.  Compared with the hand-written Model/Gemini.v in Proofs/FDivGen.v. *)",
             "From GV Require Import Common.Num.", ""]
    coq_text = "\n".join(head) + "\n" + "\n\n".join(coq_defs) + "\n"
    py_text = PY_PRELUDE + "\n" + "\n\n".join(py_defs) + "\n"
    return coq_text, py_text


def main():
    argv = sys.argv[1:]
    if argv not in ([], ["--python"]):
        die("usage: tr_fdiv.py [--python]")
    try:
        coq_text, py_text = translate()
    except Fail as e:
        die(str(e))
    except Exception as e:  # noqa  (anything unexpected is a failure to translate, never a partial output)
        die(f"{type(e).__name__}: {e}")
    if argv == ["--python"]:
        sys.stdout.write(py_text)
        return
    os.makedirs(os.path.dirname(OUT), exist_ok=True)
    if not os.path.exists(OUT) or open(OUT).read() != coq_text:
        open(OUT, "w").write(coq_text)
        print("tr_fdiv: wrote", OUT)
        # build.sh reports BUILD-FAIL only for a MISSING .vo: remove the compiled equality proofs so that a failing
        # re-compilation against the new text cannot hide behind the stale object of the previous text
        for ext in (".vo", ".vos", ".vok", ".glob"):
            stale = os.path.join(ROOT, "coq", "Proofs", "FDivGen" + ext)
            if os.path.exists(stale):
                os.remove(stale)
    else:
        print("tr_fdiv: unchanged", OUT)


if __name__ == "__main__":
    main()
