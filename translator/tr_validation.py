#!/usr/bin/env python3
"""C16 — fail-closed translator: the validation code of /repo that coq/Model/Validation.v models by hand
  ->  coq/Gen/ValidationRules.v

1. gemclus/sparse/_base_sparse.py::check_groups is translated WHOLE into a Gallina function on lists
   (`check_groups_gen`): the extend loop, the integer-entry test, the range test with its non-emptiness guard, the
   full-length branch with the set comparison, the duplicate test and the completion with singleton groups.  The Python
   expressions are mapped on the list primitives py_* of Model/Validation.v.
2. The ORDER OF CHECKS AND WRITES of DiscriminativeModel.fit, SparseLinearModel.fit, SparseMLPModel.fit, KernelRIM.fit,
   Kauri.fit and Douglas._init_params: each body is read statement by statement into a list of events (validation calls,
   guarded raises, first stores of fitted attributes, super().fit, branches whose arms differ).  A statement is skipped only
   when it is inert: it contains no raise, no store on self, no call of a validation / fitting entry point — directly or through
   a method of self / a function of the same module (these are looked up and analysed; never taken on trust).  A private helper
   that does validate or store is INLINED at its call (`X = self._helper(X)`), anything else fails closed.
3. The scalar rules: Kauri's cross-parameter comparison, Douglas' two feature-mask tests, the shape test of
   gemini/_geomdistances.py::_check_precomputed and of Kauri._compute_kernel, and which hyper-parameter is the
   ensure_min_samples bound.

Any statement or expression outside these fragments makes the translator exit non-zero WITHOUT writing."""
import ast, hashlib, os, sys

REPO = os.environ.get("VERIF_REPO", "/repo")
ROOT = os.path.dirname(os.path.dirname(os.path.abspath(__file__)))
OUT = os.path.join(ROOT, "coq", "Gen", "ValidationRules.v")
DEPENDENTS = ["Proofs/Validation", "Props/C16"]
F_SPARSE = "gemclus/sparse/_base_sparse.py"
F_BASE = "gemclus/_base_gemini.py"
F_SL = "gemclus/sparse/_linear_sparse.py"
F_SM = "gemclus/sparse/_mlp_sparse.py"
F_LIN = "gemclus/linear/_linear_geminis.py"
F_KAURI = "gemclus/tree/kauri.py"
F_DOUGLAS = "gemclus/tree/douglas.py"
F_GEOM = "gemclus/gemini/_geomdistances.py"


class Unknown(Exception):
    pass


def fail(msg, node=None):
    raise Unknown(f"{msg} (line {getattr(node, 'lineno', '?')})" + (f": {ast.unparse(node)[:120]}" if isinstance(node, ast.AST) else ""))


def q(s):
    if not isinstance(s, str) or any(ord(ch) < 32 or ord(ch) > 126 for ch in s):
        fail(f"string not printable ASCII: {s!r}")
    return '"' + s.replace('"', '""') + '"'


SOURCES = {}


def load(rel):
    if rel not in SOURCES:
        raw = open(os.path.join(REPO, rel), "rb").read()
        SOURCES[rel] = (ast.parse(raw.decode(), rel), hashlib.sha256(raw).hexdigest())
    return SOURCES[rel][0]


RANGES = []


def find_function(rel, name, cls=None):
    tree = load(rel)
    body = tree.body
    if cls is not None:
        cs = [n for n in body if isinstance(n, ast.ClassDef) and n.name == cls]
        if len(cs) != 1:
            fail(f"{rel}: class {cls} not found exactly once")
        body = cs[0].body
    fs = [n for n in body if isinstance(n, ast.FunctionDef) and n.name == name]
    if len(fs) != 1:
        fail(f"{rel}: function {cls + '.' if cls else ''}{name} not found exactly once")
    r = f"{rel}::{cls + '.' if cls else ''}{name} lines {fs[0].lineno}-{fs[0].end_lineno}"
    if r not in RANGES:
        RANGES.append(r)
    return fs[0]


def strip_doc(body):
    if body and isinstance(body[0], ast.Expr) and isinstance(body[0].value, ast.Constant) and isinstance(body[0].value.value, str):
        return body[1:]
    return body


# =============================================================================================== 1. check_groups, whole
# types: G list (list gentry) | L list gentry | E gentry | S a list used as a set | nat | Z | bool | lit
def is_name(e, n):
    return isinstance(e, ast.Name) and e.id == n


def coerce_int(txt, ty, want, node):
    if ty == want:
        return txt
    if ty == "lit":
        if want == "nat":
            if txt < 0:
                fail("negative literal compared with a length", node)
            return str(txt)
        return f"{txt}%Z" if txt >= 0 else f"({txt})%Z"
    if ty == "nat" and want == "Z":
        return f"(Z.of_nat {txt})"
    fail(f"cannot use a {ty} where a {want} is needed", node)


NAT_CMP = {ast.Eq: "Nat.eqb ({a}) ({b})", ast.NotEq: "negb (Nat.eqb ({a}) ({b}))", ast.Lt: "Nat.ltb ({a}) ({b})",
           ast.LtE: "Nat.leb ({a}) ({b})", ast.Gt: "Nat.ltb ({b}) ({a})", ast.GtE: "Nat.leb ({b}) ({a})"}
Z_CMP = {ast.Eq: "Z.eqb ({a}) ({b})", ast.NotEq: "negb (Z.eqb ({a}) ({b}))", ast.Lt: "Z.ltb ({a}) ({b})",
         ast.LtE: "Z.leb ({a}) ({b})", ast.Gt: "Z.gtb ({a}) ({b})", ast.GtE: "Z.geb ({a}) ({b})"}


def cmp_int(op, a, ta, b, tb, node):
    ty = "Z" if "Z" in (ta, tb) else "nat"
    a, b = coerce_int(a, ta, ty, node), coerce_int(b, tb, ty, node)
    table = Z_CMP if ty == "Z" else NAT_CMP
    if type(op) not in table:
        fail("comparison operator not supported", node)
    return table[type(op)].format(a=a, b=b)


def gx(e, env):
    """expression of check_groups -> (coq text | int literal, type)"""
    if isinstance(e, ast.Name):
        if e.id not in env:
            fail("unknown name", e)
        return env[e.id]
    if isinstance(e, ast.Constant) and isinstance(e.value, int) and not isinstance(e.value, bool):
        return e.value, "lit"
    if isinstance(e, ast.UnaryOp) and isinstance(e.op, ast.Not):
        t, ty = gx(e.operand, env)
        if ty != "bool":
            fail("not of a non-boolean", e)
        return f"negb ({t})", "bool"
    if isinstance(e, ast.BoolOp):
        parts = []
        for v in e.values:
            t, ty = gx(v, env)
            if ty != "bool":
                fail("non-boolean operand of and/or", v)
            parts.append(f"({t})")
        return (" || " if isinstance(e.op, ast.Or) else " && ").join(parts), "bool"
    if isinstance(e, ast.Call) and isinstance(e.func, ast.Name) and not e.keywords:
        f, args = e.func.id, e.args
        if f == "len" and len(args) == 1:
            t, ty = gx(args[0], env)
            if ty == "L":
                return f"List.length {t}", "nat"
            if ty == "S":
                return f"List.length (py_set {t})", "nat"
            fail("len of something that is not a list of entries", e)
        if f in ("min", "max") and len(args) == 1:
            t, ty = gx(args[0], env)
            if ty != "L":
                fail(f"{f} of something that is not a list of entries", e)
            return f"py_{f} {t}", "Z"
        if f == "set" and len(args) == 1:
            t, ty = gx(args[0], env)
            if ty != "L":
                fail("set of something that is not a list of entries", e)
            return t, "S"
        if f == "range" and len(args) == 1:
            t, ty = gx(args[0], env)
            if ty != "nat":
                fail("range of something that is not the number of features", e)
            return f"(py_range {t})", "L"
        if f == "isinstance" and len(args) == 2:
            t, ty = gx(args[0], env)
            if ty != "E":
                fail("isinstance of something that is not an entry", e)
            c = args[1]
            if is_name(c, "bool"):
                return f"py_is_bool {t}", "bool"
            if isinstance(c, ast.Tuple) and len(c.elts) == 2 and is_name(c.elts[0], "int") and ast.unparse(c.elts[1]) in ("np.integer", "numpy.integer"):
                return f"py_is_int {t}", "bool"
            fail("isinstance against an unknown class", e)
        if f == "any" and len(args) == 1 and isinstance(args[0], ast.GeneratorExp):
            g = args[0]
            if len(g.generators) != 1 or g.generators[0].ifs or g.generators[0].is_async or not isinstance(g.generators[0].target, ast.Name):
                fail("generator shape", e)
            it, ity = gx(g.generators[0].iter, env)
            if ity != "L":
                fail("any over something that is not a list of entries", e)
            v = g.generators[0].target.id
            body, bty = gx(g.elt, dict(env, **{v: (v, "E")}))
            if bty != "bool":
                fail("any of non-booleans", e)
            return f"existsb (fun {v} => {body}) {it}", "bool"
        fail("unknown call", e)
    if isinstance(e, ast.Compare) and len(e.ops) == 1:
        op = e.ops[0]
        a, ta = gx(e.left, env)
        b, tb = gx(e.comparators[0], env)
        if isinstance(op, (ast.In, ast.NotIn)):
            if ta != "E" or tb != "L":
                fail("membership test outside entry-in-list", e)
            t = f"py_in {a} {b}"
            return (t if isinstance(op, ast.In) else f"negb ({t})"), "bool"
        if ta == "S" and tb == "S" and isinstance(op, (ast.Eq, ast.NotEq)):
            t = f"py_set_eq {a} {b}"
            return (t if isinstance(op, ast.Eq) else f"negb ({t})"), "bool"
        if ta in ("nat", "Z", "lit") and tb in ("nat", "Z", "lit") and (ta, tb) != ("lit", "lit"):
            return cmp_int(op, a, ta, b, tb, e), "bool"
        fail("comparison of unsupported operands", e)
    if isinstance(e, ast.BinOp) and isinstance(e.op, ast.Add):
        a, ta = gx(e.left, env)
        b, tb = gx(e.right, env)
        if ta == "G" and tb == "G":
            return f"{a} ++ {b}", "G"
        fail("+ of something that is not two group lists", e)
    if isinstance(e, ast.ListComp):
        if len(e.generators) != 1 or e.generators[0].is_async or not isinstance(e.generators[0].target, ast.Name):
            fail("comprehension shape", e)
        gen = e.generators[0]
        it, ity = gx(gen.iter, env)
        # [list(g) for g in groups]: every group copied into a fresh list (a tuple / array becomes a list of its entries)
        if ity == "G" and not gen.ifs and ast.unparse(e.elt) == f"list({gen.target.id})":
            return f"map py_listify {it}", "G"
        if ity != "L":
            fail("comprehension over something that is not a list of entries", e)
        v = gen.target.id
        env2 = dict(env, **{v: (v, "E")})
        src = it
        for cond in gen.ifs:
            c, cty = gx(cond, env2)
            if cty != "bool":
                fail("non-boolean comprehension filter", cond)
            src = f"(filter (fun {v} => {c}) {src})"
        if isinstance(e.elt, ast.List) and len(e.elt.elts) == 1 and is_name(e.elt.elts[0], v):
            return f"map (fun {v} => [{v}]) {src}", "G"
        fail("comprehension element is not a singleton group", e)
    fail(f"unknown expression node {type(e).__name__}", e)


def gbool(e, env):
    t, ty = gx(e, env)
    if ty != "bool":
        fail("a test was expected", e)
    return t


def is_raise(stmts):
    return len(stmts) == 1 and isinstance(stmts[0], ast.Raise)


def gstmts(stmts, env, ind):
    """statement list of check_groups (after `if groups is not None:`) -> Coq term of type option (list (list gentry))"""
    pad = "  " * ind
    if not stmts:
        fail("control reaches the end of check_groups without a return")
    st, rest = stmts[0], stmts[1:]
    # all_indices = [] ; for g in groups: all_indices.extend(list(g))
    if isinstance(st, ast.Assign) and len(st.targets) == 1 and isinstance(st.targets[0], ast.Name) and isinstance(st.value, ast.List) and not st.value.elts:
        acc = st.targets[0].id
        if not rest or not isinstance(rest[0], ast.For):
            fail("an empty list that is not filled by the next loop", st)
        lp = rest[0]
        ok = (isinstance(lp.target, ast.Name) and not lp.orelse and len(lp.body) == 1 and isinstance(lp.body[0], ast.Expr)
              and ast.unparse(lp.body[0].value) == f"{acc}.extend(list({lp.target.id}))")
        it, ity = gx(lp.iter, env)
        if not ok or ity != "G":
            fail("loop that is not `for g in groups: acc.extend(list(g))`", lp)
        return f"{pad}let {acc} := List.concat {it} in\n" + gstmts(rest[1:], dict(env, **{acc: (acc, "L")}), ind)
    if isinstance(st, ast.If):
        t = gbool(st.test, env)
        if is_raise(st.body) and not st.orelse:
            return f"{pad}if {t} then None else\n" + gstmts(rest, env, ind)
        if st.orelse and not rest:
            return f"{pad}if {t} then\n{pad}  (\n" + gstmts(st.body, env, ind + 2) + f"\n{pad}  )\n{pad}else\n{pad}  (\n" + gstmts(st.orelse, env, ind + 2) + f"\n{pad}  )"
        fail("if statement of unsupported shape", st)
    if isinstance(st, ast.Assign) and len(st.targets) == 1 and isinstance(st.targets[0], ast.Name):
        t, ty = gx(st.value, env)
        if ty not in ("G", "L"):
            fail("assignment of a value that is neither a group list nor an entry list", st)
        v = st.targets[0].id
        return f"{pad}let {v} := {t} in\n" + gstmts(rest, dict(env, **{v: (v, ty)}), ind)
    if isinstance(st, ast.Return) and not rest:
        t, ty = gx(st.value, env)
        if ty != "G":
            fail("return of something that is not a group list", st)
        return f"{pad}Some ({t})"
    fail(f"unknown statement {type(st).__name__}", st)


def translate_check_groups():
    fn = find_function(F_SPARSE, "check_groups")
    a = fn.args
    if [x.arg for x in a.args] != ["groups", "n_features_in"] or a.vararg or a.kwarg or a.kwonlyargs or a.defaults or fn.decorator_list:
        fail("signature of check_groups", fn)
    body = strip_doc(fn.body)
    if len(body) != 1 or not isinstance(body[0], ast.If) or ast.unparse(body[0].test) != "groups is not None":
        fail("check_groups is not `if groups is not None: ... else: return None`", fn)
    oe = body[0].orelse
    if not (len(oe) == 1 and isinstance(oe[0], ast.Return) and isinstance(oe[0].value, ast.Constant) and oe[0].value.value is None):
        fail("the None branch of check_groups does not return None", body[0])
    env = {"groups": ("groups", "G"), "n_features_in": ("n_features_in", "nat")}
    return ("Definition check_groups_gen (groups : list (list gentry)) (n_features_in : nat) : option (list (list gentry)) :=\n"
            + gstmts(body[0].body, env, 1) + ".\n")


# =============================================================================================== 2. checks and writes
CHECK_CALLS = {"_validate_params", "check_array", "validate_data", "check_groups", "compute_affinity", "_compute_kernel",
               "_init_params", "check_is_fitted", "fit", "_check_precomputed"}


def call_name(c):
    if isinstance(c.func, ast.Attribute):
        return c.func.attr
    if isinstance(c.func, ast.Name):
        return c.func.id
    return None


def self_attr(t):
    return t.attr if isinstance(t, ast.Attribute) and isinstance(t.value, ast.Name) and t.value.id == "self" else None


F_MLP = "gemclus/mlp/_mlp_geminis.py"
CLASS_FILES = [F_BASE, F_LIN, F_MLP, F_SL, F_SM, F_KAURI, F_DOUGLAS]
# methods inherited from scikit-learn's BaseEstimator that only read the hyper-parameters
SK_SAFE = {"get_params", "__sklearn_tags__", "_more_tags", "_get_tags"}
_INDEX = {}


def index():
    """class name -> (file, ClassDef); file -> {module-level function name -> FunctionDef}"""
    if not _INDEX:
        classes, funcs = {}, {}
        for rel in CLASS_FILES:
            tree = load(rel)
            funcs[rel] = {n.name: n for n in tree.body if isinstance(n, ast.FunctionDef)}
            for n in tree.body:
                if isinstance(n, ast.ClassDef):
                    if n.name in classes:
                        fail(f"class {n.name} defined twice")
                    classes[n.name] = (rel, n)
        _INDEX["classes"], _INDEX["funcs"] = classes, funcs
    return _INDEX["classes"], _INDEX["funcs"]


def resolve_method(cls, meth, depth=0):
    """The definition `self.meth` refers to, statically: the class itself, then its in-repo bases (depth first). -> (owner, FunctionDef) | None"""
    classes, _ = index()
    if cls not in classes or depth > 6:
        return None
    rel, cd = classes[cls]
    for n in cd.body:
        if isinstance(n, ast.FunctionDef) and n.name == meth:
            return cls, n
    for b in cd.bases:
        bn = b.id if isinstance(b, ast.Name) else b.attr if isinstance(b, ast.Attribute) else None
        r = resolve_method(bn, meth, depth + 1) if bn else None
        if r:
            return r
    return None


def calls_ok(node, cls, depth, allow_flow):
    """Shared walk.  False as soon as the node contains a raise, a store / delete on self, a call of a validation or fitting
    entry point, or a call of a method of self / a function of the same module that is not itself free of those.
    A call outside the vocabulary is never taken on trust: it is looked up and analysed, or the answer is False."""
    classes, funcs = index()
    rel = classes[cls][0] if cls in classes else None
    banned = (ast.Raise, ast.Assert, ast.Try, ast.With, ast.Delete, ast.Global, ast.Nonlocal) + (() if allow_flow else (ast.Return, ast.Yield, ast.YieldFrom))
    for n in ast.walk(node):
        if isinstance(n, banned):
            return False
        if isinstance(n, ast.Attribute) and isinstance(n.ctx, (ast.Store, ast.Del)) and isinstance(n.value, ast.Name) and n.value.id == "self":
            return False
        if isinstance(n, ast.Call):
            nm = call_name(n)
            if nm in CHECK_CALLS or nm in ("setattr", "super", "set_params", "__setattr__", "exec", "eval"):
                return False
            if isinstance(n.func, ast.Attribute) and is_name(n.func.value, "self"):
                r = resolve_method(cls, nm)
                if r is None:
                    if nm not in SK_SAFE:
                        return False
                elif depth >= 4 or not calls_ok(r[1], r[0], depth + 1, True):
                    return False
            elif isinstance(n.func, ast.Name) and rel is not None and nm in funcs[rel]:
                if depth >= 4 or not calls_ok(funcs[rel][nm], cls, depth + 1, True):
                    return False
            elif any(is_name(a, "self") for a in n.args) or any(is_name(k.value, "self") for k in n.keywords):
                return False          # the estimator handed to a function this translator cannot see into
    return True


def inert(node, cls=None):
    """No raise, no store / delete on self, no validation or fitting entry point, directly or through helpers."""
    return calls_ok(node, cls, 0, False)


def is_self_call(c, meth):
    return isinstance(c, ast.Call) and isinstance(c.func, ast.Attribute) and c.func.attr == meth and is_name(c.func.value, "self")


def is_super_fit(c, cls=None):
    return (isinstance(c, ast.Call) and isinstance(c.func, ast.Attribute) and c.func.attr == "fit" and isinstance(c.func.value, ast.Call)
            and is_name(c.func.value.func, "super") and not c.func.value.args and all(inert(a, cls) for a in c.args) and not c.keywords)


def validate_data_event(c, st, cls):
    if not (isinstance(c.func, ast.Name) and c.func.id == "validate_data" and len(c.args) == 2 and is_name(c.args[0], "self") and is_name(c.args[1], "X")):
        fail("validate_data call shape", st)
    ms = None
    for kw in c.keywords:
        if kw.arg == "ensure_min_samples":
            a = self_attr(kw.value)
            if a is None:
                fail("ensure_min_samples is not a hyper-parameter", st)
            ms = a
        elif kw.arg in ("accept_sparse", "dtype"):
            if not inert(kw.value, cls):
                fail("validate_data keyword", st)
        else:
            fail(f"validate_data keyword {kw.arg}", st)
    return f"EValidateData {'None' if ms is None else '(Some ' + q(ms) + ')'}"


def helper_call(st, cls):
    """`self.m(...)` as a whole statement or as the value of `name = self.m(...)`, m outside the vocabulary and defined in the repository."""
    c = st.value if isinstance(st, ast.Expr) or (isinstance(st, ast.Assign) and len(st.targets) == 1 and isinstance(st.targets[0], ast.Name)) else None
    if not (isinstance(c, ast.Call) and isinstance(c.func, ast.Attribute) and is_name(c.func.value, "self")) or c.func.attr in CHECK_CALLS:
        return None
    r = resolve_method(cls, c.func.attr)
    return None if r is None else (r[0], r[1], c)


def rule_id(test):
    """A guarded raise is identified by what its test reads (the comparison itself is translated in part 3 and tied
    semantically): sorted hyper-parameters / local names, e.g. 'min_samples_leaf,min_samples_split'."""
    names = set()
    for n in ast.walk(test):
        a = self_attr(n)
        if a:
            names.add(a)
        elif isinstance(n, ast.Name) and n.id not in ("self", "np", "numpy", "len"):
            names.add(n.id)
    if not names:
        fail("guarded raise whose test reads nothing", test)
    return ",".join(sorted(names))


def events(stmts, cls, depth=0, inlined=False):
    out = []
    for st in strip_doc(stmts):
        # self._validate_params()
        if isinstance(st, ast.Expr) and is_self_call(st.value, "_validate_params") and not st.value.args and not st.value.keywords:
            out.append("EValidateParams")
        # X = check_array(X)
        elif (isinstance(st, ast.Assign) and len(st.targets) == 1 and is_name(st.targets[0], "X") and isinstance(st.value, ast.Call)
              and is_name(st.value.func, "check_array")):
            if not (len(st.value.args) == 1 and is_name(st.value.args[0], "X") and not st.value.keywords):
                fail("check_array call shape", st)
            out.append("ECheckArray")
        # X = validate_data(self, X, ...) / validate_data(self, X)
        elif (isinstance(st, (ast.Assign, ast.Expr)) and isinstance(st.value, ast.Call) and is_name(st.value.func, "validate_data")):
            if isinstance(st, ast.Assign) and not (len(st.targets) == 1 and is_name(st.targets[0], "X")):
                fail("validate_data result stored elsewhere than X", st)
            out.append(validate_data_event(st.value, st, cls))
        # if <test>: raise ...
        elif isinstance(st, ast.If) and is_raise(st.body) and not st.orelse:
            if not inert(st.test, cls):
                fail("test of a guarded raise is not inert", st)
            out.append(f"ERaiseIf {q(rule_id(st.test))}")
        # self._init_params(random_state, X)
        elif isinstance(st, ast.Expr) and is_self_call(st.value, "_init_params"):
            out.append("EInitParams")
        # super().fit(...) / return super().fit(...)
        elif isinstance(st, (ast.Expr, ast.Return)) and st.value is not None and is_super_fit(st.value, cls):
            out.append("ESuperFit")
        elif isinstance(st, ast.Return):
            if not (is_name(st.value, "self") or (inlined and (st.value is None or inert(st.value, cls)))):
                fail("return of something else than self / super().fit(..)", st)
        # X = self._helper(X) / self._helper(...): a private helper outside the vocabulary is INLINED when it is not effect free
        elif helper_call(st, cls) is not None:
            owner, fn, call = helper_call(st, cls)
            if calls_ok(fn, owner, 1, True):
                continue
            if depth >= 2 or not all(inert(a, cls) for a in call.args) or any(not inert(k.value, cls) for k in call.keywords) or fn.decorator_list:
                fail("helper that validates or stores cannot be inlined here", st)
            out += events(fn.body, owner, depth + 1, True)
        # stores: self.a = ..., n, self.a = ...
        elif isinstance(st, ast.Assign) and any(self_attr(t) or (isinstance(t, ast.Tuple) and any(self_attr(x) for x in t.elts)) for t in st.targets):
            if len(st.targets) != 1:
                fail("chained assignment on self", st)
            t = st.targets[0]
            attrs = [self_attr(t)] if self_attr(t) else [self_attr(x) for x in t.elts if self_attr(x)]
            v = st.value
            if isinstance(v, ast.Call) and is_name(v.func, "check_groups"):
                if ast.unparse(v) != "check_groups(self.groups, X.shape[1])":
                    fail("check_groups call shape", st)
                out.append("ECheckGroups")
            elif is_self_call(v, "_compute_kernel"):
                if not all(inert(a, cls) for a in v.args) or v.keywords:
                    fail("_compute_kernel call shape", st)
                out.append("EAffinity")
            elif not inert(v, cls):
                fail("stored value is not inert", st)
            for a in attrs:
                if not a.endswith("_"):
                    fail("fit stores a hyper-parameter", st)
                out.append(f"EStore {q(a)}")
        # affinity = gemini.compute_affinity(X, y) / kernel = self._compute_kernel(X, y)
        elif (isinstance(st, ast.Assign) and len(st.targets) == 1 and isinstance(st.targets[0], ast.Name) and isinstance(st.value, ast.Call)
              and call_name(st.value) in ("compute_affinity", "_compute_kernel")):
            c = st.value
            if not (isinstance(c.func, ast.Attribute) and isinstance(c.func.value, ast.Name) and c.func.value.id in ("gemini", "self")
                    and [ast.unparse(a) for a in c.args] == ["X", "y"] and not c.keywords):
                fail("affinity call shape", st)
            out.append("EAffinity")
        elif isinstance(st, ast.If) and not inert(st, cls):
            if not inert(st.test, cls):
                fail("test of a branch is not inert", st)
            a, b = events(st.body, cls, depth, inlined), events(st.orelse, cls, depth, inlined)
            if a == b:
                out += a
            else:
                out.append(f"EBranch {q(rule_id(st.test))} [{'; '.join(a)}] [{'; '.join(b)}]")
        elif inert(st, cls):
            continue
        else:
            fail("statement that is neither a known validation step / store nor inert", st)
    return out


def translate_events():
    spl = events(find_function(F_SL, "fit", "SparseLinearModel").body, "SparseLinearModel")
    spm = events(find_function(F_SM, "fit", "SparseMLPModel").body, "SparseMLPModel")
    defs = [("base_fit_events", events(find_function(F_BASE, "fit", "DiscriminativeModel").body, "DiscriminativeModel")),
            ("sparse_linear_fit_events", spl), ("sparse_mlp_fit_events", spm),
            ("kernelrim_fit_events", events(find_function(F_LIN, "fit", "KernelRIM").body, "KernelRIM")),
            ("kauri_fit_events", events(find_function(F_KAURI, "fit", "Kauri").body, "Kauri")),
            ("douglas_init_events", events(find_function(F_DOUGLAS, "_init_params", "Douglas").body, "Douglas"))]
    return "".join(f"Definition {n} : list fevent :=\n  [{'; '.join(ev)}].\n" for n, ev in defs)


# =============================================================================================== 3. scalar rules
def sx(e, env):
    """integer expression / comparison over named quantities -> (text, type in Z | nat | lit | bool)"""
    key = ast.unparse(e)
    if key in env:
        return env[key]
    if isinstance(e, ast.Constant) and isinstance(e.value, int) and not isinstance(e.value, bool):
        return e.value, "lit"
    if isinstance(e, ast.BinOp) and isinstance(e.op, (ast.Mult, ast.Add, ast.Sub)):
        a, ta = sx(e.left, env)
        b, tb = sx(e.right, env)
        if "Z" not in (ta, tb):
            fail("arithmetic outside the integers", e)
        a, b = coerce_int(a, ta, "Z", e), coerce_int(b, tb, "Z", e)
        return f"(Z.{ {ast.Mult: 'mul', ast.Add: 'add', ast.Sub: 'sub'}[type(e.op)] } {a} {b})", "Z"
    if isinstance(e, ast.Compare) and len(e.ops) == 1:
        a, ta = sx(e.left, env)
        b, tb = sx(e.comparators[0], env)
        if ta in ("nat", "Z", "lit") and tb in ("nat", "Z", "lit") and (ta, tb) != ("lit", "lit"):
            return cmp_int(e.ops[0], a, ta, b, tb, e), "bool"
        fail("comparison of unsupported operands", e)
    if isinstance(e, ast.BoolOp):
        parts = []
        for v in e.values:
            t, ty = sx(v, env)
            if ty != "bool":
                fail("non-boolean operand of and/or", v)
            parts.append(f"({t})")
        return (" || " if isinstance(e.op, ast.Or) else " && ").join(parts), "bool"
    if isinstance(e, ast.UnaryOp) and isinstance(e.op, ast.Not):
        t, ty = sx(e.operand, env)
        if ty != "bool":
            fail("not of a non-boolean", e)
        return f"negb ({t})", "bool"
    fail(f"unknown expression in a rule: {key}", e)


def sbool(e, env):
    t, ty = sx(e, env)
    if ty != "bool":
        fail("a test was expected", e)
    return t


def guarded_raises(fn_or_stmts):
    return [st for st in ast.walk(fn_or_stmts) if isinstance(st, ast.If) and is_raise(st.body) and not st.orelse]


def translate_rules():
    out = ""
    # Kauri.fit: the only guarded raise of the body
    kf = find_function(F_KAURI, "fit", "Kauri")
    rs = [st for st in strip_doc(kf.body) if isinstance(st, ast.If) and is_raise(st.body) and not st.orelse]
    if len(rs) != 1:
        fail("Kauri.fit does not have exactly one top-level guarded raise", kf)
    env = {"self.min_samples_leaf": ("min_samples_leaf", "Z"), "self.min_samples_split": ("min_samples_split", "Z")}
    out += "(* Kauri.fit: if <test>: raise ValueError *)\n"
    out += f"Definition kauri_cross_violated_gen (min_samples_leaf min_samples_split : Z) : bool :=\n  {sbool(rs[0].test, env)}.\n"
    # Douglas._init_params: the guarded raises of the mask branch, in order
    df = find_function(F_DOUGLAS, "_init_params", "Douglas")
    rs = guarded_raises(df)
    env = {"len(self.feature_mask)": ("List.length feature_mask", "nat"), "X.shape[1]": ("d", "nat"),
           "np.any(self.feature_mask)": ("existsb (fun b => b) feature_mask", "bool")}
    out += "(* Douglas._init_params: the guarded raises, in source order *)\n"
    out += "Definition douglas_mask_violated_gen (feature_mask : list bool) (d : nat) : list bool :=\n  [" + "; ".join(sbool(r.test, env) for r in rs) + "].\n"
    # _check_precomputed and Kauri._compute_kernel
    for label, fn, var in (("precomputed_shape_bad_gen", find_function(F_GEOM, "_check_precomputed"), "y"),
                           ("kauri_precomputed_shape_bad_gen", find_function(F_KAURI, "_compute_kernel", "Kauri"), "kernel")):
        assigns = [st for st in ast.walk(fn) if isinstance(st, ast.Assign) and len(st.targets) == 1 and is_name(st.targets[0], var)
                   and isinstance(st.value, ast.Call) and is_name(st.value.func, "check_array")]
        if len(assigns) != 1 or len(assigns[0].value.args) != 1 or not is_name(assigns[0].value.args[0], "y") \
                or [k.arg for k in assigns[0].value.keywords] != ["input_name"]:
            fail(f"{label}: the precomputed matrix does not go through check_array(y, input_name=..) exactly once", fn)
        rs = [r for r in guarded_raises(fn) if var + ".shape" in ast.unparse(r.test)]
        if len(rs) != 1 or rs[0].lineno < assigns[0].lineno:
            fail(f"{label}: exactly one shape test after check_array expected", fn)
        env = {f"{var}.shape[0]": ("rows", "nat"), f"{var}.shape[1]": ("cols", "nat"), "len(X)": ("n", "nat")}
        out += f"(* {label[:-4]}: {var} = check_array(y, ...); if <test>: raise ValueError *)\n"
        out += f"Definition {label} (rows cols n : nat) : bool :=\n  {sbool(rs[0].test, env)}.\n"
    # both precomputed branches of the GEMINIs go through _check_precomputed
    geom = load(F_GEOM)
    for cls in ("MMDGEMINI", "WassersteinGEMINI"):
        fn = find_function(F_GEOM, "compute_affinity", cls)
        rets = [ast.unparse(n.value) for n in ast.walk(fn) if isinstance(n, ast.Return) and n.value is not None and "y" == ast.unparse(n.value).strip()]
        calls = [n for n in ast.walk(fn) if isinstance(n, ast.Return) and n.value is not None and ast.unparse(n.value) == "_check_precomputed(X, y)"]
        if rets or len(calls) != 1:
            fail(f"{cls}.compute_affinity does not return _check_precomputed(X, y) for a precomputed affinity", fn)
    return out


def main():
    try:
        parts = [translate_check_groups(), translate_events(), translate_rules()]
    except (Unknown, SyntaxError, OSError, KeyError) as e:
        print(f"tr_validation: FAIL-CLOSED, nothing written: {e}", file=sys.stderr)
        sys.exit(1)
    text = "(* GENERATED by translator/tr_validation.py from the current sources of the repository - do not edit.\n"
    text += "".join(f"   {rel} sha256 {h}\n" for rel, (_, h) in sorted(SOURCES.items()))
    text += "".join(f"   {r}\n" for r in RANGES) + "*)\n"
    text += "From Coq Require Import List String ZArith Bool Arith.\nFrom GV Require Import Model.Validation.\nImport ListNotations.\nOpen Scope string_scope.\nOpen Scope list_scope.\n\n"
    text += "(* 1. gemclus/sparse/_base_sparse.py::check_groups, whole (groups is not None) *)\n" + parts[0]
    text += "\n(* 2. validation calls, guarded raises and first stores of fitted attributes, in source order *)\n" + parts[1]
    text += "\n(* 3. scalar rules *)\n" + parts[2] + "(* EXTRACT: check_groups_gen *)\n"
    old = open(OUT).read() if os.path.exists(OUT) else None
    if old != text:
        os.makedirs(os.path.dirname(OUT), exist_ok=True)
        open(OUT, "w").write(text)
        for dep in DEPENDENTS + ["Gen/ValidationRules"]:
            for ext in (".vo", ".vos", ".vok", ".glob"):
                p = os.path.join(ROOT, "coq", dep + ext)
                if os.path.exists(p):
                    os.remove(p)
        print("tr_validation: wrote", OUT)
    else:
        print("tr_validation: unchanged")


if __name__ == "__main__":
    main()
