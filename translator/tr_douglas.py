#!/usr/bin/env python3
"""Fail-closed translator:  gemclus/tree/douglas.py :: Douglas.{_leaf_binning, _merge_leaf, _infer, _init_params,
find_active_points}  ->  coq/Gen/DouglasRules.v

Every covered method is matched statement by statement against the control skeleton the hand-written model
coq/Model/Douglas.v assumes; the right-hand sides (all the arithmetic of `_leaf_binning`, the einsum spec and the
reshape of `_merge_leaf`, the column slice / tuple components / reduce / matmul of `_infer`, the mask tests, the
comprehensions and the num_leaf formula of `_init_params`, the guard and the activity test of `find_active_points`)
are translated by a small typed expression translator into Gallina over the named numpy/Python operations of
Model/Douglas.v (section NumpyVocabulary).  One sample (row) at a time: the (N,1) column X of `_leaf_binning` is the
scalar of that row, an (N,m) matrix is the list of its row.  The grouping of the arithmetic is the grouping of the
source.  Proofs/DouglasGen.v proves every generated definition equal to the hand-written model (all NumOps).

Anything outside the vocabulary below makes the translator exit non-zero WITHOUT writing (tools/build.sh then
prints TRANSLATOR-FAIL; the check falls back on the correspondence, the previous Gen file stays in place):
  statements   x = e (plain names; self.cut_points_list_ / self.leaf_scores_ in _init_params); return e / e, e;
               if <test>: raise ValueError(..); `if self.verbose: print(..)`; docstrings; check_is_fitted(self);
               X = check_array(X); the `for (a, b) in self.cut_points_list_` loop; `if retain:` stores
  expressions  names, small integer literals, self.temperature / n_cuts / n_clusters / feature_mask / leaf_scores_ /
               cut_points_list_, len, X.shape[1], + - * / with numpy broadcasting (array-scalar, matrix-row), unary -,
               **, int(), < <= > >= == != (numbers, array-scalar), is None, not, & | on masks, np.any, .min() .max(),
               max(<item component> for .. in self.cut_points_list_),
               np.linspace (unit step only), np.expand_dims(axis=0), .reshape((1, -1)), np.argsort, v[order], np.zeros,
               np.concatenate, np.cumsum, X @ W (column times row), leaf @ leaf_scores_, softmax, np.einsum of two
               matrices with a batch index, .reshape((-1, np.prod(x.shape[1:]))), lambda, map, list, reduce,
               one-generator comprehensions, tuple components t[0] t[1], X[:, a:a+1], X[:, a],
               random_state.normal(size=..), range(..)
"""
import ast, hashlib, os, sys

ROOT = os.path.dirname(os.path.dirname(os.path.abspath(__file__)))
REPO = os.environ.get("VERIF_REPO", "/repo")
SRC = os.path.join(REPO, "gemclus", "tree", "douglas.py")
OUT = os.path.join(ROOT, "coq", "Gen", "DouglasRules.v")
DEPENDENTS = [("Proofs", "DouglasGen"), ("Props", "C15")]


class Fail(Exception):
    pass


def fail(msg, node=None):
    where = f" (line {getattr(node, 'lineno', '?')})" if node is not None else ""
    raise Fail(msg + where)


def die(msg):
    sys.stderr.write("tr_douglas: FAIL-CLOSED: " + msg + "\n")
    sys.exit(2)


# ------------------------------------------------------------------------------------------- types
# nat | T | vec (list T: 1-D array, or the row of an (N,m) matrix) | ivec (list nat) | bvec (list bool) | bool |
# colx (the (N,1) input column: scalar of the row) | col (a whole column nat -> T of nrows entries) |
# cube (list (list T)) | kvec (nat -> T, K entries) | lsmat (leaf_scores_) | cpl | mask | optmask |
# ('tuple', a, b) | ('list', a) | ('fun', a, b) | ('opt', a) | lit
ARR = ("vec", "row", "mat")        # list T representations


def is_arr(t):
    return t in ARR


NUMOP = {ast.Add: "nadd", ast.Sub: "nsub", ast.Mult: "nmul", ast.Div: "ndiv"}
NATOP = {ast.Add: "+", ast.Mult: "*"}


def lin(e, syms):
    """linear form {symbol: coef, 1: const} of an integer expression over the given symbol table (unparse -> name)"""
    key = ast.unparse(e)
    if key in syms:
        return {syms[key]: 1}
    if isinstance(e, ast.Constant) and isinstance(e.value, int) and not isinstance(e.value, bool):
        return {1: e.value}
    if isinstance(e, ast.BinOp) and isinstance(e.op, (ast.Add, ast.Sub)):
        a, b = lin(e.left, syms), lin(e.right, syms)
        sg = 1 if isinstance(e.op, ast.Add) else -1
        r = dict(a)
        for k, v in b.items():
            r[k] = r.get(k, 0) + sg * v
        return {k: v for k, v in r.items() if v != 0}
    fail(f"not a linear integer expression: {key}", e)


def lin_sub(a, b):
    r = dict(a)
    for k, v in b.items():
        r[k] = r.get(k, 0) - v
    return {k: v for k, v in r.items() if v != 0}


class Tr:
    """typed expression translator; env: unparse-text -> (coq term, type)"""

    def __init__(self, env, natsyms=None):
        self.env = dict(env)
        self.natsyms = dict(natsyms or {})
        self.pending = []          # (variable, option-valued term): max(..) of a possibly empty sequence

    def bind(self, name, term, ty):
        self.env[name] = (term, ty)

    def lit(self, v, want, node):
        if not isinstance(v, int) or isinstance(v, bool) or v < 0 or v > 1000:
            fail("unsupported literal", node)
        if want == "nat":
            return str(v)
        if want == "T":
            return "n0 o" if v == 0 else "n1 o" if v == 1 else f"nofnat o {v}"
        fail("literal in an unsupported position", node)

    def coerce(self, t, ty, want, e):
        if ty == "lit":
            return self.lit(t, want, e)
        if ty != want:
            fail(f"expected a {want}, found a {ty}: {ast.unparse(e)}", e)
        return t

    def num(self, e, want):
        t, ty = self.tr(e)
        return self.coerce(t, ty, want, e)

    def tr(self, e):
        key = ast.unparse(e)
        if key in self.env:
            return self.env[key]
        if isinstance(e, ast.Constant):
            if isinstance(e.value, int) and not isinstance(e.value, bool):
                return e.value, "lit"
            fail(f"constant {e.value!r} is not part of the vocabulary", e)
        if isinstance(e, ast.Tuple) and len(e.elts) == 2:
            a, ta = self.tr(e.elts[0])
            b, tb = self.tr(e.elts[1])
            if "lit" in (ta, tb):
                fail("literal inside a tuple", e)
            return f"({a}, {b})", ("tuple", ta, tb)
        if isinstance(e, ast.UnaryOp) and isinstance(e.op, ast.Not):
            a, ta = self.tr(e.operand)
            if ta != "bool":
                fail("`not` of a non-test", e)
            return f"negb {par(a)}", "bool"
        if isinstance(e, ast.UnaryOp) and isinstance(e.op, ast.USub):
            a, ta = self.tr(e.operand)
            if is_arr(ta):
                return f"map (fun e_ => nneg o e_) {par(a)}", ta
            if ta == "T":
                return f"nneg o {par(a)}", "T"
            fail("unary minus of an unsupported operand", e)
        if isinstance(e, ast.BinOp):
            return self.binop(e)
        if isinstance(e, ast.Compare) and len(e.ops) == 1:
            return self.compare(e)
        if isinstance(e, ast.Subscript):
            return self.subscript(e)
        if isinstance(e, ast.Call):
            return self.call(e)
        if isinstance(e, ast.Lambda):
            if len(e.args.args) != 1 or e.args.defaults or e.args.vararg or e.args.kwarg:
                fail("lambda with an unsupported signature", e)
            z = e.args.args[0].arg
            sub = Tr(self.env, self.natsyms)
            sub.bind(z, z, ("tuple", "nat", "vec"))         # applied to the items of cut_points_list_ (checked at the map)
            body, tb = sub.tr(e.body)
            return f"fun {z} : nat * list T => {body}", ("fun", ("tuple", "nat", "vec"), tb)
        if isinstance(e, ast.ListComp):
            return self.listcomp(e)
        fail(f"unknown expression node {type(e).__name__}: {key}", e)

    # ---- arithmetic
    def binop(self, e):
        opc = type(e.op)
        a, ta = self.tr(e.left)
        b, tb = self.tr(e.right)
        if opc is ast.MatMult:
            if ta == "colx" and tb == "row":
                return f"map (fun e_ => nmul o {par(a)} e_) {par(b)}", "mat"
            if ta in ("vec", "mat") and tb == "lsmat":
                return f"np_vecmat o {par(a)} {par(b)}", "kvec"
            fail(f"matrix product of a {ta} and a {tb} is not part of the vocabulary", e)
        if opc is ast.Pow:
            if ta in ("nat", "lit") and tb in ("nat", "lit"):
                return f"Nat.pow {par(self.coerce(a, ta, 'nat', e))} {par(self.coerce(b, tb, 'nat', e))}", "nat"
            fail("power of non-integers", e)
        if opc is ast.BitAnd or opc is ast.BitOr:
            f = "andb" if opc is ast.BitAnd else "orb"
            if ta == "bvec" and tb == "bvec":
                return f"zip_with {f} {par(a)} {par(b)}", "bvec"
            if ta == "bool" and tb == "bool":
                return f"{f} {par(a)} {par(b)}", "bool"
            fail("& / | of unsupported operands", e)
        if ta in ("nat", "lit") and tb in ("nat", "lit"):
            if ta == "lit" and tb == "lit":
                fail("constant arithmetic", e)
            if opc not in NATOP:
                fail("integer operator not supported", e)
            return f"({self.coerce(a, ta, 'nat', e)} {NATOP[opc]} {self.coerce(b, tb, 'nat', e)})", "nat"
        if opc not in NUMOP:
            fail(f"operator {opc.__name__} not supported", e)
        f = NUMOP[opc]
        if ta == "lit":
            a, ta = self.lit(a, "T", e), "T"
        if tb == "lit":
            b, tb = self.lit(b, "T", e), "T"
        if ta == "T" and tb == "T":
            return f"{f} o {par(a)} {par(b)}", "T"
        if is_arr(ta) and tb == "T":
            return f"map (fun e_ => {f} o e_ {par(b)}) {par(a)}", ta
        if ta == "T" and is_arr(tb):
            return f"map (fun e_ => {f} o {par(a)} e_) {par(b)}", tb
        if is_arr(ta) and is_arr(tb):
            pair = {ta, tb}
            if pair in ({"mat", "row"}, {"mat"}, {"vec"}, {"row"}):
                return f"zip_with ({f} o) {par(a)} {par(b)}", ("mat" if "mat" in pair else ta)
            fail(f"broadcast of a {ta} with a {tb} is not part of the vocabulary", e)
        fail(f"arithmetic on a {ta} and a {tb}", e)

    def compare(self, e):
        opc = type(e.ops[0])
        if opc in (ast.Is, ast.IsNot):
            a, ta = self.tr(e.left)
            if ta != "optmask" or not (isinstance(e.comparators[0], ast.Constant) and e.comparators[0].value is None):
                fail("`is` test other than <feature_mask> is None", e)
            return ("mask_is_none" if opc is ast.Is else "mask_is_not_none"), "masktest"
        a, ta = self.tr(e.left)
        b, tb = self.tr(e.comparators[0])
        if ta in ("nat", "lit") and tb in ("nat", "lit"):
            a, b = par(self.coerce(a, ta, "nat", e)), par(self.coerce(b, tb, "nat", e))
            table = {ast.Lt: f"Nat.ltb {a} {b}", ast.LtE: f"Nat.leb {a} {b}", ast.Gt: f"Nat.ltb {b} {a}", ast.GtE: f"Nat.leb {b} {a}",
                     ast.Eq: f"Nat.eqb {a} {b}", ast.NotEq: f"negb (Nat.eqb {a} {b})"}
            if opc not in table:
                fail("integer comparison not supported", e)
            return table[opc], "bool"

        def cmp(x, y):
            table = {ast.Lt: f"nltb o {x} {y}", ast.LtE: f"nleb o {x} {y}", ast.Gt: f"nltb o {y} {x}", ast.GtE: f"nleb o {y} {x}",
                     ast.Eq: f"neqb o {x} {y}"}
            if opc not in table:
                fail("float comparison not supported", e)
            return table[opc]
        if is_arr(ta) and tb == "T":
            return f"map (fun e_ => {cmp('e_', par(b))}) {par(a)}", "bvec"
        if ta == "T" and is_arr(tb):
            return f"map (fun e_ => {cmp(par(a), 'e_')}) {par(b)}", "bvec"
        if ta == "T" and tb == "T":
            return cmp(par(a), par(b)), "bool"
        fail(f"comparison of a {ta} with a {tb}", e)

    # ---- indexing
    def subscript(self, e):
        v, tv = self.tr(e.value)
        sl = e.slice
        if isinstance(tv, tuple) and tv[0] == "tuple":
            if isinstance(sl, ast.Constant) and sl.value in (0, 1):
                return (f"fst {par(v)}", tv[1]) if sl.value == 0 else (f"snd {par(v)}", tv[2])
            fail("tuple component other than [0] / [1]", e)
        if tv == "vec":
            i, ti = self.tr(sl)
            if ti == "ivec":
                return f"np_take o {par(v)} {par(i)}", "vec"
            fail("vector indexed by something else than an index array", e)
        if tv == "mask":
            i = self.num(sl, "nat")
            return f"nth {par(i)} {par(v)} false", "bool"
        if tv == "rowfun":            # one data row: X[:, a:a+1] -> the scalar of column a
            if isinstance(sl, ast.Tuple) and len(sl.elts) == 2 and is_full_slice(sl.elts[0]):
                c = sl.elts[1]
                if isinstance(c, ast.Slice) and c.step is None and c.lower is not None and c.upper is not None:
                    lo = self.num(c.lower, "nat")
                    syms = dict(self.natsyms)
                    for k, (t, ty) in self.env.items():
                        if isinstance(ty, tuple) and ty[0] == "tuple":
                            syms[f"{k}[0]"] = f"{k}[0]"
                    if lin_sub(lin(c.upper, syms), lin(c.lower, syms)) != {1: 1}:
                        fail("column slice is not one column wide", e)
                    return f"{v} {par(lo)}", "colx"
            fail("data indexed otherwise than X[:, a:a+1]", e)
        if tv == "datamat":           # the whole data: X[:, f] -> a column
            if isinstance(sl, ast.Tuple) and len(sl.elts) == 2 and is_full_slice(sl.elts[0]) and not isinstance(sl.elts[1], ast.Slice):
                f = self.num(sl.elts[1], "nat")
                return f"(fun r_ => {v} r_ {par(f)})", ("col", f)
            fail("data indexed otherwise than X[:, f]", e)
        fail(f"subscript of a {tv}", e)

    # ---- calls
    def call(self, e):
        fn = ast.unparse(e.func)
        args, kws = e.args, {k.arg: k.value for k in e.keywords}
        if fn == "len" and len(args) == 1 and not kws:
            a, ta = self.tr(args[0])
            if is_arr(ta) or ta in ("cpl", "mask", "ivec") or (isinstance(ta, tuple) and ta[0] == "list"):
                return f"length {par(a)}", "nat"
            fail(f"len of a {ta}", e)
        if fn == "int" and len(args) == 1 and not kws:
            return self.num(args[0], "nat"), "nat"
        if fn == "np.linspace" and len(args) == 3 and set(kws) <= {"dtype"}:
            if "dtype" in kws and ast.unparse(kws["dtype"]) not in ("np.float64", "float"):
                fail("linspace with another dtype", e)
            if not (isinstance(args[0], ast.Constant) and isinstance(args[0].value, int)):
                fail("linspace start is not an integer literal", e)
            if lin_sub(lin_sub(lin(args[1], self.natsyms), lin(args[0], self.natsyms)), lin_sub(lin(args[2], self.natsyms), {1: 1})):
                fail("linspace step is not 1 (stop - start != num - 1)", e)
            return f"np_linspace_unit o {self.num(args[0], 'nat')} {par(self.num(args[2], 'nat'))}", "vec"
        if fn == "np.expand_dims" and len(args) == 1 and set(kws) == {"axis"} and ast.unparse(kws["axis"]) == "0":
            a, ta = self.tr(args[0])
            if ta != "vec":
                fail("expand_dims of a non-vector", e)
            return a, "row"
        if fn == "np.argsort" and len(args) == 1 and not kws:
            a, ta = self.tr(args[0])
            if ta != "vec":
                fail("argsort of a non-vector", e)
            return f"np_argsort o {par(a)}", "ivec"
        if fn == "np.zeros" and len(args) == 1 and not kws:
            return f"np_zeros o {self.num(args[0], 'nat')}", "vec"
        if fn == "np.concatenate" and len(args) == 1 and not kws and isinstance(args[0], ast.List):
            parts = []
            for x in args[0].elts:
                a, ta = self.tr(x)
                if ta != "vec":
                    fail("concatenate of a non-vector", x)
                parts.append(a)
            return "concat [" + "; ".join(parts) + "]", "vec"
        if fn == "np.cumsum" and len(args) == 1 and not kws:
            a, ta = self.tr(args[0])
            if ta != "vec":
                fail("cumsum of a non-vector", e)
            return f"np_cumsum o {par(a)}", "vec"
        if fn == "softmax" and len(args) == 1 and not kws:
            a, ta = self.tr(args[0])
            if ta == "mat":
                return f"sk_softmax o {par(a)}", "mat"
            if ta == "kvec":
                return f"sk_softmax_fn o K {par(a)}", "kvec"
            fail(f"softmax of a {ta}", e)
        if fn == "np.any" and len(args) == 1 and not kws:
            a, ta = self.tr(args[0])
            if ta not in ("bvec", "mask"):
                fail("np.any of a non-mask", e)
            return f"np_any {par(a)}", "bool"
        if fn == "max" and len(args) == 1 and not kws and isinstance(args[0], ast.GeneratorExp):
            g = args[0]
            if len(g.generators) != 1 or g.generators[0].ifs or g.generators[0].is_async:
                fail("max over an unsupported generator", e)
            it, tit = self.tr(g.generators[0].iter)
            if tit != "cpl":
                fail("max over something else than cut_points_list_", e)
            sub = Tr(self.env, self.natsyms)
            tg = g.generators[0].target
            if isinstance(tg, ast.Tuple) and len(tg.elts) == 2 and all(isinstance(x, ast.Name) for x in tg.elts):
                sub.bind(tg.elts[0].id, "fst it_", "nat")
                sub.bind(tg.elts[1].id, "snd it_", "vec")
            elif isinstance(tg, ast.Name):
                sub.bind(tg.id, "it_", ("tuple", "nat", "vec"))
            else:
                fail("max over a generator with an unsupported target", e)
            elt = sub.num(g.elt, "nat")
            var = f"mx{len(self.pending) + 1}_"
            self.pending.append((var, f"py_max_nat (map (fun it_ => {elt}) {par(it)})"))
            return var, "nat"
        if fn == "self._leaf_binning" and len(args) == 2 and not kws:
            a, ta = self.tr(args[0])
            b, tb = self.tr(args[1])
            if ta != "colx" or tb != "vec":
                fail(f"_leaf_binning called on a {ta} and a {tb}", e)
            return f"gen_leaf_binning temperature {par(a)} {par(b)}", ("tuple", "mat", "ivec")
        if fn == "map" and len(args) == 2 and not kws:
            f, tf = self.tr(args[0])
            l, tl = self.tr(args[1])
            if not (isinstance(tf, tuple) and tf[0] == "fun" and tl == "cpl" and tf[1] == ("tuple", "nat", "vec")):
                fail("map of something else than a function over cut_points_list_", e)
            return f"map {par(f)} {par(l)}", ("list", tf[2])
        if fn == "list" and len(args) == 1 and not kws:
            a, ta = self.tr(args[0])
            if not (isinstance(ta, tuple) and ta[0] == "list"):
                fail("list() of a non-iterator", e)
            return a, ta
        if fn == "reduce" and len(args) == 2 and not kws:
            if ast.unparse(args[0]) != "self._merge_leaf":
                fail("reduce with another function than self._merge_leaf", e)
            l, tl = self.tr(args[1])
            if tl != ("list", "mat"):
                fail(f"reduce over a {tl}", e)
            return f"py_reduce gen_merge_leaf {par(l)}", ("opt", "mat")
        if isinstance(e.func, ast.Attribute) and e.func.attr in ("min", "max") and not args and not kws:
            a, ta = self.tr(e.func.value)
            if not (isinstance(ta, tuple) and ta[0] == "col"):
                fail(".min()/.max() of something else than a data column", e)
            return f"np_{e.func.attr} o nrows {par(a)}", "T"
        if isinstance(e.func, ast.Attribute) and e.func.attr == "reshape" and len(args) == 1 and not kws:
            a, ta = self.tr(e.func.value)
            shp = ast.unparse(args[0])
            if ta == "vec" and shp == "(1, -1)":
                return a, "row"
            base = ast.unparse(e.func.value)
            if ta == "cube" and shp in (f"(-1, np.prod({base}.shape[1:]))", f"({base}.shape[0], -1)"):
                return f"concat {par(a)}", "mat"
            fail(f"reshape of a {ta} to {shp}", e)
        if fn == "np.einsum" and len(args) == 3 and not kws:
            return self.einsum(e)
        fail(f"call of {fn} is not part of the vocabulary", e)

    def einsum(self, e):
        spec = e.args[0]
        if not (isinstance(spec, ast.Constant) and isinstance(spec.value, str)):
            fail("einsum spec is not a string literal", e)
        s = spec.value.replace(" ", "")
        try:
            ins, out = s.split("->")
            i1, i2 = ins.split(",")
        except ValueError:
            fail("einsum spec of an unsupported form", e)
        a, ta = self.tr(e.args[1])
        b, tb = self.tr(e.args[2])
        if ta != "mat" or tb != "mat":
            fail("einsum of non-matrices", e)
        if not (len(i1) == 2 and len(i2) == 2 and len(out) == 3 and i1[0] == i2[0] == out[0] and i1[1] != i2[1]
                and len({i1[0], i1[1], i2[1]}) == 3 and set(out[1:]) == {i1[1], i2[1]}):
            fail(f"einsum spec {s!r} is not a batched outer product", e)
        if out[1] == i1[1]:      # first operand indexes the slow axis
            return f"map (fun a_ => map (fun b_ => nmul o a_ b_) {par(b)}) {par(a)}", "cube"
        return f"map (fun b_ => map (fun a_ => nmul o a_ b_) {par(a)}) {par(b)}", "cube"

    def listcomp(self, e):
        if len(e.generators) != 1 or e.generators[0].is_async or not isinstance(e.generators[0].target, ast.Name):
            fail("comprehension with several generators / a structured target", e)
        g = e.generators[0]
        x = g.target.id
        it, tit = self.tr(g.iter)
        if not (isinstance(tit, tuple) and tit[0] == "list"):
            fail("comprehension over a non-list", e)
        sub = Tr(self.env, self.natsyms)
        sub.bind(x, x, tit[1])
        src = it
        for c in g.ifs:
            ct, cty = sub.tr(c)
            if cty != "bool":
                fail("comprehension filter is not a test", c)
            src = f"filter (fun {x} => {ct}) {par(src)}"
        body, tb = sub.tr(e.elt)
        if tb == "lit":
            fail("literal comprehension element", e)
        return f"map (fun {x} => {body}) {par(src)}", ("list", tb)


def is_full_slice(s):
    return isinstance(s, ast.Slice) and s.lower is None and s.upper is None and s.step is None


def par(t):
    t = str(t)
    if t.startswith("(") and matching(t):
        return t
    return t if all(c.isalnum() or c in "_'." for c in t) else f"({t})"


def matching(t):
    d = 0
    for i, c in enumerate(t):
        d += c == "("
        d -= c == ")"
        if d == 0 and i < len(t) - 1:
            return False
    return d == 0


# ------------------------------------------------------------------------------------------- statements
def body_of(fn):
    b = list(fn.body)
    if b and isinstance(b[0], ast.Expr) and isinstance(b[0].value, ast.Constant) and isinstance(b[0].value.value, str):
        b = b[1:]
    return b


def argnames(fn):
    a = fn.args
    if a.vararg or a.kwarg or a.kwonlyargs or a.posonlyargs:
        fail(f"{fn.name}: unsupported signature", fn)
    return [x.arg for x in a.args]


def simple_assign(s):
    if isinstance(s, ast.Assign) and len(s.targets) == 1 and isinstance(s.targets[0], ast.Name):
        return s.targets[0].id, s.value
    return None


def is_raise_value_error(stmts):
    return (len(stmts) == 1 and isinstance(stmts[0], ast.Raise) and isinstance(stmts[0].exc, ast.Call)
            and ast.unparse(stmts[0].exc.func) == "ValueError" and stmts[0].cause is None)


def lets(pairs, result, indent="  "):
    return "".join(f"{indent}let {n} := {t} in\n" for n, t in pairs) + f"{indent}{result}"


def tr_leaf_binning(fn):
    names = argnames(fn)
    if len(names) != 3 or names[0] != "self":
        fail("_leaf_binning: signature changed", fn)
    xn, cn = names[1], names[2]
    t = Tr({xn: (xn, "colx"), cn: (cn, "vec"), "self.temperature": ("temperature", "T")})
    out, logits = [], None
    body = body_of(fn)
    for s in body[:-1]:
        sa = simple_assign(s)
        if sa is None:
            fail("_leaf_binning: statement is not a plain assignment", s)
        name, val = sa
        term, ty = t.tr(val)
        if ty == "lit":
            fail("_leaf_binning: constant assignment", s)
        out.append((name, term))
        t.bind(name, name, ty)
        if ty == "nat":
            t.natsyms[name] = name
        if name == "logits" and ty == "mat":
            logits = len(out)
    ret = body[-1]
    if not (isinstance(ret, ast.Return) and isinstance(ret.value, ast.Tuple) and len(ret.value.elts) == 2):
        fail("_leaf_binning: does not end with `return <memberships>, <order>`", ret)
    r0, t0 = t.tr(ret.value.elts[0])
    r1, t1 = t.tr(ret.value.elts[1])
    if t0 != "mat" or t1 != "ivec":
        fail(f"_leaf_binning returns a {t0} and a {t1}", ret)
    if logits is None:
        fail("_leaf_binning: no matrix variable named `logits` (needed to state the arg-max theorem)", fn)
    sig = f"(temperature : T) ({xn} : T) ({cn} : list T)"
    txt = f"(* def _leaf_binning(self, {xn}, {cn}) — {xn} is the (N,1) column of one feature, one row at a time *)\n"
    txt += f"Definition gen_leaf_binning {sig} : list T * list nat :=\n" + lets(out, f"({r0}, {r1}).") + "\n"
    txt += f"(* the local variable `logits` of _leaf_binning *)\n"
    txt += f"Definition gen_leaf_binning_logits {sig} : list T :=\n" + lets(out[:logits], "logits.") + "\n"
    return txt


def tr_merge_leaf(fn):
    names = argnames(fn)
    if len(names) != 3 or names[0] != "self":
        fail("_merge_leaf: signature changed", fn)
    a, b = names[1], names[2]
    t = Tr({a: (a, "mat"), b: (b, "mat")})
    out = []
    body = body_of(fn)
    for s in body[:-1]:
        sa = simple_assign(s)
        if sa is None:
            fail("_merge_leaf: statement is not a plain assignment", s)
        term, ty = t.tr(sa[1])
        out.append((sa[0], term))
        t.bind(sa[0], sa[0], ty)
    ret = body[-1]
    if not isinstance(ret, ast.Return) or ret.value is None:
        fail("_merge_leaf: does not end with a return", ret)
    r, ty = t.tr(ret.value)
    if ty != "mat":
        fail(f"_merge_leaf returns a {ty}", ret)
    return (f"(* def _merge_leaf(self, {a}, {b}) on one row: batched outer product, row-major flattening *)\n"
            f"Definition gen_merge_leaf ({a} {b} : list T) : list T :=\n" + lets(out, f"{r}.") + "\n")


def tr_infer(fn):
    names = argnames(fn)
    if len(names) != 3 or names[0] != "self" or names[2] != "retain":
        fail("_infer: signature changed", fn)
    xn = names[1]
    t = Tr({xn: (xn, "rowfun"), "self.cut_points_list_": ("cut_points_list", "cpl"), "self.leaf_scores_": ("leaf_scores", "lsmat")})
    body = body_of(fn)
    out, optvar = [], None          # lets before / after the reduce
    after = []
    retained, ret = None, None
    for s in body:
        if isinstance(s, ast.If):
            if ast.unparse(s.test) != "retain" or s.orelse or retained is not None:
                fail("_infer: unexpected `if`", s)
            retained = {}
            for st in s.body:
                if not (isinstance(st, ast.Assign) and len(st.targets) == 1 and isinstance(st.targets[0], ast.Attribute)
                        and ast.unparse(st.targets[0].value) == "self"):
                    fail("_infer: the retain block does something else than storing attributes", st)
                term, ty = t.tr(st.value)
                retained[st.targets[0].attr] = (term, ty)
            continue
        if isinstance(s, ast.Return):
            if s is not body[-1] or s.value is None:
                fail("_infer: return in an unexpected place", s)
            ret = t.tr(s.value)
            continue
        sa = simple_assign(s)
        if sa is None:
            fail("_infer: statement is not a plain assignment", s)
        name, val = sa
        term, ty = t.tr(val)
        if isinstance(ty, tuple) and ty[0] == "opt":
            if optvar is not None:
                fail("_infer: two reductions", s)
            optvar = (name, term)
            t.bind(name, name, ty[1])
        else:
            (after if optvar else out).append((name, term))
            t.bind(name, name, ty)
    if optvar is None or ret is None or ret[1] != "kvec":
        fail("_infer: no reduce(...) / does not return softmax of the K logits", fn)
    want = {"_leaf": "mat", "_all_orders": ("list", "ivec"), "_all_binnings": ("list", "mat")}
    if retained is None or {k: v[1] for k, v in retained.items()} != want:
        fail("_infer: the retained state is not (_leaf, _all_orders, _all_binnings) of the expected kinds", fn)
    sig = f"(temperature : T) (cut_points_list : list (nat * list T)) (K : nat) (leaf_scores : nat -> nat -> T) ({xn} : nat -> T)"
    pre = lets(out, "")
    txt = f"(* def _infer(self, {xn}, retain) on one data row {xn} : column index -> value *)\n"
    txt += f"Definition gen_infer_row {sig} : option (nat -> T) :=\n{pre}match {optvar[1]} with\n  | None => None\n  | Some {optvar[0]} =>\n"
    txt += lets(after, f"Some ({ret[0]})", indent="      ") + "\n  end.\n"
    txt += f"(* what `if retain:` stores: self._leaf, self._all_orders, self._all_binnings *)\n"
    txt += f"Definition gen_infer_state {sig} : option (list T * list (list nat) * list (list T)) :=\n{pre}match {optvar[1]} with\n  | None => None\n  | Some {optvar[0]} =>\n"
    txt += lets(after, f"Some ({retained['_leaf'][0]}, {retained['_all_orders'][0]}, {retained['_all_binnings'][0]})", indent="      ") + "\n  end.\n"
    return txt


def tr_init_params(fn):
    names = argnames(fn)
    if len(names) != 3 or names[0] != "self":
        fail("_init_params: signature changed", fn)
    rs, xn = names[1], names[2]
    env = {f"{xn}.shape[1]": ("d", "nat"), "self.n_cuts": ("n_cuts", "nat"), "self.n_clusters": ("n_clusters", "nat"),
           "self.feature_mask": ("feature_mask", "optmask")}
    body = [s for s in body_of(fn) if not (isinstance(s, ast.If) and ast.unparse(s.test) == "self.verbose" and not s.orelse
                                          and all(isinstance(b, ast.Expr) and isinstance(b.value, ast.Call) and ast.unparse(b.value.func) == "print" for b in s.body))]
    if len(body) != 2 or not isinstance(body[0], ast.If):
        fail("_init_params: expected `if <mask test>: ... else: ...` followed by the leaf_scores_ assignment", fn)
    top = body[0]
    tst, tty = Tr(env).tr(top.test)
    if tty != "masktest":
        fail("_init_params: first test is not about feature_mask being None", top)
    none_branch, some_branch = (top.body, top.orelse) if tst == "mask_is_none" else (top.orelse, top.body)

    def draw_size(call, t):
        if not (isinstance(call, ast.Call) and ast.unparse(call.func) == f"{rs}.normal" and not call.args and [k.arg for k in call.keywords] == ["size"]):
            fail("_init_params: cut points are not drawn with random_state.normal(size=..)", call)
        sz = call.keywords[0].value
        if isinstance(sz, ast.Tuple):
            if len(sz.elts) != 1:
                fail("_init_params: cut points are not a vector", call)
            sz = sz.elts[0]
        return t.num(sz, "nat")

    def comp(val, t):
        """[(first, rs.normal(size=..)) for i in range(E) (if cond)] -> (index-list term, draw size)"""
        if not (isinstance(val, ast.ListComp) and len(val.generators) == 1 and isinstance(val.generators[0].target, ast.Name)
                and isinstance(val.elt, ast.Tuple) and len(val.elt.elts) == 2):
            fail("_init_params: cut_points_list_ is not built by the expected comprehension", val)
        g = val.generators[0]
        i = g.target.id
        if not (isinstance(g.iter, ast.Call) and ast.unparse(g.iter.func) == "range" and len(g.iter.args) == 1 and not g.iter.keywords):
            fail("_init_params: comprehension does not iterate over range(..)", val)
        src = f"seq 0 {par(t.num(g.iter.args[0], 'nat'))}"
        sub = Tr(t.env, t.natsyms)
        sub.bind(i, i, "nat")
        sub.env["self.feature_mask"] = ("feature_mask", "mask") if t.env["self.feature_mask"][1] == "mask" else t.env["self.feature_mask"]
        for c in g.ifs:
            ct, cty = sub.tr(c)
            if cty != "bool":
                fail("_init_params: comprehension filter is not a test", c)
            src = f"filter (fun {i} => {ct}) ({src})"
        first = sub.num(val.elt.elts[0], "nat")
        return f"map (fun {i} => {first}) ({src})", draw_size(val.elt.elts[1], sub)

    def branch(stmts, masked):
        t = Tr(env)
        if masked:
            t.env["self.feature_mask"] = ("feature_mask", "mask")
        lines, size, nleaf, have_cpl = [], None, None, False
        for s in stmts:
            if isinstance(s, ast.If):
                if s.orelse or not is_raise_value_error(s.body):
                    fail("_init_params: an `if` that does not just raise ValueError", s)
                ct, cty = t.tr(s.test)
                if cty != "bool" or t.pending:
                    fail("_init_params: guard is not a plain test", s)
                lines.append(("if", ct))
                continue
            if isinstance(s, ast.Assign) and len(s.targets) == 1 and ast.unparse(s.targets[0]) == "self.cut_points_list_":
                if have_cpl:
                    fail("_init_params: cut_points_list_ assigned twice", s)
                idx, size = comp(s.value, t)
                lines.append(("let", "cut_points_list", f"py_comp_draw {par(idx)} draw"))
                t.bind("self.cut_points_list_", "cut_points_list", "cpl")
                have_cpl = True
                continue
            sa = simple_assign(s)
            if sa and sa[0] == "num_leaf" and nleaf is None:
                nleaf = t.num(sa[1], "nat")
                lines.append(("let", "num_leaf", nleaf))
                continue
            fail("_init_params: unexpected statement in a branch", s)
        if not have_cpl or nleaf is None:
            fail("_init_params: a branch does not define cut_points_list_ and num_leaf", top)
        return lines, size

    last = body[1]
    if not (isinstance(last, ast.Assign) and len(last.targets) == 1 and ast.unparse(last.targets[0]) == "self.leaf_scores_"
            and isinstance(last.value, ast.Call) and ast.unparse(last.value.func) == f"{rs}.normal" and not last.value.args
            and [k.arg for k in last.value.keywords] == ["size"] and isinstance(last.value.keywords[0].value, ast.Tuple)
            and len(last.value.keywords[0].value.elts) == 2):
        fail("_init_params: leaf_scores_ is not drawn with random_state.normal(size=(rows, columns))", last)
    tl = Tr(dict(env, num_leaf=("num_leaf", "nat")))
    shape = "(" + ", ".join(tl.num(x, "nat") for x in last.value.keywords[0].value.elts) + ")"

    def render(lines, size, ind):
        s = ""
        for ln in lines:
            if ln[0] == "if":
                s += f"{ind}if {ln[1]} then None else\n"
            else:
                s += f"{ind}let {ln[1]} := {ln[2]} in\n"
        return s + f"{ind}Some (cut_points_list, {size}, {shape})"
    ln_none, sz_none = branch(none_branch, False)
    ln_some, sz_some = branch(some_branch, True)
    txt = ("(* def _init_params(self, random_state, X): d = X.shape[1]; None = ValueError; result = (cut_points_list_, size of each\n"
           "   cut-point draw, shape of leaf_scores_); draw j = the j-th cut-point vector drawn from random_state *)\n"
           "Definition gen_init_params (d n_cuts n_clusters : nat) (feature_mask : option (list bool)) (draw : nat -> list T)\n"
           "  : option (list (nat * list T) * nat * (nat * nat)) :=\n  match feature_mask with\n  | None =>\n")
    txt += render(ln_none, sz_none, "      ") + "\n  | Some feature_mask =>\n" + render(ln_some, sz_some, "      ") + "\n  end.\n"
    return txt


def tr_find_active_points(fn):
    names = argnames(fn)
    if len(names) != 2 or names[0] != "self":
        fail("find_active_points: signature changed", fn)
    xn = names[1]
    body = body_of(fn)
    env = {xn: (xn, "datamat"), f"{xn}.shape[1]": ("ncols", "nat"), "self.cut_points_list_": ("cut_points_list", "cpl")}
    t = Tr(env)
    stage, guards, acc, loop, checked = 0, [], None, None, False
    for s in body:
        u = ast.unparse(s)
        if u == "check_is_fitted(self)":
            continue
        if u == f"{xn} = check_array({xn})":
            checked = True
            continue
        if isinstance(s, ast.If) and loop is None:
            if s.orelse or not is_raise_value_error(s.body):
                fail("find_active_points: an `if` that does not just raise ValueError", s)
            ct, cty = t.tr(s.test)
            if cty != "bool":
                fail("find_active_points: guard is not a test", s)
            guards.append((list(t.pending), ct))
            t.pending = []
            continue
        sa = simple_assign(s)
        if sa and isinstance(sa[1], ast.List) and not sa[1].elts and acc is None and loop is None:
            acc = sa[0]
            continue
        if isinstance(s, ast.For) and loop is None and acc is not None:
            loop = s
            continue
        if isinstance(s, ast.Return) and loop is not None and s is body[-1] and ast.unparse(s.value) == acc:
            continue
        fail("find_active_points: unexpected statement", s)
    if not checked or loop is None:
        fail("find_active_points: no check_array / no loop over the cut points", fn)
    if loop.orelse or ast.unparse(loop.iter) != "self.cut_points_list_" or not (isinstance(loop.target, ast.Tuple) and len(loop.target.elts) == 2
                                                                             and all(isinstance(x, ast.Name) for x in loop.target.elts)):
        fail("find_active_points: the loop is not `for (a, b) in self.cut_points_list_`", loop)
    a, b = loop.target.elts[0].id, loop.target.elts[1].id
    unpack = f"let {a} := fst it_ in let {b} := snd it_ in "
    tl = Tr(env)
    tl.bind(a, a, "nat")
    tl.bind(b, b, "vec")
    pre, cols, cond, item = [], [], None, None
    for s in loop.body:
        sa = simple_assign(s)
        if sa is not None and cond is None:
            term, ty = tl.tr(sa[1])
            if isinstance(ty, tuple) and ty[0] == "col":
                cols.append(ty[1])
            pre.append((sa[0], term))
            tl.bind(sa[0], sa[0], ty)
            continue
        if isinstance(s, ast.If) and cond is None and not s.orelse and len(s.body) == 1:
            ct, cty = tl.tr(s.test)
            if cty != "bool":
                fail("find_active_points: activity test is not a test", s)
            st = s.body[0]
            if not (isinstance(st, ast.AugAssign) and isinstance(st.op, ast.Add) and ast.unparse(st.target) == acc
                    and isinstance(st.value, ast.List) and len(st.value.elts) == 1):
                fail("find_active_points: the active branch does not append one item to the result", st)
            item = tl.num(st.value.elts[0], "nat")
            cond = ct
            continue
        fail("find_active_points: unexpected statement in the loop", s)
    if cond is None or len(cols) != 1:
        fail("find_active_points: the loop does not read exactly one data column and test it", loop)
    letpre = "".join(f"let {n} := {tm} in " for n, tm in pre)
    txt = (f"(* def find_active_points(self, {xn}): {xn} = check_array({xn}) (sklearn oracle), the ValueError guard(s), then the loop\n"
           f"   `for ({a}, {b}) in self.cut_points_list_` (IndexError unless every column read exists) *)\n"
           f"Definition gen_find_active_points (nrows ncols : nat) ({xn} : nat -> nat -> T) (cut_points_list : list (nat * list T)) : fap_result :=\n"
           f"  if sk_check_array_rejects nrows ncols then FapValueError else\n")
    closing = ""
    for pend, g in guards:
        for var, term in pend:      # max() of an empty sequence raises ValueError
            txt += f"  match {term} with None => FapValueError | Some {var} =>\n"
            closing += " end"
        txt += f"  if {g} then FapValueError else\n"
    if tl.pending:
        fail("find_active_points: max(..) inside the loop", loop)
    txt += f"  if np_columns_ok ncols (map (fun it_ => {unpack}{cols[0]}) cut_points_list) then\n"
    txt += f"    FapOk (map (fun it_ => {unpack}{item})\n               (filter (fun it_ => {unpack}{letpre}{cond}) cut_points_list))\n  else FapIndexError{closing}.\n"
    return txt


METHODS = [("_leaf_binning", tr_leaf_binning), ("_merge_leaf", tr_merge_leaf), ("_infer", tr_infer),
           ("_init_params", tr_init_params), ("find_active_points", tr_find_active_points)]


def translate():
    raw = open(SRC, "rb").read()
    tree = ast.parse(raw.decode())
    cls = [n for n in tree.body if isinstance(n, ast.ClassDef) and n.name == "Douglas"]
    if len(cls) != 1:
        fail("class Douglas not found")
    fns = {n.name: n for n in cls[0].body if isinstance(n, ast.FunctionDef)}
    parts, ranges = [], []
    for name, f in METHODS:
        if name not in fns:
            fail(f"method {name} not found")
        if fns[name].decorator_list:
            fail(f"method {name} is decorated")
        parts.append(f(fns[name]))
        ranges.append(f"   Douglas.{name} lines {fns[name].lineno}-{fns[name].end_lineno}")
    head = ("(* GENERATED by translator/tr_douglas.py - do not edit.\n"
            f"   Source: gemclus/tree/douglas.py  sha256 {hashlib.sha256(raw).hexdigest()}\n" + "\n".join(ranges) + "\n"
            "   Statement-by-statement translation of the five methods over the numpy/Python vocabulary of Model/Douglas.v\n"
            "   (one data row at a time; every assigned Python variable is a `let`; the arithmetic keeps the grouping of the\n"
            "   source).  Proved equal to the hand-written model in Proofs/DouglasGen.v. *)\n"
            "From Coq Require Import List Bool Arith.\nFrom GV Require Import Common.Num Model.Forward Model.Douglas.\nImport ListNotations.\n"
            "Section Gen.\nContext {T : Type} (o : NumOps T).\n\n")
    return head + "\n".join(parts) + "End Gen.\n"


def main():
    if sys.argv[1:] not in ([], ["--stdout"]):
        die("usage: tr_douglas.py [--stdout]")
    try:
        text = translate()
    except Fail as e:
        die(str(e))
    except Exception as e:  # noqa  (anything unexpected is a failure to translate, never a partial output)
        die(f"{type(e).__name__}: {e}")
    if sys.argv[1:] == ["--stdout"]:
        sys.stdout.write(text)
        return
    os.makedirs(os.path.dirname(OUT), exist_ok=True)
    if not os.path.exists(OUT) or open(OUT).read() != text:
        open(OUT, "w").write(text)
        print("tr_douglas: wrote", OUT)
        # build.sh reports BUILD-FAIL only for a MISSING .vo: remove the compiled dependents so that a failing
        # re-compilation against the new text cannot hide behind the stale object of the previous text
        for sub, base in DEPENDENTS + [("Gen", "DouglasRules")]:
            for ext in (".vo", ".vos", ".vok", ".glob"):
                stale = os.path.join(ROOT, "coq", sub, base + ext)
                if os.path.exists(stale):
                    os.remove(stale)
    else:
        print("tr_douglas: unchanged", OUT)


if __name__ == "__main__":
    main()
