#!/usr/bin/env python3
"""Fail-closed translator: gemclus/sparse/_base_sparse.py::_path/_run_path  ->  coq/Gen/PathRules.v

The function body is matched statement by statement against the control skeleton the hand-written
model coq/Model/Path.v assumes (verbose prints and the text of warnings are ignored).  Only the
scalar *holes* are translated: signature defaults, the three argument-default rules (test, default
value), the `elif` warning test, the early-stopping test, the best-score update test, the keep test
and the `alpha *= alpha_multiplier` update.  Any statement or expression node that is not the expected
one makes the translator exit non-zero WITHOUT writing (the build prints TRANSLATOR-FAIL and the check
relies on the trace correspondence for everything).
"""
import ast, os, sys
from fractions import Fraction

REPO = os.environ.get("VERIF_REPO", "/repo")
ROOT = os.path.dirname(os.path.dirname(os.path.abspath(__file__)))
SRC = os.path.join(REPO, "gemclus", "sparse", "_base_sparse.py")
OUT = os.path.join(ROOT, "coq", "Gen", "PathRules.v")


class Unknown(Exception):
    pass


def fail(msg, node=None):
    where = f" (line {getattr(node, 'lineno', '?')})" if node is not None else ""
    raise Unknown(msg + where)


# ------------------------------------------------------------------ typed expression translation
# types: 'T' number, 'OT' possibly-NaN number (option T), 'Z' integer argument, 'nat' count, 'lit' integer literal
def lit_to(k, ty, node):
    if not isinstance(k, int) or isinstance(k, bool):
        fail("not an integer literal", node)
    if ty in ("T", "OT"):
        if k < 0 or k > 10 ** 6:
            fail("integer literal out of the supported range", node)
        s = "n0 o" if k == 0 else "n1 o" if k == 1 else f"nofnat o {k}"
        return s if ty == "T" else f"Some ({s})"
    if ty == "Z":
        return f"{k}%Z" if k >= 0 else f"({k})%Z"
    if ty == "nat":
        if k < 0:
            fail("negative literal compared with a count", node)
        return str(k)
    fail("literal in an unsupported position", node)


def float_const(v, node):
    fr = Fraction(repr(v))
    p, q = fr.numerator, fr.denominator
    if p < 0 or p > 10 ** 6 or q > 10 ** 6 or float(p) / float(q) != v:
        fail(f"float literal {v!r} is not a small exact decimal", node)
    if q == 1:
        return lit_to(p, "T", node)
    return f"ndiv o (nofnat o {p}) (nofnat o {q})"


def coerce(txt, ty, want, node):
    if ty == want:
        return txt
    if ty == "lit":
        return lit_to(txt, want, node)
    if ty == "T" and want == "OT":
        return f"Some ({txt})"
    if ty == "nat" and want == "Z":
        return f"Z.of_nat {txt}"
    fail(f"cannot use a {ty} where a {want} is needed", node)


def join(t1, t2, node):
    order = {"lit": 0, "T": 1, "OT": 2}
    if t1 in order and t2 in order:
        r = t1 if order[t1] >= order[t2] else t2
        return "T" if r == "lit" else r
    iorder = {"lit": 0, "nat": 1, "Z": 2}
    if t1 in iorder and t2 in iorder:
        return t1 if iorder[t1] >= iorder[t2] else t2
    fail(f"operands of incompatible kinds {t1}/{t2}", node)


ARITH = {ast.Add: "add", ast.Sub: "sub", ast.Mult: "mul", ast.Div: "div"}
CMP = {
    "T": {ast.Lt: "nltb o", ast.LtE: "nleb o", ast.Gt: "ngtb o", ast.GtE: "ngeb o", ast.Eq: "neqb o"},
    "OT": {ast.Lt: "oltb o", ast.LtE: "oleb o", ast.Gt: "ogtb o", ast.GtE: "ogeb o", ast.Eq: "oeqb o"},
    "Z": {ast.Lt: "Z.ltb", ast.LtE: "Z.leb", ast.Gt: "Z.gtb", ast.GtE: "Z.geb", ast.Eq: "Z.eqb"},
    "nat": {ast.Lt: "Nat.ltb", ast.LtE: "Nat.leb", ast.Eq: "Nat.eqb"},
}


def tr(e, env):
    """-> (coq text or int literal, type)"""
    key = ast.unparse(e)
    if key in env:
        return env[key]
    if isinstance(e, ast.Constant):
        if isinstance(e.value, bool):
            fail("boolean constant", e)
        if isinstance(e.value, int):
            return e.value, "lit"
        if isinstance(e.value, float):
            return float_const(e.value, e), "T"
        fail("constant of unknown kind", e)
    if isinstance(e, ast.BinOp) and type(e.op) in ARITH:
        a, ta = tr(e.left, env)
        b, tb = tr(e.right, env)
        ty = join(ta, tb, e)
        if ty not in ("T", "OT"):
            fail("integer arithmetic is not part of the rules", e)
        a, b = coerce(a, ta, ty, e), coerce(b, tb, ty, e)
        op = ("n" if ty == "T" else "o") + ARITH[type(e.op)]
        return f"{op} o ({a}) ({b})", ty
    if isinstance(e, ast.Compare) and len(e.ops) == 1:
        a, ta = tr(e.left, env)
        b, tb = tr(e.comparators[0], env)
        ty = join(ta, tb, e)
        a, b = coerce(a, ta, ty, e), coerce(b, tb, ty, e)
        opc = type(e.ops[0])
        if ty == "nat" and opc in (ast.Gt, ast.GtE):
            return f"{CMP['nat'][ast.Lt if opc is ast.Gt else ast.LtE]} ({b}) ({a})", "bool"
        if opc not in CMP[ty]:
            fail("comparison operator not supported", e)
        return f"{CMP[ty][opc]} ({a}) ({b})", "bool"
    if isinstance(e, ast.BoolOp) and isinstance(e.op, (ast.Or, ast.And)):
        parts = []
        for v in e.values:
            t, ty = tr(v, env)
            if ty != "bool":
                fail("non-boolean operand of and/or", v)
            parts.append(f"({t})")
        return (" || " if isinstance(e.op, ast.Or) else " && ").join(parts), "bool"
    fail(f"unknown expression node {type(e).__name__}: {key}", e)


def tr_bool(e, env):
    t, ty = tr(e, env)
    if ty != "bool":
        fail("a test was expected", e)
    return t


def tr_num(e, env, want):
    t, ty = tr(e, env)
    return coerce(t, ty, want, e)


# ------------------------------------------------------------------ skeleton matching
def is_verbose_print(s):
    return (isinstance(s, ast.If) and ast.unparse(s.test) == "clf.verbose" and not s.orelse
            and all(isinstance(b, ast.Expr) and isinstance(b.value, ast.Call) and ast.unparse(b.value.func) == "print" for b in s.body))


def is_warn(s):
    return isinstance(s, ast.Expr) and isinstance(s.value, ast.Call) and ast.unparse(s.value.func) == "warnings.warn"


def clean(stmts):
    """drop verbose prints; keep warnings (their presence is part of the contract)"""
    return [s for s in stmts if not is_verbose_print(s)]


def lit(s, text):
    if ast.unparse(s) != text:
        fail(f"statement differs from the modelled skeleton: expected `{text}` got `{ast.unparse(s)[:120]}`", s)


def expect_len(stmts, n, what, node=None):
    if len(stmts) != n:
        fail(f"{what}: expected {n} statements, found {len(stmts)}", node)


def default_if(s, var, ty, env, has_elif=False):
    """if <test on var>: warnings.warn(...); var = <const>   [elif <test>: warnings.warn(...)]"""
    if not isinstance(s, ast.If):
        fail(f"expected the `if` that defaults {var}", s)
    body = clean(s.body)
    expect_len(body, 2, f"default block of {var}", s)
    if not is_warn(body[0]):
        fail(f"default block of {var} does not warn first", s)
    asg = body[1]
    if not (isinstance(asg, ast.Assign) and len(asg.targets) == 1 and ast.unparse(asg.targets[0]) == var):
        fail(f"default block of {var} does not assign {var}", s)
    test = tr_bool(s.test, env)
    dflt = tr_num(asg.value, {}, ty)
    warn2 = None
    if has_elif:
        expect_len(s.orelse, 1, f"elif of {var}", s)
        e = s.orelse[0]
        if not (isinstance(e, ast.If) and not e.orelse and len(clean(e.body)) == 1 and is_warn(clean(e.body)[0])):
            fail(f"elif of {var} is not a warning-only branch", s)
        warn2 = tr_bool(e.test, env)
    elif s.orelse:
        fail(f"unexpected else branch when defaulting {var}", s)
    return test, dflt, warn2


CVS = "compute_val_score(clf, X, y, batch_size, gemini_objective)"


def top_level_functions():
    """Top-level function definitions of every module of gemclus/sparse (the helpers may live in any of them)."""
    import glob
    defs = {}
    for f in sorted(glob.glob(os.path.join(REPO, "gemclus", "sparse", "*.py"))):
        for n in ast.parse(open(f).read()).body:
            if isinstance(n, ast.FunctionDef):
                defs.setdefault(n.name, []).append(n)
    return defs


def translate(src=None):
    defs = top_level_functions()
    fns = defs.get("_run_path", [])
    outer_fns = defs.get("_path", [])
    if len(fns) != 1 or len(outer_fns) != 1:
        fail("functions _path / _run_path not found exactly once")
    fn = fns[0]
    D = {}
    # ---- _path: save clf.alpha, run, restore it whatever happens
    pf = outer_fns[0]
    if ast.unparse(pf.args) != ast.unparse(fn.args):
        fail("_path and _run_path no longer have the same signature and defaults", pf)
    pb = clean(pf.body)
    expect_len(pb, 2, "body of _path", pf)
    lit(pb[0], "initial_alpha = clf.alpha")
    lit(pb[1], "try:\n    return _run_path(clf, X, y, alpha_multiplier, min_features, keep_threshold, early_stopping_factor, max_patience)\n"
               "finally:\n    clf.alpha = initial_alpha")
    # ---- signature
    names = [a.arg for a in fn.args.args]
    want = ["clf", "X", "y", "alpha_multiplier", "min_features", "keep_threshold", "early_stopping_factor", "max_patience"]
    if names != want or fn.args.vararg or fn.args.kwarg or fn.args.kwonlyargs or fn.args.posonlyargs:
        fail(f"signature of _path changed: {names}", fn)
    dfl = fn.args.defaults
    if len(dfl) != 6 or not (isinstance(dfl[0], ast.Constant) and dfl[0].value is None):
        fail("defaults of _path changed shape", fn)
    D["sig_mult"] = tr_num(dfl[1], {}, "T")
    D["sig_minf"] = tr_num(dfl[2], {}, "Z")
    D["sig_keep"] = tr_num(dfl[3], {}, "T")
    D["sig_esf"] = tr_num(dfl[4], {}, "T")
    D["sig_patience"] = tr_num(dfl[5], {}, "Z")
    body = clean(fn.body)
    if body and isinstance(body[0], ast.Expr) and isinstance(body[0].value, ast.Constant) and isinstance(body[0].value.value, str):
        body = body[1:]
    # first statement: input validation (array-likes accepted like fit), then the 20 statements of the path itself
    expect_len(body, 21, "body of _run_path", fn)
    lit(body[0], "X = check_array(X)")
    body = body[1:]
    # ---- argument defaults
    D["mult_bad"], D["mult_default"], _ = default_if(body[0], "alpha_multiplier", "T", {"alpha_multiplier": ("alpha_multiplier", "T")})
    D["keep_bad"], D["keep_default"], _ = default_if(body[1], "keep_threshold", "T", {"keep_threshold": ("keep_threshold", "T")})
    D["minf_bad"], D["minf_default"], D["minf_warn"] = default_if(
        body[2], "min_features", "Z", {"min_features": ("min_features", "Z"), "X.shape[1]": ("d", "nat")}, has_elif=True)
    # ---- initial fit and bookkeeping (literal)
    lit(body[3], "alpha = clf.alpha")
    lit(body[4], "clf.set_params(alpha=0)")
    lit(body[5], "clf.fit(X, y)")
    lit(body[6], "generator = check_random_state(clf.random_state)")
    lit(body[7], "if clf.batch_size is not None:\n    batch_size = clf.batch_size\nelse:\n    batch_size = len(X)")
    lit(body[8], "gemini_objective = clf.get_gemini()")
    lit(body[9], f"best_gemini_score, _ = {CVS}")
    lit(body[10], "weights = clf._get_weights()")
    lit(body[11], "best_weights = [w.copy() for w in weights]")
    lit(body[12], "affinity = gemini_objective.compute_affinity(X, y)")
    lit(body[13], "alphas = []")
    lit(body[14], "n_features = []")
    lit(body[15], "geminis = []")
    lit(body[16], "group_lasso_penalties = []")
    lit(body[17], "clf.optimiser_ = SGDOptimizer(weights, clf.learning_rate)")
    lit(body[19], "return (best_weights, geminis, group_lasso_penalties, alphas, n_features)")
    # ---- outer loop
    w = body[18]
    if not isinstance(w, ast.While) or w.orelse:
        fail("outer loop is not a plain while", w)
    if ast.unparse(w.test) != "clf._n_selected_features() > min_features":
        fail("outer loop guard changed: " + ast.unparse(w.test), w)
    ob = clean(w.body)
    expect_len(ob, 14, "outer loop body", w)
    lit(ob[0], "clf.alpha = alpha")
    lit(ob[1], f"validation_gemini_score, validation_l1 = {CVS}")
    lit(ob[2], "if clf.dynamic and y is None:\n    selection_mask = clf.get_selection()\n    partial_data = X[:, selection_mask]\n"
               "    affinity = gemini_objective.compute_affinity(partial_data)")
    lit(ob[3], "patience = 0")
    lit(ob[4], "i = 0")
    iw = ob[5]
    if not isinstance(iw, ast.While) or iw.orelse:
        fail("inner loop is not a plain while", iw)
    if ast.unparse(iw.test) != "i < clf.max_iter and patience < max_patience":
        fail("inner loop guard changed: " + ast.unparse(iw.test), iw)
    ib = clean(iw.body)
    expect_len(ib, 5, "inner loop body", iw)
    lit(ib[0], "for X_batch, affinity_batch in clf._batchify(X, affinity, generator):\n    y_pred = clf._infer(X_batch)\n"
               "    _, grads = gemini_objective(y_pred, affinity_batch, return_grad=True)\n"
               "    grads = clf._compute_grads(X_batch, y_pred, grads)\n    clf._update_weights(weights, grads)")
    lit(ib[1], f"iteration_gemini_score, iteration_l1 = {CVS}")
    es = ib[2]
    if not isinstance(es, ast.If):
        fail("early-stopping test missing", es)
    expect_len(es.body, 3, "early-stopping improvement branch", es)
    lit(es.body[0], "validation_l1 = iteration_l1")
    lit(es.body[1], "validation_gemini_score = iteration_gemini_score")
    lit(es.body[2], "patience = 0")
    expect_len(es.orelse, 1, "early-stopping else branch", es)
    lit(es.orelse[0], "patience += 1")
    D["improve"] = tr_bool(es.test, {
        "iteration_gemini_score": ("iteration_gemini_score", "OT"), "validation_gemini_score": ("validation_gemini_score", "OT"),
        "iteration_l1": ("iteration_l1", "T"), "validation_l1": ("validation_l1", "T"),
        "early_stopping_factor": ("early_stopping_factor", "T")})
    nn = ib[3]
    if not (isinstance(nn, ast.If) and not nn.orelse and ast.unparse(nn.test) == "np.isnan(iteration_gemini_score)"):
        fail("NaN test of the inner loop changed", nn)
    nb = clean(nn.body)
    expect_len(nb, 2, "NaN branch", nn)
    if not is_warn(nb[0]):
        fail("NaN branch does not warn", nn)
    lit(nb[1], "patience = max_patience")
    lit(ib[4], "i += 1")
    lit(ob[6], "if np.isnan(iteration_gemini_score):\n    break")
    lit(ob[7], "alphas.append(alpha)")
    lit(ob[8], "n_features.append(clf._n_selected_features().item())")
    lit(ob[9], "geminis.append(iteration_gemini_score)")
    lit(ob[10], "group_lasso_penalties.append(clf._group_lasso_penalty())")
    up = ob[11]
    if not (isinstance(up, ast.AugAssign) and ast.unparse(up.target) == "alpha" and type(up.op) in ARITH):
        fail("alpha update is not an augmented assignment on alpha", up)
    D["alpha_next"] = tr_num(ast.BinOp(left=ast.Name(id="alpha"), op=up.op, right=up.value),
                             {"alpha": ("alpha", "T"), "alpha_multiplier": ("alpha_multiplier", "T")}, "T")
    bu = ob[12]
    if not (isinstance(bu, ast.If) and not bu.orelse):
        fail("best-score update changed shape", bu)
    bub = clean(bu.body)
    expect_len(bub, 1, "best-score update body", bu)
    lit(bub[0], "best_gemini_score = iteration_gemini_score")
    D["best_update"] = tr_bool(bu.test, {
        "iteration_gemini_score": ("iteration_gemini_score", "OT"), "best_gemini_score": ("best_gemini_score", "OT"),
        "clf._n_selected_features()": ("nsel", "nat"), "X.shape[1]": ("d", "nat")})
    kt = ob[13]
    if not (isinstance(kt, ast.If) and not kt.orelse):
        fail("keep test changed shape", kt)
    ktb = clean(kt.body)
    expect_len(ktb, 1, "keep test body", kt)
    lit(ktb[0], "best_weights = [w.copy() for w in weights]")
    D["keep_test"] = tr_bool(kt.test, {
        "iteration_gemini_score": ("iteration_gemini_score", "OT"), "keep_threshold": ("keep_threshold", "T"),
        "best_gemini_score": ("best_gemini_score", "OT")})
    # the compute_val_score line that forms the weighted penalty
    cvs = defs.get("compute_val_score", [])
    if len(cvs) != 1:
        fail("compute_val_score not found")
    if "validation_l1 = clf._group_lasso_penalty() * clf.alpha" not in [ast.unparse(s) for s in cvs[0].body]:
        fail("compute_val_score no longer weights the penalty by clf.alpha in the modelled way", cvs[0])
    if ast.unparse(cvs[0].body[-1]) != "return (validation_gemini, validation_l1)":
        fail("compute_val_score return changed", cvs[0])
    check_wrappers(ast.unparse(fn.args))
    return D


def check_wrappers(run_args):
    """SparseLinearModel.path / SparseMLPModel.path: same defaults as _path, forward to _path positionally,
    restore the best weights iff restore_best_weights and not self.dynamic (else warn)."""
    want_args = run_args.replace("clf, ", "self, ").replace("keep_threshold=0.9, ", "keep_threshold=0.9, restore_best_weights=True, ")
    for rel, cls, nweights in (("_linear_sparse.py", "SparseLinearModel", 2), ("_mlp_sparse.py", "SparseMLPModel", 5)):
        mod = ast.parse(open(os.path.join(REPO, "gemclus", "sparse", rel)).read())
        cl = [n for n in mod.body if isinstance(n, ast.ClassDef) and n.name == cls]
        if len(cl) != 1:
            fail(f"class {cls} not found")
        ms = [n for n in cl[0].body if isinstance(n, ast.FunctionDef) and n.name == "path"]
        if len(ms) != 1:
            fail(f"{cls}.path not found")
        m = ms[0]
        if ast.unparse(m.args) != want_args:
            fail(f"{cls}.path signature/defaults differ from _path's: {ast.unparse(m.args)}", m)
        body = clean(m.body)
        if body and isinstance(body[0], ast.Expr) and isinstance(body[0].value, ast.Constant):
            body = body[1:]
        expect_len(body, 4, f"body of {cls}.path", m)
        b0 = body[0]
        if not (isinstance(b0, ast.If) and ast.unparse(b0.test) == "y is not None and self.dynamic" and not b0.orelse
                and len(b0.body) == 1 and is_warn(b0.body[0])):
            fail(f"{cls}.path: dynamic/precomputed warning changed", b0)
        lit(body[1], "best_weights, geminis, group_lasso_penalties, alphas, n_features = _path(self, X, y, alpha_multiplier, "
                     "min_features, keep_threshold, early_stopping_factor, max_patience)")
        r = body[2]
        if not (isinstance(r, ast.If) and ast.unparse(r.test) == "restore_best_weights" and not r.orelse and len(r.body) == 1):
            fail(f"{cls}.path: restore block changed", r)
        r2 = r.body[0]
        if not (isinstance(r2, ast.If) and ast.unparse(r2.test) == "not self.dynamic" and len(r2.orelse) == 1 and is_warn(r2.orelse[0])):
            fail(f"{cls}.path: restore block changed", r2)
        cps = clean([s for s in r2.body if not (isinstance(s, ast.If) and ast.unparse(s.test) == "self.verbose")])
        got = [ast.unparse(s) for s in cps]
        wnames = [ast.unparse(e) for e in [n for n in cl[0].body if isinstance(n, ast.FunctionDef) and n.name == "_get_weights"][0].body[-1].value.elts] \
            if cls == "SparseMLPModel" else ["self.W_", "self.b_"]
        if got != [f"np.copyto({w}, best_weights[{k}])" for k, w in enumerate(wnames)] or len(got) != nweights:
            fail(f"{cls}.path: restored arrays are not _get_weights() in order: {got}", r2)
        lit(body[3], "return (best_weights, geminis, group_lasso_penalties, alphas, n_features)")


TEMPLATE = """(* GENERATED by translator/tr_pathrules.py from gemclus/sparse/_base_sparse.py::_run_path - do not edit.
   The scalar rules of the regularisation path, as the source states them now. *)
From Coq Require Import List Bool Arith ZArith.
From GV Require Import Common.Num Model.Path.
Section Rules.
Context {{T : Type}} (o : NumOps T).
(* def _run_path / _path(clf, X, y=None, alpha_multiplier=.., min_features=.., keep_threshold=.., early_stopping_factor=.., max_patience=..) *)
Definition sig_mult : T := {sig_mult}.
Definition sig_minf : Z := {sig_minf}.
Definition sig_keep : T := {sig_keep}.
Definition sig_esf : T := {sig_esf}.
Definition sig_patience : Z := {sig_patience}.
(* if <test>: warnings.warn(..); alpha_multiplier = <default> *)
Definition mult_bad (alpha_multiplier : T) : bool := {mult_bad}.
Definition mult_default : T := {mult_default}.
(* if <test>: warnings.warn(..); keep_threshold = <default> *)
Definition keep_bad (keep_threshold : T) : bool := {keep_bad}.
Definition keep_default : T := {keep_default}.
(* if <test>: warnings.warn(..); min_features = <default>   elif <test>: warnings.warn(..) *)
Definition minf_bad (min_features : Z) : bool := {minf_bad}.
Definition minf_default : Z := {minf_default}.
Definition minf_warn (min_features : Z) (d : nat) : bool := {minf_warn}.
(* early-stopping test of the inner loop *)
Definition improve (iteration_gemini_score validation_gemini_score : option T)
                   (iteration_l1 validation_l1 early_stopping_factor : T) : bool :=
  {improve}.
(* alpha <op>= alpha_multiplier *)
Definition alpha_next (alpha alpha_multiplier : T) : T := {alpha_next}.
(* if <test>: best_gemini_score = iteration_gemini_score *)
Definition best_update (iteration_gemini_score best_gemini_score : option T) (nsel d : nat) : bool :=
  {best_update}.
(* if <test>: best_weights = [w.copy() for w in weights] *)
Definition keep_test (iteration_gemini_score : option T) (keep_threshold : T) (best_gemini_score : option T) : bool :=
  {keep_test}.
Definition path_rules : PathRules T := {{|
  r_sig_mult := sig_mult; r_sig_minf := sig_minf; r_sig_keep := sig_keep; r_sig_esf := sig_esf; r_sig_patience := sig_patience;
  r_mult_bad := mult_bad; r_mult_default := mult_default; r_keep_bad := keep_bad; r_keep_default := keep_default;
  r_minf_bad := minf_bad; r_minf_default := minf_default; r_minf_warn := minf_warn;
  r_improve := improve; r_alpha_next := alpha_next; r_best_update := best_update; r_keep_test := keep_test |}}.
End Rules.
(* EXTRACT: path_rules *)
"""


def main():
    try:
        D = translate()
    except (Unknown, SyntaxError, OSError) as e:
        print(f"tr_pathrules: FAIL-CLOSED: {e}")
        sys.exit(1)
    text = TEMPLATE.format(**D)
    old = open(OUT).read() if os.path.exists(OUT) else None
    if old != text:
        os.makedirs(os.path.dirname(OUT), exist_ok=True)
        open(OUT, "w").write(text)
        print("tr_pathrules: wrote", OUT)
    else:
        print("tr_pathrules: unchanged")


if __name__ == "__main__":
    main()
