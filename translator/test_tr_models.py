#!/usr/bin/env python3
"""Self-test of translator/tr_models.py WITHOUT Coq (not run by the build).

`tr_models.py --python` prints the symbolic terms it puts into coq/Gen/Models.v as plain Python functions (IEEE
doubles, the same left-fold `bsum`, `nmax`, and Model/Forward.v's softmax written out).  They are evaluated here
on random parameters and compared, entry by entry, with the REAL methods of the estimators:

  LinearMMD / MLPMMD / SparseMLPMMD / CategoricalMMD   _infer(X) (retain=True: also the stored self.H_), _infer(X', retain=False)
                                                       (output, and self.H_ left alone), _compute_grads(X, y_pred, gradient)
                                                       with y_pred = the real _infer output and with an arbitrary matrix
  RIM                                                  _update_weights(weights, gradients) with a recording optimiser
  KernelRIM                                            _compute_grads on a block of rows of a random training kernel

Cases include batch size 1, d = 1, h = 1, K = 1, K = n, hidden units that are inactive on the whole batch, on a part of
it, and units whose pre-activation is exactly 0 (mask `H_ > 0` false).  The order and the shapes of the returned list
are compared with `_get_weights()`.

    /venv/bin/python translator/test_tr_models.py [cases-per-family] [seed]

Exit status 0 when the maximum relative discrepancy |a - b| / (1 + |b|) is below 1e-9, 1 otherwise (2: the
translator failed closed).
"""
import os
import subprocess
import sys

HERE = os.path.dirname(os.path.abspath(__file__))
REPO = os.environ.get("VERIF_REPO", "/repo")
sys.path.insert(0, REPO)

import numpy as np  # noqa: E402

ROW_VECTORS = {"b_", "b1_", "b2_"}       # declared 1 x m: functions of one index
SCALARS = {"reg"}
DIMS = ("n", "d", "nt", "h", "K")


class Recorder:
    """stands for self.optimiser_: records what _update_weights hands over"""

    def __init__(self):
        self.calls = []

    def update_params(self, weights, gradients):
        self.calls.append(([w for w in weights], [np.array(g, dtype=float) for g in gradients]))


def as_fun(name, a, row_vector):
    if name in SCALARS:
        return float(a)
    a = np.asarray(a, dtype=float)
    if row_vector:
        assert a.shape[0] == 1, (name, a.shape)
        return lambda k, a=a: float(a[0, k])
    assert a.ndim == 2, (name, a.shape)
    return lambda p, q, a=a: float(a[p, q])


class Gen:
    def __init__(self, ns):
        self.ns, self.sig = ns, ns["SIGNATURES"]

    def array(self, name, dims, inputs, ref_shape, row_inputs=()):
        """evaluate generated definition `name` on every index; the result has the shape of the reference array"""
        params = self.sig[name]
        fixed, index = {}, []
        for p in params:
            if p in DIMS:
                fixed[p] = dims[p]
            elif p in inputs:
                fixed[p] = as_fun(p, inputs[p], p in ROW_VECTORS or p in row_inputs)
            else:
                index.append(p)
        sizes = [s for s in ref_shape]
        if len(index) != len(sizes):                     # a declared unit axis (1 x m) is not an index
            assert len(sizes) == 2 and sizes[0] == 1 and len(index) == 1, (name, index, ref_shape)
            sizes = [sizes[1]]
        out = np.empty(sizes)
        for pos in np.ndindex(*sizes):
            out[pos] = self.ns[name](**fixed, **dict(zip(index, (int(x) for x in pos))))
        return out.reshape(ref_shape), [p for p in params if p in inputs]


def rel(a, b):
    a, b = np.asarray(a, dtype=float), np.asarray(b, dtype=float)
    if a.shape != b.shape:
        return float("inf")
    if a.size == 0:
        return 0.0
    return float(np.max(np.abs(a - b) / (1.0 + np.abs(b))))


def main():
    cases = int(sys.argv[1]) if len(sys.argv) > 1 else 40
    seed = int(sys.argv[2]) if len(sys.argv) > 2 else 20261001
    r = subprocess.run([sys.executable, os.path.join(HERE, "tr_models.py"), "--python"], capture_output=True, text=True,
                       env=dict(os.environ, VERIF_REPO=REPO))
    if r.returncode != 0:
        print("translator failed closed:", r.stderr.strip())
        return 2
    ns = {}
    exec(compile(r.stdout, "<tr_models --python>", "exec"), ns)
    gen = Gen(ns)
    from gemclus.linear import LinearMMD, RIM, KernelRIM
    from gemclus.mlp import MLPMMD
    from gemclus.sparse import SparseMLPMMD
    from gemclus.nonparametric import CategoricalMMD

    rng = np.random.default_rng(seed)
    worst, bad = {}, []
    counts = {"cases": 0, "entries": 0, "batch_size_1": 0, "inactive_units": 0, "partly_active_units": 0,
              "exact_zero_preactivations": 0, "K_equals_1": 0}
    reads = {}

    def note(key, got, ref, what):
        d = rel(got, ref)
        worst[key] = max(worst.get(key, 0.0), d)
        counts["entries"] += int(np.asarray(ref).size)
        if not np.all(np.isfinite(ref)):
            bad.append((key, "non-finite reference", what))
        elif not d <= 1e-9:
            bad.append((key, f"discrepancy {d:.3e}", what))

    def shapes(c):
        n = int(rng.choice([1, 1, 2, 3, 5, 7]))
        d = int(rng.choice([1, 2, 3, 5]))
        h = int(rng.choice([1, 2, 4, 6]))
        K = int(rng.choice([1, 2, 3, 4]))
        if c % 6 == 0:
            n = 1
        if c % 9 == 4:
            K = n
        counts["batch_size_1"] += n == 1
        counts["K_equals_1"] += K == 1
        return n, d, h, K

    def check_grads(key, names, est, dims, inputs, X, y_pred, gradient, what):
        ref = est._compute_grads(X.copy(), y_pred.copy(), gradient.copy())
        ws = est._get_weights()
        if len(ref) != len(names) or len(ws) != len(names):
            bad.append((key, f"{len(ref)} gradients, {len(ws)} weights, {len(names)} generated definitions", what))
            return
        for nm, g, w in zip(names, ref, ws):
            if np.shape(g) != np.shape(w):
                bad.append((key, f"{nm}: gradient shape {np.shape(g)} differs from the weight's {np.shape(w)}", what))
                continue
            got, used = gen.array(nm, dims, inputs, np.shape(g))
            reads[nm] = used
            note(nm, got, g, what)

    # ------------------------------------------------------------------ linear
    for c in range(cases):
        n, d, h, K = shapes(c)
        est = LinearMMD(n_clusters=K)
        est.W_, est.b_ = rng.normal(size=(d, K)) * rng.choice([0.3, 2.0]), rng.normal(size=(1, K))
        X = rng.normal(size=(n, d)) * rng.choice([0.5, 3.0])
        dims = {"n": n, "d": d, "K": K}
        inputs = {"W_": est.W_, "b_": est.b_, "X": X}
        y = est._infer(X.copy())
        got, reads["gen_linear_infer"] = gen.array("gen_linear_infer", dims, inputs, y.shape)
        note("gen_linear_infer", got, y, ("linear", n, d, K))
        for y_pred in (y, rng.uniform(-0.5, 1.5, size=(n, K))):
            G = rng.normal(size=(n, K))
            check_grads("linear", ["gen_linear_grads_W", "gen_linear_grads_b"], est, dims,
                        dict(inputs, y_pred=y_pred, gradient=G), X, y_pred, G, ("linear", n, d, K))
        counts["cases"] += 1

    # ------------------------------------------------------------------ MLP and sparse MLP
    for fam, cls in (("mlp", MLPMMD), ("sparse_mlp", SparseMLPMMD)):
        for c in range(cases):
            n, d, h, K = shapes(c)
            est = cls(n_clusters=K, n_hidden_dim=h)
            est.W1_, est.b1_ = rng.normal(size=(d, h)), rng.normal(size=(1, h))
            est.W2_, est.b2_ = rng.normal(size=(h, K)), rng.normal(size=(1, K))
            if fam == "sparse_mlp":
                est.W_skip_ = rng.normal(size=(d, K))
            X = rng.normal(size=(n, d))
            # ReLU-inactive units: dead on the whole batch / exactly zero pre-activation / alive everywhere
            for u in range(h):
                m = rng.random()
                if m < 0.25:
                    est.b1_[0, u] = -50.0 - 10.0 * rng.random()
                elif m < 0.4:
                    est.W1_[:, u] = 0.0
                    est.b1_[0, u] = 0.0
                elif m < 0.5:
                    est.b1_[0, u] = 50.0
            pre = X @ est.W1_ + est.b1_
            act = pre > 0
            counts["inactive_units"] += int(np.sum(~act.any(0)))
            counts["partly_active_units"] += int(np.sum(act.any(0) & ~act.all(0)))
            counts["exact_zero_preactivations"] += int(np.sum(pre == 0))
            dims = {"n": n, "d": d, "h": h, "K": K}
            inputs = {"W1_": est.W1_, "b1_": est.b1_, "W2_": est.W2_, "b2_": est.b2_, "X": X}
            if fam == "sparse_mlp":
                inputs["W_skip_"] = est.W_skip_
            what = (fam, n, d, h, K)
            y = est._infer(X.copy())
            H = np.array(est.H_, dtype=float)
            got, reads[f"gen_{fam}_infer"] = gen.array(f"gen_{fam}_infer", dims, inputs, y.shape)
            note(f"gen_{fam}_infer", got, y, what)
            got, reads[f"gen_{fam}_retained_H"] = gen.array(f"gen_{fam}_retained_H", dims, inputs, H.shape)
            note(f"gen_{fam}_retained_H", got, H, what)
            # prediction-time call: same function of its own input, self.H_ untouched
            X2 = rng.normal(size=(int(rng.choice([1, 2, 4])), d))
            y2 = est._infer(X2.copy(), retain=False)
            if not (np.shape(est.H_) == H.shape and np.array_equal(est.H_, H)):
                bad.append((fam, "_infer(retain=False) changed self.H_", what))
            got, _ = gen.array(f"gen_{fam}_infer", dict(dims, n=X2.shape[0]), dict(inputs, X=X2), y2.shape)
            note(f"gen_{fam}_infer", got, y2, what)
            names = [f"gen_{fam}_grads_{s}" for s in (("W1", "W2", "b1", "b2") if fam == "mlp" else ("W1", "W2", "Wskip", "b1", "b2"))]
            for y_pred in (y, rng.uniform(-0.5, 1.5, size=(n, K))):
                G = rng.normal(size=(n, K))
                check_grads(fam, names, est, dims, dict(inputs, H_=H, y_pred=y_pred, gradient=G), X, y_pred, G, what)
            counts["cases"] += 1

    # ------------------------------------------------------------------ categorical
    for c in range(cases):
        n, d, h, K = shapes(c)
        est = CategoricalMMD(n_clusters=K)
        est.logits_ = rng.uniform(-1, 1, size=(n, K)) * rng.choice([1.0, 8.0])
        X = rng.normal(size=(n, d))
        dims = {"n": n, "K": K}
        inputs = {"logits_": est.logits_, "X": X}
        y = est._infer(X.copy())
        got, reads["gen_categorical_infer"] = gen.array("gen_categorical_infer", dims, inputs, y.shape)
        note("gen_categorical_infer", got, y, ("categorical", n, K))
        for y_pred in (y, rng.uniform(-0.5, 1.5, size=(n, K))):
            G = rng.normal(size=(n, K))
            check_grads("categorical", ["gen_categorical_grads"], est, dims, dict(inputs, y_pred=y_pred, gradient=G), X, y_pred, G,
                        ("categorical", n, K))
        counts["cases"] += 1

    # ------------------------------------------------------------------ RIM._update_weights
    for c in range(cases):
        n, d, h, K = shapes(c)
        reg = float(rng.choice([0.0, 0.1, 1.5]))
        est = RIM(n_clusters=K, reg=reg)
        est.W_, est.b_ = rng.normal(size=(d, K)), rng.normal(size=(1, K))
        est.optimiser_ = Recorder()
        G0, G1 = rng.normal(size=(d, K)), rng.normal(size=(1, K))
        weights = est._get_weights()
        est._update_weights(weights, [G0.copy(), G1.copy()])
        what = ("rim", d, K, reg)
        if len(est.optimiser_.calls) != 1 or len(est.optimiser_.calls[0][1]) != 2 \
                or any(a is not b for a, b in zip(est.optimiser_.calls[0][0], weights)):
            bad.append(("rim", "update_params not called once with the weights and two gradients", what))
            continue
        h0, h1 = est.optimiser_.calls[0][1]
        dims = {"d": d, "K": K}
        inputs = {"W_": est.W_, "b_": est.b_, "reg": reg, "gradients_0": G0, "gradients_1": G1}
        got, reads["gen_rim_update_grads_W"] = gen.array("gen_rim_update_grads_W", dims, inputs, h0.shape)
        note("gen_rim_update_grads_W", got, h0, what)
        got, reads["gen_rim_update_grads_b"] = gen.array("gen_rim_update_grads_b", dims, inputs, h1.shape, row_inputs=("gradients_1",))
        note("gen_rim_update_grads_b", got, h1, what)
        got, reads["gen_rim_penalty_term"] = gen.array("gen_rim_penalty_term", dims, inputs, h0.shape)
        note("gen_rim_penalty_term", got, h0 - G0, what)
        counts["cases"] += 1

    # ------------------------------------------------------------------ KernelRIM._compute_grads
    for c in range(cases):
        n, d, h, K = shapes(c)
        nt = int(rng.choice([1, 2, 4, 6]))
        reg = float(rng.choice([0.0, 0.1, 1.5]))
        est = KernelRIM(n_clusters=K, reg=reg)
        A = rng.normal(size=(nt, 3))
        est.training_kernel_ = A @ A.T
        est.W_, est.b_ = rng.normal(size=(nt, K)), rng.normal(size=(1, K))
        X = est.training_kernel_[rng.integers(0, nt, size=n)]
        what = ("kernel_rim", n, nt, K, reg)
        dims = {"n": n, "nt": nt, "K": K}
        inputs = {"W_": est.W_, "b_": est.b_, "training_kernel_": est.training_kernel_, "reg": reg, "X": X}
        y = est._infer(X.copy())
        got, _ = gen.array("gen_linear_infer", {"n": n, "d": nt, "K": K}, inputs, y.shape)
        note("gen_linear_infer", got, y, what)
        for y_pred in (y, rng.uniform(-0.5, 1.5, size=(n, K))):
            G = rng.normal(size=(n, K))
            check_grads("kernel_rim", ["gen_kernel_rim_grads_W", "gen_kernel_rim_grads_b"], est, dims,
                        dict(inputs, y_pred=y_pred, gradient=G), X, y_pred, G, what)
            got, reads["gen_kernel_rim_penalty_term"] = gen.array("gen_kernel_rim_penalty_term", dims, inputs, est.W_.shape)
            base = super(KernelRIM, est)._compute_grads(X.copy(), y_pred.copy(), G.copy())[0]
            full = est._compute_grads(X.copy(), y_pred.copy(), G.copy())[0]
            note("gen_kernel_rim_penalty_term", got, full - base, what)
        counts["cases"] += 1

    missing = sorted(set(gen.sig) - set(worst))
    for k in sorted(worst):
        print(f"{k:32s} max relative discrepancy {worst[k]:.3e}   reads {', '.join(reads.get(k, []))}")
    print("counts:", {k: int(v) for k, v in counts.items()})
    print("MAX DISCREPANCY", f"{max(worst.values()):.3e}")
    if missing:
        print("NOT EXERCISED", missing)
    for b in bad[:10]:
        print("BAD", b)
    return 1 if bad or missing else 0


if __name__ == "__main__":
    sys.exit(main())
