#!/usr/bin/env python3
"""Fail-closed translator: gemclus/data/synthetic_data.py (gstm, celeux_one, celeux_two) -> coq/Gen/DataConstants.v

What is regenerated: the literal constants of the three dataset generators, as exact rationals (sqrt 3 is kept
symbolic: a number of Q[sqrt 3] is the pair (a, b) standing for a + b*sqrt 3):
  gstm        locations (as multiples of alpha), covariance, mixing weights, the `3 * n // 4` split, the label given
              to the Student-t samples, location/scale of the Student-t component;
  celeux_one  the three means (as multiples of mu), covariance, mixing weights;
  celeux_two  the four means, covariance, mixing weights, the matrix b, the offsets, the 9x9 noise covariance
              (block_diag of eye(3), 0.5*eye(2) and the two rotation conjugates, multiplied out exactly in Q[sqrt 3]),
              mean and covariance of the three trailing noise variables.
How: every function body is walked statement by statement.  Assignments whose right-hand side is a *constant
array expression* are evaluated by a tiny exact evaluator (np.array / np.eye / np.ones / np.zeros / np.diag /
block_diag / .T / @ / + - * / unary minus / np.sqrt(3) / slicing [:-1], [-1] / list literals, list * int, list +=).
The *structural* statements (calls of draw_gmm, multivariate_student_t, the random generator, the assembly of the
returned arrays) must be exactly the skeleton that the hand-written model coq/Model/DataGen.v assumes, in the same
order (= same consumption order of the random stream).  Anything else - an unknown AST node, a different call
order, a non-rational literal - makes the translator exit non-zero WITHOUT writing; the build prints TRANSLATOR-FAIL
and the check relies on the recorded-draw correspondence alone.
"""
import ast, os, sys
from fractions import Fraction

REPO = os.environ.get("VERIF_REPO", "/repo")
ROOT = os.path.dirname(os.path.dirname(os.path.abspath(__file__)))
SRC = os.path.join(REPO, "gemclus", "data", "synthetic_data.py")
OUT = os.path.join(ROOT, "coq", "Gen", "DataConstants.v")


SCALING = ("alpha", "mu")     # parameters a constant array may be multiplied by (kept symbolic)


class Unknown(Exception):
    pass


def fail(msg, node=None):
    where = f" (line {getattr(node, 'lineno', '?')})" if node is not None else ""
    raise Unknown(msg + where)


# ------------------------------------------------------------------ exact numbers a + b*sqrt(3)
class QS:
    __slots__ = ("a", "b")

    def __init__(self, a, b=0):
        self.a, self.b = Fraction(a), Fraction(b)

    def __add__(s, o): return QS(s.a + o.a, s.b + o.b)
    def __sub__(s, o): return QS(s.a - o.a, s.b - o.b)
    def __neg__(s): return QS(-s.a, -s.b)
    def __mul__(s, o): return QS(s.a * o.a + 3 * s.b * o.b, s.a * o.b + s.b * o.a)

    def div(s, o, node=None):
        if o.b != 0 or o.a == 0:
            fail("division by a non-rational or zero constant", node)
        return QS(s.a / o.a, s.b / o.a)

    def is_zero(s): return s.a == 0 and s.b == 0
    def rational(s): return s.b == 0


class Arr:
    """constant array: 1-D (list of QS) or 2-D (list of lists); `sym` = name of the function parameter every entry
    is multiplied by (None: plain constant)."""

    def __init__(self, data, sym=None):
        self.data, self.sym = data, sym
        self.ndim = 2 if (data and isinstance(data[0], list)) else 1
        if self.ndim == 2:
            if any(not isinstance(r, list) or len(r) != len(data[0]) or any(isinstance(x, list) for x in r) for r in data):
                fail("ragged or more than 2-dimensional array literal")
            self.shape = (len(data), len(data[0]))
        else:
            self.shape = (len(data),)

    def map(self, f):
        return Arr([[f(x) for x in r] for r in self.data] if self.ndim == 2 else [f(x) for x in self.data], self.sym)

    def all_zero(self):
        return all(x.is_zero() for x in (sum(self.data, []) if self.ndim == 2 else self.data))


def as_int(node, lo=0, hi=64):
    if isinstance(node, ast.Constant) and isinstance(node.value, int) and not isinstance(node.value, bool) and lo <= node.value <= hi:
        return node.value
    fail("a small non-negative integer literal was expected", node)


def const_scalar(v, node):
    if isinstance(v, bool):
        fail("boolean constant", node)
    if isinstance(v, int):
        if abs(v) > 10 ** 6:
            fail("integer literal out of range", node)
        return QS(v)
    if isinstance(v, float):
        fr = Fraction(repr(v))
        if fr.denominator > 10 ** 6 or abs(fr.numerator) > 10 ** 6 or fr.numerator / fr.denominator != v:
            fail(f"float literal {v!r} is not a small exact decimal", node)
        return QS(fr)
    fail("constant of unknown kind", node)


def ev(e, env, params):
    """evaluate a constant expression -> QS | Arr | list (python list of values)"""
    if isinstance(e, ast.Constant):
        return const_scalar(e.value, e)
    if isinstance(e, ast.Name):
        if e.id in env:
            return env[e.id]
        fail(f"name {e.id} is not a known constant", e)
    if isinstance(e, ast.UnaryOp) and isinstance(e.op, ast.USub):
        v = ev(e.operand, env, params)
        if isinstance(v, QS):
            return -v
        if isinstance(v, Arr):
            return v.map(lambda x: -x)
        fail("unary minus on a list", e)
    if isinstance(e, ast.List):
        vals = [ev(x, env, params) for x in e.elts]
        return vals
    if isinstance(e, ast.Attribute) and e.attr == "T":
        v = ev(e.value, env, params)
        if not isinstance(v, Arr) or v.ndim != 2:
            fail(".T of something that is not a constant matrix", e)
        return Arr([list(r) for r in zip(*v.data)], v.sym)
    if isinstance(e, ast.Subscript):
        v = ev(e.value, env, params)
        if not isinstance(v, Arr) or v.ndim != 2:
            fail("subscript of something that is not a constant matrix", e)
        s = ast.unparse(e.slice)
        if s == ":-1":
            return Arr(v.data[:-1], v.sym)
        if s == "-1":
            return Arr(v.data[-1], v.sym)
        fail(f"unsupported subscript [{s}]", e)
    if isinstance(e, ast.BinOp):
        op = type(e.op)
        # <array> * <parameter>: symbolic scaling by alpha / mu
        if op is ast.Mult and isinstance(e.right, ast.Name) and e.right.id in params and e.right.id in SCALING and e.right.id not in env:
            v = ev(e.left, env, params)
            if not isinstance(v, Arr) or v.sym is not None:
                fail("only a constant array may be scaled by a parameter, once", e)
            return Arr(v.data, e.right.id)
        a, b = ev(e.left, env, params), ev(e.right, env, params)
        if isinstance(a, list) or isinstance(b, list):
            if op is ast.Mult and isinstance(a, list) and isinstance(e.right, ast.Constant):
                return a * as_int(e.right, 0, 16)
            if op is ast.Add and isinstance(a, list) and isinstance(b, list):
                return a + b
            fail("unsupported list operation", e)
        if isinstance(a, QS) and isinstance(b, QS):
            if op is ast.Add: return a + b
            if op is ast.Sub: return a - b
            if op is ast.Mult: return a * b
            if op is ast.Div: return a.div(b, e)
            fail("unsupported scalar operator", e)
        if op is ast.MatMult:
            if not (isinstance(a, Arr) and isinstance(b, Arr) and a.ndim == 2 and b.ndim == 2 and a.shape[1] == b.shape[0]
                    and a.sym is None and b.sym is None):
                fail("matrix product of non-conforming / symbolic operands", e)
            bt = list(zip(*b.data))
            out = []
            for r in a.data:
                row = []
                for c in bt:
                    acc = QS(0)
                    for x, y in zip(r, c):
                        acc = acc + x * y
                    row.append(acc)
                out.append(row)
            return Arr(out)
        if isinstance(a, QS) and isinstance(b, Arr) and op is ast.Mult:
            return b.map(lambda x: a * x)
        if isinstance(a, Arr) and isinstance(b, QS):
            if op is ast.Mult: return a.map(lambda x: x * b)
            if op is ast.Div: return a.map(lambda x: x.div(b, e))
        fail("unsupported array operation", e)
    if isinstance(e, ast.Starred):
        fail("starred expression outside block_diag", e)
    if isinstance(e, ast.Call):
        f = ast.unparse(e.func)
        if e.keywords:
            fail(f"keyword arguments in constant call {f}", e)
        if f == "np.sqrt" and len(e.args) == 1 and isinstance(e.args[0], ast.Constant) and e.args[0].value == 3 \
                and isinstance(e.args[0].value, int):
            return QS(0, 1)
        if f in ("np.eye", "np.ones", "np.zeros") and len(e.args) == 1:
            k = as_int(e.args[0], 1, 32)
            if f == "np.eye":
                return Arr([[QS(1 if i == j else 0) for j in range(k)] for i in range(k)])
            return Arr([QS(1 if f == "np.ones" else 0) for _ in range(k)])
        if f == "np.array" and len(e.args) == 1:
            v = ev(e.args[0], env, params)

            def conv(x):
                if isinstance(x, QS): return x
                if isinstance(x, list): return [conv(y) for y in x]
                fail("np.array of a non-literal", e)
            if not isinstance(v, list):
                fail("np.array of a non-list", e)
            return Arr(conv(v))
        if f == "np.diag" and len(e.args) == 1:
            v = ev(e.args[0], env, params)
            if not isinstance(v, Arr) or v.ndim != 1 or v.sym is not None:
                fail("np.diag of something that is not a constant vector", e)
            k = len(v.data)
            return Arr([[v.data[i] if i == j else QS(0) for j in range(k)] for i in range(k)])
        if f == "block_diag" and len(e.args) == 1 and isinstance(e.args[0], ast.Starred):
            blocks = ev(e.args[0].value, env, params)
            if not isinstance(blocks, list) or any(not isinstance(b, Arr) or b.ndim != 2 or b.sym is not None for b in blocks):
                fail("block_diag of something that is not a list of constant matrices", e)
            n = sum(b.shape[1] for b in blocks)
            out, off = [], 0
            for b in blocks:
                for r in b.data:
                    out.append([QS(0)] * off + list(r) + [QS(0)] * (n - off - b.shape[1]))
                off += b.shape[1]
            return Arr(out)
        fail(f"unknown constant call {f}", e)
    fail(f"unknown expression node {type(e).__name__}: {ast.unparse(e)[:80]}", e)


# ------------------------------------------------------------------ walking a generator body
def body_of(fn):
    b = list(fn.body)
    if b and isinstance(b[0], ast.Expr) and isinstance(b[0].value, ast.Constant) and isinstance(b[0].value.value, str):
        b = b[1:]
    return b


def params_of(fn, want):
    a = fn.args
    names = [x.arg for x in a.args]
    if names != want or a.vararg or a.kwarg or a.kwonlyargs or a.posonlyargs:
        fail(f"signature of {fn.name} changed: {names}", fn)
    return names


class Walker:
    """constant assignments are evaluated wherever they occur; structural statements are consumed in order."""

    def __init__(self, fn, params):
        self.stmts, self.i, self.env, self.params, self.fn = body_of(fn), 0, {}, params, fn

    def _absorb_constants(self):
        while self.i < len(self.stmts):
            s = self.stmts[self.i]
            if isinstance(s, ast.Assign) and len(s.targets) == 1 and isinstance(s.targets[0], ast.Name):
                try:
                    v = ev(s.value, self.env, self.params)
                except Unknown:
                    return
                self.env[s.targets[0].id] = v
                self.i += 1
            elif isinstance(s, ast.AugAssign) and isinstance(s.op, ast.Add) and isinstance(s.target, ast.Name) \
                    and isinstance(self.env.get(s.target.id), list):
                v = ev(s.value, self.env, self.params)
                if not isinstance(v, list):
                    fail("`+=` of a non-list onto a list of constants", s)
                self.env[s.target.id] = self.env[s.target.id] + v
                self.i += 1
            else:
                return

    def next(self, what):
        self._absorb_constants()
        if self.i >= len(self.stmts):
            fail(f"{self.fn.name}: body ends before `{what}`", self.fn)
        s = self.stmts[self.i]
        self.i += 1
        return s

    def lit(self, text):
        s = self.next(text)
        if ast.unparse(s) != text:
            fail(f"{self.fn.name}: statement differs from the modelled skeleton: expected `{text}` got `{ast.unparse(s)[:120]}`", s)

    def call(self, targets, func, nargs, fixed, keywords=None):
        """<targets> = func(a0, .., a_{nargs-1}) with the argument positions in `fixed` given literally; returns the
        other arguments evaluated as constants"""
        s = self.next(f"{targets} = {func}(...)")
        if not (isinstance(s, ast.Assign) and len(s.targets) == 1 and ast.unparse(s.targets[0]) == targets
                and isinstance(s.value, ast.Call) and ast.unparse(s.value.func) == func and len(s.value.args) == nargs):
            fail(f"{self.fn.name}: expected `{targets} = {func}(<{nargs} arguments>)`, got `{ast.unparse(s)[:120]}`", s)
        kw = {k.arg: ast.unparse(k.value) for k in s.value.keywords}
        if kw != (keywords or {}):
            fail(f"{self.fn.name}: keyword arguments of {func} changed: {kw}", s)
        out = []
        for k, a in enumerate(s.value.args):
            if k in fixed:
                if ast.unparse(a) != fixed[k]:
                    fail(f"{self.fn.name}: argument {k} of {func} is `{ast.unparse(a)}`, the model assumes `{fixed[k]}`", a)
            else:
                out.append(ev(a, self.env, self.params))
        return out

    def end(self):
        self._absorb_constants()
        if self.i != len(self.stmts):
            fail(f"{self.fn.name}: unexpected extra statement `{ast.unparse(self.stmts[self.i])[:100]}`", self.stmts[self.i])


# ------------------------------------------------------------------ shape checks + Coq text
def q(fr):
    return f"({fr.numerator} # {fr.denominator})"


def need_rational(x, what):
    if not x.rational():
        fail(f"{what}: sqrt 3 appears where a rational constant is expected")
    return x.a


def vecQ(v, n, what, sym=None):
    if not isinstance(v, Arr) or v.ndim != 1 or v.shape != (n,):
        fail(f"{what}: expected a constant vector of length {n}")
    if v.sym != sym and not (v.sym is None and v.all_zero()):
        fail(f"{what}: scaled by {v.sym}, expected {sym}")
    return "[" + "; ".join(q(need_rational(x, what)) for x in v.data) + "]"


def matQ(m, r, c, what, sym=None):
    if not isinstance(m, Arr) or m.ndim != 2 or m.shape != (r, c):
        fail(f"{what}: expected a constant {r}x{c} matrix")
    if m.sym != sym and not (m.sym is None and m.all_zero()):
        fail(f"{what}: scaled by {m.sym}, expected {sym}")
    return "[" + ";\n   ".join("[" + "; ".join(q(need_rational(x, what)) for x in row) + "]" for row in m.data) + "]"


def matQS(m, r, c, what):
    if not isinstance(m, Arr) or m.ndim != 2 or m.shape != (r, c) or m.sym is not None:
        fail(f"{what}: expected a constant {r}x{c} matrix")
    return "[" + ";\n   ".join("[" + "; ".join(f"({q(x.a)}, {q(x.b)})" for x in row) + "]" for row in m.data) + "]"


def rows_of(v, K, d, what, sym=None):
    """a list of K vectors, or a Kxd matrix -> Coq list (list Q)"""
    if isinstance(v, list):
        if len(v) != K:
            fail(f"{what}: expected {K} components")
        return "[" + ";\n   ".join(vecQ(x, d, what, sym) for x in v) + "]"
    return matQ(v, K, d, what, sym)


def covs_of(v, K, d, what):
    if not isinstance(v, list) or len(v) != K:
        fail(f"{what}: expected a list of {K} matrices")
    return "[" + ";\n  ".join(matQ(x, d, d, what) for x in v) + "]"


def split_rule(w, D):
    """n_gaussian = a * n // b   (also n * a // b, n // b)"""
    s = w.next("n_gaussian = <a> * n // <b>")
    ok = (isinstance(s, ast.Assign) and len(s.targets) == 1 and ast.unparse(s.targets[0]) == "n_gaussian"
          and isinstance(s.value, ast.BinOp) and isinstance(s.value.op, ast.FloorDiv))
    num = s.value.left if ok else None
    a = None
    if ok and isinstance(num, ast.Name) and num.id == "n":
        a = 1
    elif ok and isinstance(num, ast.BinOp) and isinstance(num.op, ast.Mult):
        if isinstance(num.right, ast.Name) and num.right.id == "n":
            a = as_int(num.left, 0, 64)
        elif isinstance(num.left, ast.Name) and num.left.id == "n":
            a = as_int(num.right, 0, 64)
    if a is None:
        fail("gstm: the Gaussian share is not of the form `<a> * n // <b>`: " + ast.unparse(s)[:80], s)
    D["gstm_split_num"] = a
    D["gstm_split_den"] = as_int(s.value.right, 1, 64)


def translate(src):
    mod = ast.parse(src)
    fns = {n.name: n for n in mod.body if isinstance(n, ast.FunctionDef)}
    for name in ("gstm", "celeux_one", "celeux_two", "draw_gmm", "multivariate_student_t"):
        if name not in fns:
            fail(f"function {name} not found")
    if [a.arg for a in fns["draw_gmm"].args.args] != ["n", "loc", "scale", "pvals", "random_state"]:
        fail("signature of draw_gmm changed", fns["draw_gmm"])
    if [a.arg for a in fns["multivariate_student_t"].args.args] != ["n", "loc", "scale", "df", "random_state"]:
        fail("signature of multivariate_student_t changed", fns["multivariate_student_t"])
    D = {}
    # ---------------- gstm
    fn = fns["gstm"]
    w = Walker(fn, params_of(fn, ["n", "alpha", "df", "random_state"]))
    w.lit("generator = check_random_state(random_state)")
    split_rule(w, D)
    loc, cov, p = w.call("(X_gaussian, y_gaussian)", "draw_gmm", 5, {0: "n_gaussian", 4: "generator"})
    D["gstm_gmm_loc_over_alpha"] = rows_of(loc, 3, 2, "gstm mixture locations", "alpha")
    D["gstm_gmm_cov"] = covs_of(cov, 3, 2, "gstm mixture covariances")
    D["gstm_gmm_pvals"] = vecQ(p, 3, "gstm mixture proportions")
    w.lit("n_student = n - n_gaussian")
    sloc, sscale = w.call("X_student", "multivariate_student_t", 5, {0: "n_student", 3: "df", 4: "generator"})
    D["gstm_student_loc_over_alpha"] = vecQ(sloc, 2, "gstm Student-t location", "alpha")
    D["gstm_student_scale"] = matQ(sscale, 2, 2, "gstm Student-t scale")
    w.lit("X = np.vstack([X_gaussian, X_student])")
    s = w.next("y = np.concatenate([y_gaussian, np.ones(n_student) * <label>])")
    ok = (isinstance(s, ast.Assign) and ast.unparse(s.targets[0]) == "y" and isinstance(s.value, ast.Call)
          and ast.unparse(s.value.func) == "np.concatenate" and len(s.value.args) == 1 and not s.value.keywords
          and isinstance(s.value.args[0], ast.List) and len(s.value.args[0].elts) == 2
          and ast.unparse(s.value.args[0].elts[0]) == "y_gaussian")
    lab = s.value.args[0].elts[1] if ok else None
    if not (ok and isinstance(lab, ast.BinOp) and isinstance(lab.op, ast.Mult) and ast.unparse(lab.left) == "np.ones(n_student)"):
        fail("gstm: the labels are not `np.concatenate([y_gaussian, np.ones(n_student) * <label>])`", s)
    D["gstm_student_label"] = as_int(lab.right, 0, 64)
    w.lit("order = generator.permutation(n)")
    w.lit("return (X[order], y[order])")
    w.end()
    # ---------------- celeux_one
    fn = fns["celeux_one"]
    w = Walker(fn, params_of(fn, ["n", "p", "mu", "random_state"]))
    w.lit("generator = check_random_state(random_state)")
    loc, cov, p = w.call("(good_variables, y)", "draw_gmm", 5, {0: "n", 4: "generator"})
    D["c1_loc_over_mu"] = rows_of(loc, 3, 5, "celeux_one means", "mu")
    D["c1_cov"] = covs_of(cov, 3, 5, "celeux_one covariances")
    D["c1_pvals"] = vecQ(p, 3, "celeux_one proportions")
    w.lit("noise = generator.normal(size=(n, p))")
    w.lit("return (np.concatenate([good_variables, noise], axis=1), y)")
    w.end()
    # ---------------- celeux_two
    fn = fns["celeux_two"]
    w = Walker(fn, params_of(fn, ["n", "random_state"]))
    w.lit("generator = check_random_state(random_state)")
    loc, cov, p = w.call("(good_variables, y)", "draw_gmm", 5, {0: "n", 4: "generator"})
    D["c2_loc"] = rows_of(loc, 4, 2, "celeux_two means")
    D["c2_cov"] = covs_of(cov, 4, 2, "celeux_two covariances")
    D["c2_pvals"] = vecQ(p, 4, "celeux_two proportions")
    nmean, ncov = w.call("noise", "generator.multivariate_normal", 2, {}, {"size": "(n,)"})
    D["c2_noise_mean"] = vecQ(nmean, 9, "celeux_two noise mean")
    D["c2_cov_noise"] = matQS(ncov, 9, 9, "celeux_two noise covariance")
    s = w.next("X3_11 = <offsets> + good_variables @ b + noise")
    v = s.value if isinstance(s, ast.Assign) and ast.unparse(s.targets[0]) == "X3_11" else None
    ok = (isinstance(v, ast.BinOp) and isinstance(v.op, ast.Add) and ast.unparse(v.right) == "noise"
          and isinstance(v.left, ast.BinOp) and isinstance(v.left.op, ast.Add)
          and isinstance(v.left.right, ast.BinOp) and isinstance(v.left.right.op, ast.MatMult)
          and ast.unparse(v.left.right.left) == "good_variables")
    if not ok:
        fail("celeux_two: the dependent block is not `<offsets> + good_variables @ <b> + noise`", s)
    D["c2_offsets"] = vecQ(ev(v.left.left, w.env, w.params), 9, "celeux_two offsets")
    D["c2_b"] = matQ(ev(v.left.right.right, w.env, w.params), 2, 9, "celeux_two b")
    tmean, tcov = w.call("X12_14", "generator.multivariate_normal", 2, {}, {"size": "(n,)"})
    D["c2_tail_mean"] = vecQ(tmean, 3, "celeux_two trailing mean")
    D["c2_tail_cov"] = matQ(tcov, 3, 3, "celeux_two trailing covariance")
    w.lit("bad_variables = np.concatenate([X3_11, X12_14], axis=1)")
    w.lit("return (np.concatenate([good_variables, bad_variables], axis=1), y)")
    w.end()
    return D


TEMPLATE = """(* GENERATED by translator/tr_dataconstants.py from gemclus/data/synthetic_data.py - do not edit.
   Literal constants of gstm / celeux_one / celeux_two as the source states them now.  Rationals are exact
   (0.4 = 2 # 5); a pair (a, b) : qs stands for a + b * sqrt 3 (np.sqrt(3) is never evaluated). *)
From Coq Require Import List QArith.
Import ListNotations.
Open Scope Q_scope.
Definition qs : Type := (Q * Q)%type.

(* gstm: n_gaussian = <num> * n // <den> *)
Definition gstm_split_num : nat := {gstm_split_num}%nat.
Definition gstm_split_den : nat := {gstm_split_den}%nat.
(* draw_gmm(n_gaussian, locations[:-1], [covariance] * 3, np.ones(3) / 3, generator); entries of the locations are multiples of alpha *)
Definition gstm_gmm_loc_over_alpha : list (list Q) :=
  {gstm_gmm_loc_over_alpha}.
Definition gstm_gmm_cov : list (list (list Q)) :=
 {gstm_gmm_cov}.
Definition gstm_gmm_pvals : list Q := {gstm_gmm_pvals}.
(* multivariate_student_t(n_student, locations[-1], covariance, df, generator) *)
Definition gstm_student_loc_over_alpha : list Q := {gstm_student_loc_over_alpha}.
Definition gstm_student_scale : list (list Q) :=
  {gstm_student_scale}.
(* y = np.concatenate([y_gaussian, np.ones(n_student) * <label>]) *)
Definition gstm_student_label : nat := {gstm_student_label}%nat.

(* celeux_one: draw_gmm(n, [mu1, mu2, mu3], [cov, cov, cov], np.ones(3) / 3, generator); means are multiples of mu *)
Definition c1_loc_over_mu : list (list Q) :=
  {c1_loc_over_mu}.
Definition c1_cov : list (list (list Q)) :=
 {c1_cov}.
Definition c1_pvals : list Q := {c1_pvals}.

(* celeux_two: draw_gmm(n, [mu1, mu2, mu3, mu4], [cov, cov, cov, cov], pis, generator) *)
Definition c2_loc : list (list Q) :=
  {c2_loc}.
Definition c2_cov : list (list (list Q)) :=
 {c2_cov}.
Definition c2_pvals : list Q := {c2_pvals}.
(* noise = generator.multivariate_normal(<mean>, cov_noise, size=(n,)) *)
Definition c2_noise_mean : list Q := {c2_noise_mean}.
Definition c2_cov_noise : list (list qs) :=
  {c2_cov_noise}.
(* X3_11 = <offsets> + good_variables @ b + noise *)
Definition c2_offsets : list Q := {c2_offsets}.
Definition c2_b : list (list Q) :=
  {c2_b}.
(* X12_14 = generator.multivariate_normal(<mean>, <cov>, size=(n,)) *)
Definition c2_tail_mean : list Q := {c2_tail_mean}.
Definition c2_tail_cov : list (list Q) :=
  {c2_tail_cov}.
"""


def main():
    try:
        D = translate(open(SRC).read())
    except Unknown as e:
        print(f"tr_dataconstants: cannot translate {SRC}: {e}", file=sys.stderr)
        return 3
    except (OSError, SyntaxError) as e:
        print(f"tr_dataconstants: cannot read/parse {SRC}: {e}", file=sys.stderr)
        return 3
    text = TEMPLATE.format(**D)
    old = open(OUT).read() if os.path.exists(OUT) else None
    if old != text:
        with open(OUT, "w") as f:
            f.write(text)
        print(f"tr_dataconstants: wrote {OUT}")
        # build.sh reports BUILD-FAIL only for a MISSING .vo: remove the compiled dependents so that a failing
        # re-compilation against the new constants cannot hide behind a stale object
        for sub, base in (("Proofs", "DataGen"), ("Proofs", "DataGenRules"), ("Props", "C20")):
            for ext in (".vo", ".vos", ".vok", ".glob"):
                stale = os.path.join(ROOT, "coq", sub, base + ext)
                if os.path.exists(stale):
                    os.remove(stale)
    else:
        print("tr_dataconstants: unchanged")
    return 0


if __name__ == "__main__":
    sys.exit(main())
