#!/usr/bin/env python3
"""Self-test of translator/tr_fdiv.py WITHOUT Coq (not run by the build).

`tr_fdiv.py --python` prints the symbolic terms it puts into coq/Gen/FDiv.v as plain Python functions
(IEEE doubles, the same left-fold `bsum`, the same nclip / nsign).  They are evaluated here on random
inputs and compared with the real `evaluate` of KLGEMINI / TVGEMINI / HellingerGEMINI / ChiSquareGEMINI:
score (return_grad=False), score and gradient (return_grad=True), both values of `ovo`, including entries
outside [eps, 1 - eps] (clipped, masked gradient), exact 0 / 1 entries, n = 1, K = 1 and n = K.

    /venv/bin/python translator/test_tr_fdiv.py [cases-per-class] [seed]

Exit status 0 when the maximum relative discrepancy |a - b| / (1 + |b|) is below 1e-9, 1 otherwise.
TV uses np.sign of differences: where a difference is within 1e-12 of 0 the sign is decided by rounding
(numpy sums pairwise, the terms left to right); such cases are counted and skipped, not compared.
"""
import os
import subprocess
import sys

HERE = os.path.dirname(os.path.abspath(__file__))
REPO = os.environ.get("VERIF_REPO", "/repo")
sys.path.insert(0, REPO)

import numpy as np  # noqa: E402


def main():
    cases = int(sys.argv[1]) if len(sys.argv) > 1 else 60
    seed = int(sys.argv[2]) if len(sys.argv) > 2 else 20260930
    r = subprocess.run([sys.executable, os.path.join(HERE, "tr_fdiv.py"), "--python"], capture_output=True, text=True,
                       env=dict(os.environ, VERIF_REPO=REPO))
    if r.returncode != 0:
        print("translator failed closed:", r.stderr.strip())
        return 2
    ns = {}
    exec(compile(r.stdout, "<tr_fdiv --python>", "exec"), ns)
    from gemclus.gemini import KLGEMINI, TVGEMINI, HellingerGEMINI, ChiSquareGEMINI
    classes = [("kl", KLGEMINI), ("tv", TVGEMINI), ("he", HellingerGEMINI), ("chi", ChiSquareGEMINI)]
    rng = np.random.default_rng(seed)
    worst = {}
    counts = {"cases": 0, "entries": 0, "clipped_entries": 0, "tv_near_tie_skipped": 0}
    bad = []

    def rel(a, b):
        return abs(a - b) / (1.0 + abs(b))

    for short, cls in classes:
        for c in range(cases):
            n = int(rng.choice([1, 2, 3, 4, 5, 7, 9, 12]))
            K = int(rng.choice([1, 2, 3, 4, 5]))
            if c % 7 == 0:
                K = n
            eps = float(rng.choice([1e-12, 1e-3, 0.05, 0.2]))
            style = c % 4
            if style == 0:                                  # softmax rows (interior unless eps is large)
                z = rng.normal(size=(n, K)) * rng.choice([0.5, 2.0, 6.0])
                Y = np.exp(z - z.max(1, keepdims=True))
                Y /= Y.sum(1, keepdims=True)
            elif style == 1:                                # one-hot-ish rows: exact 0 / 1 entries
                Y = np.zeros((n, K))
                Y[np.arange(n), rng.integers(0, K, size=n)] = 1.0
                Y = np.where(rng.random((n, K)) < 0.3, rng.random((n, K)), Y)
            elif style == 2:                                # arbitrary values, some outside [0, 1]
                Y = rng.uniform(-0.2, 1.2, size=(n, K))
            else:                                           # entries sitting exactly on / next to the bounds
                Y = rng.uniform(0.0, 1.0, size=(n, K))
                m = rng.random((n, K))
                Y = np.where(m < 0.2, eps, Y)
                Y = np.where((m >= 0.2) & (m < 0.4), 1 - eps, Y)
                Y = np.where((m >= 0.4) & (m < 0.5), np.nextafter(eps, 1.0), Y)
            Yf = lambda i, k, Y=Y: float(Y[i, k])
            for ovo in (False, True):
                suffix = "ovo" if ovo else "ova"
                obj = cls(ovo=ovo, epsilon=eps)
                with np.errstate(all="ignore"):
                    s_ref = float(obj.evaluate(Y.copy(), None, return_grad=False))
                    s2_ref, g_ref = obj.evaluate(Y.copy(), None, return_grad=True)
                if short == "tv":
                    P = np.clip(Y, eps, 1 - eps)
                    pi = P.mean(0)
                    d = (pi[None, :, None] * P[:, None, :] - pi[None, None, :] * P[:, :, None]) if ovo else (P - pi)
                    off = ~np.eye(K, dtype=bool)[None] if ovo else np.ones_like(d, dtype=bool)
                    if np.any((np.abs(d) < 1e-12) & (d != 0) & off):
                        counts["tv_near_tie_skipped"] += 1
                        continue
                s = ns[f"gen_{short}_score_{suffix}"](eps, n, K, Yf)
                s2 = ns[f"gen_{short}_gscore_{suffix}"](eps, n, K, Yf)
                gfun = ns[f"gen_{short}_grad_{suffix}"]
                g = np.array([[gfun(eps, n, K, Yf, i, k) for k in range(K)] for i in range(n)])
                key = f"{short}_{suffix}"
                ds = max(rel(s, s_ref), rel(s2, float(s2_ref)))
                dg = float(np.max(np.abs(g - g_ref) / (1.0 + np.abs(g_ref)))) if g.size else 0.0
                if not (np.all(np.isfinite(g_ref)) and np.isfinite(s_ref)):
                    bad.append((key, "non-finite reference", n, K, eps))
                    continue
                worst[key] = max(worst.get(key, 0.0), ds, dg)
                counts["cases"] += 1
                counts["entries"] += n * K
                clipped = ~((Y > eps) & (Y < 1 - eps))
                counts["clipped_entries"] += int(clipped.sum())
                if np.any(g[clipped] != 0.0):
                    bad.append((key, "non-zero generated gradient on a clipped entry", n, K, eps))
                if max(ds, dg) > 1e-9:
                    bad.append((key, f"discrepancy score {ds:.3e} grad {dg:.3e}", n, K, eps, Y.tolist()))
    for k in sorted(worst):
        print(f"{k:8s} max relative discrepancy {worst[k]:.3e}")
    print("counts:", counts)
    print("MAX DISCREPANCY", f"{max(worst.values()):.3e}")
    for b in bad[:10]:
        print("BAD", b)
    return 1 if bad else 0


if __name__ == "__main__":
    sys.exit(main())
