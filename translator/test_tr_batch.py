#!/usr/bin/env python3
"""Self-test of translator/tr_batch.py WITHOUT Coq (not run by the build; writes nothing into coq/Gen).

Copies the four source files into a temporary tree, rewrites one statement, and runs tr_batch.translate() on it:
  * harmless rewrites must give the SAME rules (the text below the header comment is identical);
  * semantic mutations must give DIFFERENT rules (then Proofs/BatchGen.v no longer compiles);
  * constructs outside the vocabulary must raise Unknown (the translator then exits non-zero without writing).

    /venv/bin/python translator/test_tr_batch.py
"""
import os
import shutil
import sys
import tempfile

HERE = os.path.dirname(os.path.abspath(__file__))
sys.path.insert(0, HERE)
import tr_batch  # noqa: E402

REPO = os.environ.get("VERIF_REPO", "/repo")
BASE, MLCL, SPARSE, CAT = (tr_batch.FILES[k] for k in ("base", "mlcl", "sparse", "cat"))

SAME = [
    (BASE, "            j += batch_size", "            j = batch_size + j"),
    (BASE, "batch_size = len(X) if self.batch_size is None else self.batch_size",
     "batch_size = self.batch_size if self.batch_size is not None else len(X)"),
    (BASE, "        while j < len(X):", "        while len(X) > j:"),
    (BASE, "all_indices[j:j + batch_size]", "all_indices[j:batch_size + j]"),
    (BASE, "affinity_matrix[batch_indices][:, batch_indices]", "affinity_matrix[np.ix_(batch_indices, batch_indices)]"),
    (SPARSE, "validation_gemini += gemini_objective(y_pred, affinity) * len(X_batch)",
     "validation_gemini = len(X_batch) * gemini_objective(y_pred, affinity) + validation_gemini"),
    (SPARSE, "    validation_gemini /= len(X)", "    validation_gemini = validation_gemini / len(X)"),
    # keyword spellings of the matched calls
    [(BASE, "self._batchify(X, affinity, random_state)", "self._batchify(X, affinity_matrix=affinity, random_state=random_state)"),
     (BASE, "y_pred = self._infer(X_batch)", "y_pred = self._infer(X=X_batch)"),
     (BASE, "self._compute_grads(X_batch, y_pred, grads)", "self._compute_grads(X=X_batch, y_pred=y_pred, gradient=grads)"),
     (BASE, "self._update_weights(weights, grads)", "self._update_weights(weights=weights, gradients=grads)"),
     (SPARSE, "clf._batchify(X, affinity, generator)", "clf._batchify(X, affinity_matrix=affinity, random_state=generator)"),
     (SPARSE, "clf._update_weights(weights, grads)", "clf._update_weights(weights=weights, gradients=grads)"),
     (SPARSE, "iteration_gemini_score, iteration_l1 = compute_val_score(clf, X, y, batch_size, gemini_objective)",
      "iteration_gemini_score, iteration_l1 = compute_val_score(clf, X, y, batch_size=batch_size, gemini_objective=gemini_objective)"),
     (SPARSE, "y_pred = clf.predict_proba(X_batch)", "y_pred = clf.predict_proba(X=X_batch)"),
     (MLCL, "func(indices, affinity_matrix, random_state)", "func(indices, affinity_matrix=affinity_matrix, random_state=random_state)")],
    # alpha-renaming of locals; annotations
    [(BASE, "all_indices", "shuffled_order", "all"), (BASE, "batch_indices", "selected", "all"), (BASE, "X_batch", "data_chunk", "all"),
     (BASE, "affinity_batch", "affinity_chunk", "all"), (BASE, "y_pred", "probabilities", "all"),
     (BASE, "affinity = gemini.compute_affinity(X, y)", "full_affinity = gemini.compute_affinity(X, y)"),
     (BASE, "self._batchify(X, affinity, random_state)", "self._batchify(X, full_affinity, random_state)"),
     (BASE, "grads = self._compute_grads(data_chunk, probabilities, grads)\n                self._update_weights(weights, grads)",
      "parameter_grads = self._compute_grads(data_chunk, probabilities, grads)\n                self._update_weights(weights, parameter_grads)")],
    [(SPARSE, "def compute_val_score(clf, X, y, batch_size, gemini_objective):", "def compute_val_score(clf, X: np.ndarray, y, batch_size: int, gemini_objective):"),
     (SPARSE, "validation_gemini", "total", "all"), (MLCL, "disguise_batch", "wrapper", "all"), (MLCL, "subset", "true_indices", "all")],
    (SPARSE, "    if clf.batch_size is not None:\n        batch_size = clf.batch_size\n    else:\n        batch_size = len(X)",
     "    if clf.batch_size is None:\n        batch_size = len(X)\n    else:\n        batch_size = clf.batch_size"),
]
DIFFERENT = [
    (BASE, "            j += batch_size", "            j += batch_size - 1"),
    (BASE, "all_indices[j:j + batch_size]", "all_indices[j:j + batch_size - 1]"),
    (BASE, "all_indices[j:j + batch_size]", "all_indices[j + 1:j + batch_size]"),
    (BASE, "        while j < len(X):", "        while j <= len(X):"),
    (BASE, "        j = 0\n", "        j = 1\n"),
    (BASE, "random_state.permutation(len(X))", "random_state.permutation(len(X) - 1)"),
    (BASE, "batch_size = len(X) if self.batch_size is None else self.batch_size",
     "batch_size = len(X) - 1 if self.batch_size is None else self.batch_size"),
    (BASE, "X_batch = X[batch_indices]", "X_batch = X[np.sort(batch_indices)]"),
    (BASE, "affinity_matrix[batch_indices][:, batch_indices]", "affinity_matrix[batch_indices][:, np.sort(batch_indices)]"),
    (BASE, "affinity_matrix[batch_indices][:, batch_indices]", "affinity_matrix[batch_indices[::-1]][:, batch_indices]"),
    (BASE, "for i in range(self.max_iter):", "for i in range(self.max_iter - 1):"),
    # the generator exhausted before the first step of the epoch (the mlcl record of the true indices goes stale)
    (BASE, "            for X_batch, affinity_batch in self._batchify(X, affinity, random_state):",
     "            batches = list(self._batchify(X, affinity, random_state))\n            for X_batch, affinity_batch in batches:"),
    (BASE, "self.n_iter_ = self.max_iter", "self.n_iter_ = self.max_iter - 1"),
    (BASE, "y_pred = self._infer(X_batch)", "y_pred = self._infer(X)"),
    (BASE, "y_pred = self._infer(X_batch)", "y_pred = self._infer(X=X)"),
    (BASE, "self._compute_grads(X_batch, y_pred, grads)", "self._compute_grads(y_pred=y_pred, X=X, gradient=grads)"),
    (BASE, "gemini(y_pred, affinity_batch, return_grad=True)", "gemini(y_pred, affinity, return_grad=True)"),
    (BASE, "self._compute_grads(X_batch, y_pred, grads)", "self._compute_grads(X, y_pred, grads)"),
    (MLCL, "yield X[subset], affinity_batch", "yield X[np.sort(subset)], affinity_batch"),
    (MLCL, "disguise_batch.indices = subset.tolist()", "disguise_batch.indices = np.sort(subset).tolist()"),
    (MLCL, "indices = np.arange(len(X))", "indices = np.arange(len(X) + 1)"),
    (SPARSE, "        X_batch = X[j:j + batch_size]", "        X_batch = X[j:j + batch_size + 1]"),
    (SPARSE, "y[j:j+batch_size][:,j:j+batch_size]", "y[j:j+batch_size][:,j+1:j+batch_size]"),
    (SPARSE, "gemini_objective(y_pred, affinity) * len(X_batch)", "gemini_objective(y_pred, affinity) * len(X)"),
    (SPARSE, "gemini_objective(y_pred, affinity) * len(X_batch)", "gemini_objective(y_pred, affinity)"),
    (SPARSE, "    validation_gemini /= len(X)", "    validation_gemini /= len(X) - 1"),
    (SPARSE, "        j += batch_size\n    validation_gemini", "        j += batch_size + 1\n    validation_gemini"),
    (SPARSE, "                y_pred = clf._infer(X_batch)", "                y_pred = clf._infer(X)"),
    (SPARSE, "    if clf.batch_size is not None:\n        batch_size = clf.batch_size\n    else:\n        batch_size = len(X)",
     "    if clf.batch_size is not None:\n        batch_size = clf.batch_size\n    else:\n        batch_size = len(X) - 1"),
]
FAIL_CLOSED = [
    (BASE, "self._batchify(X, affinity, random_state)", "self._batchify(X, random_state=random_state)"),
    (BASE, "self._batchify(X, affinity, random_state)", "self._batchify(X, affinity_matrix=affinity, rng=random_state)"),
    # the None branch would use the attribute that is None there
    (BASE, "batch_size = len(X) if self.batch_size is None else self.batch_size",
     "batch_size = len(X) if self.batch_size is not None else self.batch_size"),
    (BASE, "        while j < len(X):", "        n_samples = len(X)\n        while j < n_samples:"),
    (BASE, "        while j < len(X):", "        while j != len(X):"),
    (BASE, "            yield X_batch, affinity_batch", "            yield affinity_batch, X_batch"),
    (BASE, "all_indices[j:j + batch_size]", "all_indices[j:j + batch_size:2]"),
    (BASE, "all_indices[j:j + batch_size]", "all_indices[j:j * batch_size]"),
    (BASE, "X_batch = X[batch_indices]", "X_batch = X[np.unique(batch_indices)]"),
    (BASE, "                self._update_weights(weights, grads)", "                self._update_weights(weights, grads)\n                break"),
    (BASE, "self._batchify(X, affinity, random_state)", "self._batchify(X, None, random_state)"),
    (CAT, "        yield X, affinity_matrix", "        yield X[::-1], affinity_matrix"),
    (MLCL, "func(indices, affinity_matrix, random_state)", "func(indices, None, random_state)"),
    (SPARSE, "        y_pred = clf.predict_proba(X_batch)", "        y_pred = clf.predict_proba(X)"),
    (SPARSE, "gemini_objective(y_pred, affinity) * len(X_batch)", "gemini_objective(y_pred, affinity) ** 2 * len(X_batch)"),
]


def rules_of(text):
    return text[text.index("*)") + 2:]


def run(edit):
    tmp = tempfile.mkdtemp(prefix="tr_batch_test_")
    try:
        for rel in tr_batch.FILES.values():
            os.makedirs(os.path.dirname(os.path.join(tmp, rel)), exist_ok=True)
            shutil.copy(os.path.join(REPO, rel), os.path.join(tmp, rel))
        for rel, old, new, *every in ([] if edit is None else edit if isinstance(edit, list) else [edit]):
            s = open(os.path.join(tmp, rel)).read()
            assert s.count(old) >= 1, f"pattern not in {rel}: {old!r}"
            open(os.path.join(tmp, rel), "w").write(s.replace(old, new) if every else s.replace(old, new, 1))
        tr_batch.REPO = tmp
        return rules_of(tr_batch.translate())
    finally:
        shutil.rmtree(tmp)


def main():
    base = run(None)
    bad = 0
    for e in SAME:
        if run(e) != base:
            print("FAIL harmless rewrite changed the rules:", str(e)[:120])
            bad += 1
    for e in DIFFERENT:
        try:
            if run(e) == base:
                print("FAIL mutation gave the same rules:", e[2][:70].replace("\n", "\\n"))
                bad += 1
        except tr_batch.Unknown as u:
            print("FAIL mutation failed closed instead of changing a rule:", e[2][:70].replace("\n", "\\n"), "->", u)
            bad += 1
    for e in FAIL_CLOSED:
        try:
            run(e)
            print("FAIL construct outside the vocabulary was translated:", e[2][:70].replace("\n", "\\n"))
            bad += 1
        except tr_batch.Unknown:
            pass
    print(f"test_tr_batch: {len(SAME)} harmless, {len(DIFFERENT)} mutations, {len(FAIL_CLOSED)} fail-closed; {bad} failures")
    return 1 if bad else 0


if __name__ == "__main__":
    sys.exit(main())
