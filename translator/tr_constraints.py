#!/usr/bin/env python3
"""C16 — fail-closed translator: every `_parameter_constraints` dict and every `@constraint_params({...})`
literal of /repo  ->  coq/Gen/Constraints.v (constraint syntax of coq/Model/Validation.v).

Emitted:
  classes     class table of every class of the parsed files: name |-> (bases, special methods among
              __call__/__len__/__array__ defined in the class body)
  estimators  per class that declares `_parameter_constraints`: for every *constructor parameter* (in
              signature order) the declared constraint list, with `**Parent._parameter_constraints`
              resolved, or None when the dict has no entry for it (scikit-learn then skips validation)
  functions   per decorated function / constructor: for every signature parameter (self, *args, **kw
              excluded) the constraint list of the decorator literal, or None
  unused_estimator_keys / dead_decorator_keys   dict keys that name no parameter (never looked at)
String-option sets are evaluated: set/list/+ over string literals, AVAILABLE_GEMINIS (read from
gemini/_utils.py) and the two scikit-learn registries PAIRWISE_KERNEL_FUNCTIONS / PAIRWISE_DISTANCE_FUNCTIONS
(their keys in the installed scikit-learn, only when the module imports them from sklearn.metrics.pairwise).
Any construct outside this fragment aborts with a non-zero status and nothing is written."""
import ast, os, sys
from fractions import Fraction

REPO = os.environ.get("VERIF_REPO", "/repo")
ROOT = os.path.dirname(os.path.dirname(os.path.abspath(__file__)))
OUT = os.path.join(ROOT, "coq", "Gen", "Constraints.v")
FILES = ["gemclus/_base_gemini.py", "gemclus/gemini/_base_loss.py", "gemclus/gemini/_fdivergences.py",
         "gemclus/gemini/_geomdistances.py", "gemclus/linear/_linear_geminis.py", "gemclus/mlp/_mlp_geminis.py",
         "gemclus/sparse/_linear_sparse.py", "gemclus/sparse/_mlp_sparse.py",
         "gemclus/nonparametric/_categorical_models.py", "gemclus/tree/douglas.py", "gemclus/tree/kauri.py",
         "gemclus/data/synthetic_data.py", "gemclus/mlcl.py"]
UTILS = "gemclus/gemini/_utils.py"
SKLEARN_REGISTRIES = {"PAIRWISE_KERNEL_FUNCTIONS", "PAIRWISE_DISTANCE_FUNCTIONS"}
BUILTIN_TYPES = {"bool": "bool", "dict": "dict", "list": "list", "tuple": "tuple", "str": "str"}
SPECIAL = ("__call__", "__len__", "__array__")


class Unknown(Exception):
    pass


def die(where, node, why):
    line = getattr(node, "lineno", "?")
    raise Unknown(f"{where}:{line}: {why}: {ast.dump(node)[:200] if isinstance(node, ast.AST) else node}")


def q(s):
    if not isinstance(s, str) or any(ord(ch) < 32 or ord(ch) > 126 for ch in s):
        raise Unknown(f"string not printable ASCII: {s!r}")
    return '"' + s.replace('"', '""') + '"'


class Module:
    def __init__(self, rel):
        self.rel = rel
        self.tree = ast.parse(open(os.path.join(REPO, rel)).read(), rel)
        self.sk_imports = set()       # registries imported from sklearn.metrics.pairwise
        self.names_from = {}          # imported name -> module string
        for st in self.tree.body:
            if isinstance(st, ast.ImportFrom):
                for a in st.names:
                    self.names_from[a.asname or a.name] = (st.module or "") + ("." * 0)
                    if st.module == "sklearn.metrics.pairwise" and a.name in SKLEARN_REGISTRIES and a.asname in (None, a.name):
                        self.sk_imports.add(a.name)


def available_geminis():
    tree = ast.parse(open(os.path.join(REPO, UTILS)).read(), UTILS)
    for st in tree.body:
        if isinstance(st, ast.Assign) and len(st.targets) == 1 and isinstance(st.targets[0], ast.Name) \
                and st.targets[0].id == "AVAILABLE_GEMINIS":
            if not isinstance(st.value, ast.List) or not all(isinstance(e, ast.Constant) and isinstance(e.value, str) for e in st.value.elts):
                die(UTILS, st, "AVAILABLE_GEMINIS is not a list of string literals")
            return [e.value for e in st.value.elts]
    raise Unknown(f"{UTILS}: AVAILABLE_GEMINIS not found")


def registry_keys(name):
    from sklearn.metrics import pairwise
    return list(getattr(pairwise, name).keys())


def eval_strs(mod, where, node):
    """A list of strings from the fragment: literals, set()/list() of them, +, known registries."""
    if isinstance(node, (ast.List, ast.Set, ast.Tuple)):
        out = []
        for e in node.elts:
            if not (isinstance(e, ast.Constant) and isinstance(e.value, str)):
                die(where, e, "option is not a string literal")
            out.append(e.value)
        return out
    if isinstance(node, ast.Call) and isinstance(node.func, ast.Name) and node.func.id in ("set", "list") \
            and len(node.args) == 1 and not node.keywords:
        return eval_strs(mod, where, node.args[0])
    if isinstance(node, ast.BinOp) and isinstance(node.op, ast.Add):
        return eval_strs(mod, where, node.left) + eval_strs(mod, where, node.right)
    if isinstance(node, ast.Name):
        if node.id in SKLEARN_REGISTRIES:
            if node.id not in mod.sk_imports:
                die(where, node, "registry name not imported from sklearn.metrics.pairwise")
            return registry_keys(node.id)
        if node.id == "AVAILABLE_GEMINIS":
            if "gemini" not in mod.names_from.get("AVAILABLE_GEMINIS", ""):
                die(where, node, "AVAILABLE_GEMINIS not imported from the gemini package")
            return available_geminis()
    die(where, node, "unknown string-set expression")


def eval_int(where, node):
    if isinstance(node, ast.Constant) and isinstance(node.value, int) and not isinstance(node.value, bool):
        return node.value
    if isinstance(node, ast.UnaryOp) and isinstance(node.op, ast.USub):
        return -eval_int(where, node.operand)
    if isinstance(node, ast.BinOp) and isinstance(node.op, (ast.Add, ast.Sub, ast.Mult, ast.Pow)):
        a, b = eval_int(where, node.left), eval_int(where, node.right)
        if isinstance(node.op, ast.Pow):
            if not (0 <= b <= 64 and abs(a) <= 16):
                die(where, node, "power out of range")
            return a ** b
        return a + b if isinstance(node.op, ast.Add) else a - b if isinstance(node.op, ast.Sub) else a * b
    die(where, node, "not an integer expression")


def is_np_inf(node):
    return isinstance(node, ast.Attribute) and node.attr == "inf" and isinstance(node.value, ast.Name) and node.value.id in ("np", "numpy")


def bound(where, node):
    """option ext"""
    if isinstance(node, ast.Constant) and node.value is None:
        return "None"
    if is_np_inf(node):
        return "(Some PInf)"
    if isinstance(node, ast.UnaryOp) and isinstance(node.op, ast.USub) and is_np_inf(node.operand):
        return "(Some NInf)"
    neg = False
    n = node
    if isinstance(n, ast.UnaryOp) and isinstance(n.op, ast.USub) and isinstance(n.operand, ast.Constant) and isinstance(n.operand.value, float):
        neg, n = True, n.operand
    if isinstance(n, ast.Constant) and isinstance(n.value, float):
        x = n.value
        if x != x or x in (float("inf"), float("-inf")):
            die(where, node, "non-finite float bound")
        f = Fraction(-x if neg else x)
    else:
        f = Fraction(eval_int(where, node))
    num = f"({f.numerator})" if f.numerator < 0 else f"{f.numerator}"
    return f"(Some (Fin (Qmake {num} {f.denominator})))"


def constraint(mod, where, node, classes, decorator):
    if isinstance(node, ast.Constant):
        v = node.value
        if v is None:
            return "NoneC"
        if v == "random_state":
            return "RandomStateC"
        if v == "array-like":
            return "ArrayLikeC"
        if v == "boolean" or (decorator and v == "bool"):     # check_constraint also maps the string "bool"
            return "BoolC"
        die(where, node, "unknown constraint literal")
    if isinstance(node, ast.Name):
        if node.id == "callable":
            return "CallableC"
        if node.id in BUILTIN_TYPES:
            return f"(InstanceOf {q(BUILTIN_TYPES[node.id])})"
        if node.id in classes:
            return f"(InstanceOf {q(node.id)})"
        die(where, node, "type name that is neither a supported builtin nor a class of the library")
    if isinstance(node, ast.Attribute) and node.attr == "ndarray" and isinstance(node.value, ast.Name) and node.value.id in ("np", "numpy"):
        return '(InstanceOf "ndarray")'
    if isinstance(node, ast.Call) and isinstance(node.func, ast.Name):
        if node.func.id == "Interval":
            if len(node.args) != 3 or [k.arg for k in node.keywords] != ["closed"]:
                die(where, node, "Interval call shape")
            ty = node.args[0]
            if not (isinstance(ty, ast.Name) and ty.id in ("Integral", "Real", "RealNotInt")):
                die(where, node, "Interval type")
            cl = node.keywords[0].value
            if not (isinstance(cl, ast.Constant) and cl.value in ("left", "right", "both", "neither")):
                die(where, node, "Interval closed")
            tyc = {"Integral": "TIntegral", "Real": "TReal", "RealNotInt": "TRealNotInt"}[ty.id]
            clc = {"left": "CLeft", "right": "CRight", "both": "CBoth", "neither": "CNeither"}[cl.value]
            return f"(Interval {tyc} {bound(where, node.args[1])} {bound(where, node.args[2])} {clc})"
        if node.func.id == "StrOptions":
            if len(node.args) != 1 or node.keywords:
                die(where, node, "StrOptions call shape")
            opts = sorted(set(eval_strs(mod, where, node.args[0])))
            return "(StrOptions [" + "; ".join(q(o) for o in opts) + "])"
    die(where, node, "unknown constraint expression")


def constraint_list(mod, where, node, classes, decorator):
    if not isinstance(node, ast.List):
        die(where, node, "constraints of a parameter are not a list literal")
    return [constraint(mod, where, e, classes, decorator) for e in node.elts]


def signature(where, fn):
    a = fn.args
    if a.posonlyargs:
        die(where, fn, "positional-only parameters")
    names = [x.arg for x in a.args + a.kwonlyargs]
    return [n for n in names if n != "self"]


def base_name(where, b):
    if isinstance(b, ast.Name):
        return b.id
    if isinstance(b, ast.Attribute):
        return b.attr
    die(where, b, "base class expression")


def main():
    mods = [Module(f) for f in FILES]
    # pass 1: class table
    classes, cdefs = {}, {}
    for m in mods:
        for st in m.tree.body:
            if isinstance(st, ast.ClassDef):
                if st.name in classes:
                    die(m.rel, st, "duplicate class name")
                if st.keywords:
                    die(m.rel, st, "class keywords")
                special = [f.name for f in st.body if isinstance(f, ast.FunctionDef) and f.name in SPECIAL]
                classes[st.name] = ([base_name(m.rel, b) for b in st.bases], special)
                cdefs[st.name] = (m, st)

    def find_init(name):
        seen = 0
        while name in cdefs and seen < 10:
            m, st = cdefs[name]
            for f in st.body:
                if isinstance(f, ast.FunctionDef) and f.name == "__init__":
                    return m, f
            bs = [b for b in classes[name][0] if b in cdefs]
            if len(bs) != 1:
                break
            name, seen = bs[0], seen + 1
        raise Unknown(f"no __init__ found for {name}")

    # pass 2: estimator constraint dicts (resolved in dependency order)
    resolved = {}

    def resolve(name, stack=()):
        if name in resolved:
            return resolved[name]
        if name in stack or name not in cdefs:
            raise Unknown(f"cannot resolve _parameter_constraints of {name}")
        m, st = cdefs[name]
        decl = None
        for s in st.body:
            tgt = s.target if isinstance(s, ast.AnnAssign) else (s.targets[0] if isinstance(s, ast.Assign) and len(s.targets) == 1 else None)
            if isinstance(tgt, ast.Name) and tgt.id == "_parameter_constraints":
                if decl is not None:
                    die(m.rel, s, "two _parameter_constraints in one class")
                decl = s.value
        if decl is None:
            raise Unknown(f"{name} declares no _parameter_constraints")
        if not isinstance(decl, ast.Dict):
            die(m.rel, decl, "_parameter_constraints is not a dict literal")
        out = {}
        for k, v in zip(decl.keys, decl.values):
            where = f"{m.rel}:{name}"
            if k is None:
                if not (isinstance(v, ast.Attribute) and v.attr == "_parameter_constraints" and isinstance(v.value, ast.Name)):
                    die(where, v, "dict unpacking of something else than Parent._parameter_constraints")
                if v.value.id not in classes[name][0] and v.value.id not in [a for b in classes[name][0] for a in ancestors(b)]:
                    die(where, v, "unpacked class is not an ancestor")
                out.update(resolve(v.value.id, stack + (name,)))
            else:
                if not (isinstance(k, ast.Constant) and isinstance(k.value, str)):
                    die(where, k, "constraint key is not a string literal")
                out[k.value] = constraint_list(m, where + "." + k.value, v, classes, False)
        resolved[name] = out
        return out

    def ancestors(c, depth=0):
        if depth > 8 or c not in classes:
            return [c]
        return [c] + [a for b in classes[c][0] for a in ancestors(b, depth + 1)]

    estimators, unused = [], []
    for name, (m, st) in cdefs.items():
        has = any((isinstance(s, ast.AnnAssign) and isinstance(s.target, ast.Name) and s.target.id == "_parameter_constraints")
                  or (isinstance(s, ast.Assign) and any(isinstance(t, ast.Name) and t.id == "_parameter_constraints" for t in s.targets))
                  for s in st.body)
        if not has:
            continue
        cons = resolve(name)
        im, init = find_init(name)
        params = signature(im.rel, init)
        estimators.append((name, [(p, cons.get(p)) for p in params]))
        unused += [(name, k) for k in cons if k not in params]

    # pass 3: decorated functions
    functions, dead = [], []

    def visit(m, body, owner):
        for st in body:
            if isinstance(st, ast.ClassDef):
                visit(m, st.body, st.name)
            elif isinstance(st, (ast.FunctionDef, ast.AsyncFunctionDef)):
                decs = [d for d in st.decorator_list
                        if isinstance(d, ast.Call) and isinstance(d.func, ast.Name) and d.func.id == "constraint_params"]
                if not decs:
                    continue
                where = f"{m.rel}:{owner + '.' if owner else ''}{st.name}"
                if len(decs) != 1 or len(decs[0].args) != 1 or decs[0].keywords or not isinstance(decs[0].args[0], ast.Dict):
                    die(where, st, "constraint_params call shape")
                if owner and st.name != "__init__":
                    die(where, st, "decorated method other than __init__")
                d = decs[0].args[0]
                cons = {}
                for k, v in zip(d.keys, d.values):
                    if not (isinstance(k, ast.Constant) and isinstance(k.value, str)):
                        die(where, k if k is not None else d, "constraint key is not a string literal")
                    if k.value in cons:
                        die(where, k, "duplicate key")
                    cons[k.value] = constraint_list(m, where + "." + k.value, v, classes, True)
                params = signature(where, st)
                fname = owner if owner else st.name
                functions.append((fname, [(p, cons.get(p)) for p in params]))
                dead.extend((fname, k) for k in cons if k not in params)

    for m in mods:
        visit(m, m.tree.body, None)

    def opt_cs(c):
        return "None" if c is None else "(Some [" + "; ".join(c) + "])"

    def table(name, rows):
        s = f"Definition {name} : list (string * ptable) := [\n"
        s += ";\n".join("  (" + q(n) + ", [\n" + ";\n".join(f"     ({q(p)}, {opt_cs(c)})" for p, c in ps) + "])" for n, ps in rows)
        return s + "].\n"

    def pairs(name, rows):
        return f"Definition {name} : list (string * string) := [" + "; ".join(f"({q(a)}, {q(b)})" for a, b in rows) + "].\n"

    text = "(* GENERATED by translator/tr_constraints.py from the current sources of the repository - do not edit.\n"
    text += "   Sources: " + " ".join(FILES + [UTILS]) + " *)\n"
    text += "From Coq Require Import List String ZArith QArith.\nFrom GV Require Import Model.Validation.\nImport ListNotations.\nOpen Scope string_scope.\nOpen Scope list_scope.\n\n"
    text += "Definition classes : class_table := [\n" + ";\n".join(
        f"  ({q(n)}, ([" + "; ".join(q(b) for b in bs) + "], [" + "; ".join(q(s) for s in sp) + "]))" for n, (bs, sp) in classes.items()) + "].\n\n"
    text += table("estimators", estimators) + "\n" + table("functions", functions) + "\n"
    text += pairs("unused_estimator_keys", unused) + pairs("dead_decorator_keys", dead)
    text += "(* EXTRACT: classes estimators functions unused_estimator_keys dead_decorator_keys *)\n"
    os.makedirs(os.path.dirname(OUT), exist_ok=True)
    if not os.path.exists(OUT) or open(OUT).read() != text:
        open(OUT, "w").write(text)
    print(f"tr_constraints: {len(estimators)} estimator tables, {len(functions)} function tables, {len(classes)} classes")


if __name__ == "__main__":
    try:
        main()
    except Unknown as e:
        print("tr_constraints: UNKNOWN CONSTRUCT, nothing written:", e, file=sys.stderr)
        sys.exit(1)
    except (OSError, SyntaxError) as e:
        print("tr_constraints: cannot read sources, nothing written:", e, file=sys.stderr)
        sys.exit(1)
