#!/usr/bin/env python3
"""Fail-closed skeleton+holes translator of the batching code  ->  coq/Gen/BatchRules.v   (property C10)

Sources (read from $VERIF_REPO, default /repo):
  gemclus/_base_gemini.py                     DiscriminativeModel._batchify, the training loop and the
                                              `self.n_iter_ = ...` statement of DiscriminativeModel.fit
  gemclus/nonparametric/_categorical_models.py  CategoricalModel._batchify  (literal: `yield X, affinity_matrix`)
  gemclus/mlcl.py                             add_mlcl_constraint.decorate_batch
  gemclus/sparse/_base_sparse.py              compute_val_score (whole function), and in _run_path the
                                              batch_size default and the per-batch training loop

Each function is matched statement by statement against the control skeleton that coq/Model/Batch.v assumes
(docstrings, annotations and `if <obj>.verbose: print(..)` are ignored; the names of LOCAL variables are read
from the statements that bind them, so alpha-renaming gives the same rules; parameter, attribute, method and
function names are literal).  Only the HOLES are translated:
  * integer index expressions (slice bounds, the start value and the update of j, the argument of
    permutation()/arange()/range(), the value of n_iter_): linear integer expressions over the names in scope,
    printed in a canonical linear normal form over Z (so `j + batch_size`, `batch_size + j` and
    `j + (batch_size)` give the same text, `j + batch_size - 1` does not);
  * loop guards: one comparison < <= > >= of two such expressions (`a > b` is printed as `b < a`);
  * the None default of batch_size (conditional expression or if/else statement, `is None` or `is not None`);
  * fancy-index expressions: the index array itself, np.sort(e), np.flip(e), e[::-1];
  * which array a call of the training step reads (X_batch or X, affinity_batch or affinity); keyword spellings of the
    matched calls (`self._infer(X=X_batch)`, `self._batchify(X, affinity_matrix=affinity, random_state=random_state)`, ...)
    are first rewritten to the positional form using the callee's own parameter names;
  * whether the epoch loop of fit advances the generator lazily (`for .. in self._batchify(..)`) or exhausts it first
    (`batches = list(self._batchify(..)); for .. in batches`): the mlcl decoration records the true indices of a
    batch when it is yielded;
  * the float arithmetic of the validation score (+ - * / over the names in scope, len(..) as nofnat; the two
    operands of + and * are printed in a fixed order: IEEE + and * commute exactly).
Anything else - an unexpected statement, an extra statement, an unknown expression node, a changed call -
raises Unknown: the translator exits non-zero WITHOUT writing, tools/build.sh prints TRANSLATOR-FAIL, the previous
Gen file stays in place and check C10 relies on the correspondence (L2) and the oracle (L3) alone.

When the text of Gen/BatchRules.v changes, the compiled objects of Proofs/BatchGen.v and Props/C10.v are
removed so that a failing re-compilation cannot hide behind a stale object.
"""
import ast
import hashlib
import os
import sys

REPO = os.environ.get("VERIF_REPO", "/repo")
ROOT = os.path.dirname(os.path.dirname(os.path.abspath(__file__)))
OUT = os.path.join(ROOT, "coq", "Gen", "BatchRules.v")
DEPENDENTS = ["Proofs/BatchGen", "Props/C10"]
FILES = {
    "base": "gemclus/_base_gemini.py",
    "cat": "gemclus/nonparametric/_categorical_models.py",
    "mlcl": "gemclus/mlcl.py",
    "sparse": "gemclus/sparse/_base_sparse.py",
}


class Unknown(Exception):
    pass


def fail(msg, node=None):
    where = f" (line {getattr(node, 'lineno', '?')})" if node is not None else ""
    raise Unknown(msg + where)


def src(node):
    return ast.unparse(node)


# ------------------------------------------------------------------ holes: integer expressions (Z)
def lin(e, env):
    """linear normal form of an integer expression: ({coq_var: coef}, const).  env: unparse-text -> coq var"""
    key = src(e)
    if key in env:
        return {env[key]: 1}, 0
    if isinstance(e, ast.Constant):
        if isinstance(e.value, bool) or not isinstance(e.value, int):
            fail(f"`{key}` is not an integer literal", e)
        if abs(e.value) > 10 ** 6:
            fail("integer literal out of the supported range", e)
        return {}, e.value
    if isinstance(e, ast.UnaryOp) and isinstance(e.op, (ast.USub, ast.UAdd)):
        c, k = lin(e.operand, env)
        s = -1 if isinstance(e.op, ast.USub) else 1
        return {v: s * a for v, a in c.items()}, s * k
    if isinstance(e, ast.BinOp) and isinstance(e.op, (ast.Add, ast.Sub)):
        c1, k1 = lin(e.left, env)
        c2, k2 = lin(e.right, env)
        s = 1 if isinstance(e.op, ast.Add) else -1
        out = dict(c1)
        for v, a in c2.items():
            out[v] = out.get(v, 0) + s * a
        return out, k1 + s * k2
    if isinstance(e, ast.BinOp) and isinstance(e.op, ast.Mult):
        c1, k1 = lin(e.left, env)
        c2, k2 = lin(e.right, env)
        if c1 and c2:
            fail(f"`{key}` is not linear", e)
        if not c1:
            return {v: k1 * a for v, a in c2.items()}, k1 * k2
        return {v: k2 * a for v, a in c1.items()}, k1 * k2
    fail(f"unknown integer expression node {type(e).__name__}: `{key}`", e)


def zexpr(e, env):
    """canonical Coq text (in Z) of a linear integer expression; variables in the order of env"""
    coefs, const = lin(e, env)
    order = list(dict.fromkeys(env.values()))
    terms = []
    for v in order:
        a = coefs.get(v, 0)
        if a:
            terms.append((a, v))
    if const:
        terms.append((const, None))
    if not terms:
        return "0%Z"
    out = ""
    for k, (a, v) in enumerate(terms):
        mag = abs(a)
        body = str(mag) if v is None else (v if mag == 1 else f"{mag} * {v}")
        if k == 0:
            out = body if a > 0 else f"- {body}"
        else:
            out += (" + " if a > 0 else " - ") + body
    if len(terms) == 1 and terms[0][0] > 0 and terms[0][1] is not None:
        return out                      # a single variable
    return f"({out})%Z"


def ztest(e, env):
    if not (isinstance(e, ast.Compare) and len(e.ops) == 1):
        fail(f"loop guard `{src(e)}` is not a single comparison", e)
    a, b = zexpr(e.left, env), zexpr(e.comparators[0], env)
    op = type(e.ops[0])
    if op is ast.Lt:
        return f"Z.ltb ({a}) ({b})"
    if op is ast.Gt:
        return f"Z.ltb ({b}) ({a})"
    if op is ast.LtE:
        return f"Z.leb ({a}) ({b})"
    if op is ast.GtE:
        return f"Z.leb ({b}) ({a})"
    fail(f"comparison operator of `{src(e)}` is not one of < <= > >=", e)


def none_default(test, then_e, else_e, attr, env, node):
    """<then_e> if <attr> is None else <else_e>  (or `is not None` with the branches exchanged)
    -> Coq match on the optional attribute; inside the Some branch the attribute is the bound value"""
    if not (isinstance(test, ast.Compare) and len(test.ops) == 1 and src(test.left) == attr
            and isinstance(test.comparators[0], ast.Constant) and test.comparators[0].value is None
            and isinstance(test.ops[0], (ast.Is, ast.IsNot))):
        fail(f"the default test is not `{attr} is None` / `{attr} is not None`: `{src(test)}`", node)
    if isinstance(test.ops[0], ast.IsNot):
        then_e, else_e = else_e, then_e
    none_txt = zexpr(then_e, env)                                   # the attribute is None here: not in env
    some_txt = zexpr(else_e, dict(env, **{attr: "given"}))
    return f"match opt with None => {none_txt} | Some given => {some_txt} end"


# ------------------------------------------------------------------ holes: index arrays
def idx(e, env):
    key = src(e)
    if key in env:
        return env[key]
    if isinstance(e, ast.Call) and src(e.func) == "np.sort" and len(e.args) == 1 and not e.keywords:
        return f"isort ({idx(e.args[0], env)})"
    if isinstance(e, ast.Call) and src(e.func) == "np.flip" and len(e.args) == 1 and not e.keywords:
        return f"rev ({idx(e.args[0], env)})"
    if isinstance(e, ast.Subscript) and src(e.slice) == "::-1":
        return f"rev ({idx(e.value, env)})"
    fail(f"unknown index-array expression `{key}`", e)


def fancy_rows(e, base, env):
    """base[<idx>] -> idx"""
    if not (isinstance(e, ast.Subscript) and src(e.value) == base):
        fail(f"expected `{base}[<index array>]`, got `{src(e)}`", e)
    if isinstance(e.slice, (ast.Slice, ast.Tuple)):
        fail(f"`{src(e)}` is not a selection of rows by an index array", e)
    return idx(e.slice, env)


def fancy_block(e, base, env):
    """base[<r>][:, <c>]  or  base[np.ix_(<r>, <c>)]  -> (r, c)"""
    if isinstance(e, ast.Subscript) and src(e.value) == base and isinstance(e.slice, ast.Call) \
            and src(e.slice.func) == "np.ix_" and len(e.slice.args) == 2 and not e.slice.keywords:
        return idx(e.slice.args[0], env), idx(e.slice.args[1], env)
    if not (isinstance(e, ast.Subscript) and isinstance(e.slice, ast.Tuple) and len(e.slice.elts) == 2
            and src(e.slice.elts[0]) == ":"):
        fail(f"expected `{base}[<rows>][:, <columns>]`, got `{src(e)}`", e)
    return fancy_rows(e.value, base, env), idx(e.slice.elts[1], env)


def int_slice(sl, env, node):
    """<lo>:<hi>  -> (lo, hi)"""
    if not isinstance(sl, ast.Slice) or sl.step is not None or sl.upper is None:
        fail(f"`{src(node)}`: expected a slice <lo>:<hi> without step", node)
    lo = "0%Z" if sl.lower is None else zexpr(sl.lower, env)
    return lo, zexpr(sl.upper, env)


def slice_rows(e, base, env):
    if not (isinstance(e, ast.Subscript) and src(e.value) == base):
        fail(f"expected `{base}[<lo>:<hi>]`, got `{src(e)}`", e)
    return int_slice(e.slice, env, e)


def slice_block(e, base, env):
    """base[<lo>:<hi>][:, <lo>:<hi>]"""
    if not (isinstance(e, ast.Subscript) and isinstance(e.slice, ast.Tuple) and len(e.slice.elts) == 2
            and src(e.slice.elts[0]) == ":"):
        fail(f"expected `{base}[<lo>:<hi>][:, <lo>:<hi>]`, got `{src(e)}`", e)
    return slice_rows(e.value, base, env), int_slice(e.slice.elts[1], env, e)


# ------------------------------------------------------------------ holes: float arithmetic (T)
def tlit(k, node):
    if isinstance(k, bool) or not isinstance(k, int) or k < 0 or k > 10 ** 6:
        fail("unsupported numeric literal in the validation score", node)
    return "n0 o" if k == 0 else "n1 o" if k == 1 else f"nofnat o {k}"


TOPS = {ast.Add: "nadd", ast.Sub: "nsub", ast.Mult: "nmul", ast.Div: "ndiv"}


def texpr(e, env, lens):
    """env: unparse-text -> Coq variable of type T;  lens: unparse-text of a len(..) call -> Coq nat variable.
    The operands of + and * are printed in the order of first appearance of their names in env, lens (the
    source's own order for the code as it is); IEEE + and * commute exactly."""
    return trank(e, env, lens)[0]


def trank(e, env, lens):
    key = src(e)
    names = list(env) + list(lens)
    if key in env:
        return env[key], names.index(key)
    if key in lens:
        return f"nofnat o {lens[key]}", names.index(key)
    if isinstance(e, ast.Constant):
        return tlit(e.value, e), len(names)
    if isinstance(e, ast.BinOp) and type(e.op) in TOPS:
        (a, ra), (b, rb) = trank(e.left, env, lens), trank(e.right, env, lens)
        if isinstance(e.op, (ast.Add, ast.Mult)) and (rb, b) < (ra, a):
            a, b = b, a
        return f"{TOPS[type(e.op)]} o ({a}) ({b})", min(ra, rb)
    fail(f"unknown arithmetic expression node {type(e).__name__}: `{key}`", e)


# ------------------------------------------------------------------ skeleton helpers
def is_doc(s):
    return isinstance(s, ast.Expr) and isinstance(s.value, ast.Constant) and isinstance(s.value.value, str)


def is_verbose_print(s):
    return (isinstance(s, ast.If) and src(s.test) in ("self.verbose", "clf.verbose") and not s.orelse
            and all(isinstance(b, ast.Expr) and isinstance(b.value, ast.Call) and src(b.value.func) == "print" for b in s.body))


def clean(stmts):
    return [s for s in stmts if not is_doc(s) and not is_verbose_print(s)]


def expect_len(stmts, n, what, node=None):
    if len(stmts) != n:
        fail(f"{what}: expected {n} statements, found {len(stmts)}", node)


def lit(s, text):
    if src(s) != text:
        fail(f"statement differs from the modelled skeleton: expected `{text}` got `{src(s)[:160]}`", s)


def assign_to(s, name):
    """`name = e` -> e"""
    if not (isinstance(s, ast.Assign) and len(s.targets) == 1 and src(s.targets[0]) == name):
        fail(f"expected an assignment to `{name}`, got `{src(s)[:120]}`", s)
    return s.value


def bind(s, what, taken=()):
    """`<local name> = e` -> (name, e).  Local names are free (alpha-renaming is harmless) but must not hide a
    name the skeleton relies on."""
    if not (isinstance(s, ast.Assign) and len(s.targets) == 1 and isinstance(s.targets[0], ast.Name)):
        fail(f"expected `<name> = ...` ({what}), got `{src(s)[:120]}`", s)
    name = s.targets[0].id
    if name in taken:
        fail(f"the local name `{name}` ({what}) hides another name of the skeleton", s)
    return name, s.value


def update_of(s, name):
    """`name op= e` or `name = e'` -> the expression `name op e` / e'"""
    if isinstance(s, ast.AugAssign) and src(s.target) == name:
        return ast.BinOp(left=ast.Name(id=name, ctx=ast.Load()), op=s.op, right=s.value)
    if isinstance(s, ast.Assign) and len(s.targets) == 1 and src(s.targets[0]) == name:
        return s.value
    fail(f"expected an update of `{name}`, got `{src(s)[:120]}`", s)


def signature(fn, names, defaults, decorators=()):
    """positional parameters and their defaults (annotations are ignored)"""
    a = fn.args
    if a.vararg or a.kwarg or a.kwonlyargs or a.posonlyargs:
        fail(f"signature of {fn.name} changed shape", fn)
    if [x.arg for x in a.args] != list(names) or [src(d) for d in a.defaults] != list(defaults):
        fail(f"signature of {fn.name} changed: `{src(a)}`", fn)
    if [src(d) for d in fn.decorator_list] != list(decorators):
        fail(f"decorators of {fn.name} changed", fn)


def two_names(node, what):
    """tuple of two plain names -> (a, b)"""
    if not (isinstance(node, ast.Tuple) and len(node.elts) == 2 and all(isinstance(e, ast.Name) for e in node.elts)):
        fail(f"{what}: expected a pair of names, got `{src(node)}`", node)
    a, b = node.elts[0].id, node.elts[1].id
    if a == b:
        fail(f"{what}: the two names coincide", node)
    return a, b


def yield_pair(s, what):
    if not (isinstance(s, ast.Expr) and isinstance(s.value, ast.Yield) and isinstance(s.value.value, ast.Tuple)
            and len(s.value.value.elts) == 2):
        fail(f"{what} does not yield a pair: `{src(s)[:100]}`", s)
    return s.value.value.elts


def is_call(e, func, nargs, keywords=()):
    return (isinstance(e, ast.Call) and src(e.func) == func and len(e.args) == nargs
            and [src(k) for k in e.keywords] == list(keywords))


def find_class(mod, name):
    cl = [n for n in mod.body if isinstance(n, ast.ClassDef) and n.name == name]
    if len(cl) != 1:
        fail(f"class {name} not found exactly once")
    return cl[0]


def find_def(body, name, what):
    fs = [n for n in body if isinstance(n, ast.FunctionDef) and n.name == name]
    if len(fs) != 1:
        fail(f"{what} not found exactly once")
    return fs[0]


def lines(fn):
    return f"lines {fn.lineno}-{fn.end_lineno}"


def none_branches(c, subject, what):
    """if <subject> is (not) None: A else: B  -> (statement of the not-None case, statement of the None case)"""
    if not (isinstance(c, ast.If) and len(c.body) == 1 and len(c.orelse) == 1):
        fail(f"{what} changed shape", c)
    t = src(c.test)
    if t == f"{subject} is not None":
        return c.body[0], c.orelse[0]
    if t == f"{subject} is None":
        return c.orelse[0], c.body[0]
    fail(f"{what}: the test is not `{subject} is (not) None`: `{t}`", c)


# ------------------------------------------------------------------ keyword spellings of the matched calls
class Positional(ast.NodeTransformer):
    """f(a, q=b) -> f(a, b) for the calls the skeleton matches (q the name of f's second parameter, ...): a keyword
    spelling is the same call.  table: attribute / function name -> parameter names (without self).  A keyword that is
    not a parameter, a repeated parameter, a gap or a * / ** argument is left alone (the matcher then fails closed)."""

    def __init__(self, table):
        self.table = table

    def visit_Call(self, node):
        self.generic_visit(node)
        name = node.func.attr if isinstance(node.func, ast.Attribute) else node.func.id if isinstance(node.func, ast.Name) else None
        params = self.table.get(name)
        if params is None or not node.keywords or any(k.arg is None for k in node.keywords) \
                or any(isinstance(a, ast.Starred) for a in node.args):
            return node
        slots = list(node.args) + [None] * (len(params) - len(node.args))
        if len(node.args) > len(params):
            return node
        for k in node.keywords:
            if k.arg not in params or slots[params.index(k.arg)] is not None:
                return node
            slots[params.index(k.arg)] = k.value
        while slots and slots[-1] is None:
            slots.pop()
        if any(v is None for v in slots):
            return node
        node.args, node.keywords = slots, []
        return node


def call_table(base_cls, sparse_mod):
    def params(fn, drop_self):
        a = fn.args
        if a.vararg or a.kwarg or a.kwonlyargs or a.posonlyargs:
            fail(f"signature of {fn.name} changed shape", fn)
        return [x.arg for x in a.args][1 if drop_self else 0:]
    t = {m: params(find_def(base_cls.body, m, f"DiscriminativeModel.{m}"), True)
         for m in ("_batchify", "_infer", "_compute_grads", "_update_weights")}
    t["func"] = t["_batchify"]                  # decorate_batch(func): func is the undecorated _batchify
    t["compute_val_score"] = params(find_def(sparse_mod.body, "compute_val_score", "compute_val_score"), False)
    t["predict_proba"] = ["X"]
    t["compute_affinity"] = ["X", "y"]
    return t


# ------------------------------------------------------------------ DiscriminativeModel._batchify
def tr_batchify(cls, D, R):
    fn = find_def(cls.body, "_batchify", "DiscriminativeModel._batchify")
    R.append(f"DiscriminativeModel._batchify {lines(fn)}")
    signature(fn, ["self", "X", "affinity_matrix", "random_state"], ["None", "None"])
    fixed = {"self", "X", "affinity_matrix", "np"}
    b = clean(fn.body)
    expect_len(b, 5, "body of _batchify", fn)
    rs, v = bind(b[0], "the random state", fixed)
    if src(v) != "check_random_state(random_state)":
        fail(f"the random state is not check_random_state(random_state): `{src(v)}`", b[0])
    allv, perm = bind(b[1], "the permutation", fixed | {rs})
    if not is_call(perm, f"{rs}.permutation", 1):
        fail(f"the shuffled indices are not {rs}.permutation(<e>): `{src(perm)}`", b[1])
    D["bf_perm_len"] = zexpr(perm.args[0], {"len(X)": "n"})
    bsv, bs = bind(b[2], "the batch size", fixed | {rs, allv})
    if not isinstance(bs, ast.IfExp):
        fail(f"the batch size is not a conditional expression: `{src(bs)}`", b[2])
    D["bf_bs"] = none_default(bs.test, bs.body, bs.orelse, "self.batch_size", {"len(X)": "n"}, b[2])
    jv, j0 = bind(b[3], "the start index", fixed | {rs, allv, bsv})
    D["bf_start"] = zexpr(j0, {})
    w = b[4]
    if not isinstance(w, ast.While) or w.orelse:
        fail("the batching loop is not a plain while", w)
    D["bf_guard"] = ztest(w.test, {jv: "j", "len(X)": "n"})
    wb = clean(w.body)
    expect_len(wb, 5, "body of the batching loop", w)
    env = {jv: "j", bsv: "batch_size"}
    outer = fixed | {rs, allv, bsv, jv}
    biv, bi = bind(wb[0], "the indices of the batch", outer)
    D["bf_lo"], D["bf_hi"] = slice_rows(bi, allv, env)
    ienv = {biv: "batch_indices"}
    xbv, xb = bind(wb[1], "the rows of the batch", outer | {biv})
    D["bf_rows"] = fancy_rows(xb, "X", ienv)
    some, none = none_branches(wb[2], "affinity_matrix", "the affinity branch of the batching loop")
    abv, blk = bind(some, "the affinity block", outer | {biv, xbv})
    lit(none, f"{abv} = None")
    D["bf_aff_rows"], D["bf_aff_cols"] = fancy_block(blk, "affinity_matrix", ienv)
    y0, y1 = yield_pair(wb[3], "the batching loop")
    if src(y0) != xbv or src(y1) != abv:
        fail(f"the batching loop yields `{src(y0)}, {src(y1)}` instead of the rows and the affinity block of the batch", wb[3])
    D["bf_step"] = zexpr(update_of(wb[4], jv), env)
    for n in ast.walk(fn):
        if isinstance(n, (ast.Break, ast.Continue, ast.Return, ast.YieldFrom)) or (isinstance(n, ast.Yield) and n is not wb[3].value):
            fail("another exit / yield in _batchify", n)


# ------------------------------------------------------------------ the per-batch training step (fit and _run_path)
def training_context(stmts, obj, fn):
    """the names the training loop relies on, bound once by top-level statements before it:
    RS = check_random_state(<obj>.random_state); GEM = <obj>.get_gemini(); AFF = GEM.compute_affinity(X, y);
    W = <obj>._get_weights()"""
    def one(pred, what):
        hits = [s for s in stmts if isinstance(s, ast.Assign) and len(s.targets) == 1 and isinstance(s.targets[0], ast.Name) and pred(s.value)]
        if len(hits) != 1:
            fail(f"{fn.name} does not bind {what} exactly once before the training loop", fn)
        return hits[0].targets[0].id
    rs = one(lambda v: src(v) == f"check_random_state({obj}.random_state)", "the random state")
    gem = one(lambda v: src(v) == f"{obj}.get_gemini()", "the GEMINI")
    aff = one(lambda v: src(v) == f"{gem}.compute_affinity(X, y)", "the affinity")
    w = one(lambda v: src(v) == f"{obj}._get_weights()", "the weights")
    names = [rs, gem, aff, w]
    if len(set(names)) != 4 or set(names) & {"X", "y", obj}:
        fail(f"{fn.name}: the names of the random state / GEMINI / affinity / weights collide", fn)
    return rs, gem, aff, w


def tr_step(loop, obj, ctx, D, prefix, iterable=None):
    """for XB, AB in <obj>._batchify(X, AFF, RS): the four calls of one optimiser step
    (iterable: the name of a list holding list(<obj>._batchify(X, AFF, RS)), when the caller has matched that)"""
    rs, gem, aff, w = ctx
    if not isinstance(loop, ast.For) or loop.orelse:
        fail("the per-batch loop is not a plain for", loop)
    xb, ab = two_names(loop.target, "the per-batch loop")
    if {xb, ab} & {rs, gem, aff, w, "X", "y", obj}:
        fail("the per-batch loop rebinds a name of the skeleton", loop)
    want = iterable or f"{obj}._batchify(X, {aff}, {rs})"
    if src(loop.iter) != want:
        fail(f"the per-batch loop iterates over `{src(loop.iter)}` instead of `{want}`", loop)
    b = clean(loop.body)
    expect_len(b, 4, "body of the per-batch loop", loop)
    rows = {xb: "SrcBatch", "X": "SrcAll"}
    affs = {ab: "SrcBatch", aff: "SrcAll"}

    def arg(call, k, table, what):
        t = src(call.args[k])
        if t not in table:
            fail(f"{what} reads `{t}`, which is neither the batch's nor the full array", call)
        return table[t]
    taken = {xb, ab, rs, gem, aff, w, "X", "y", obj}
    pv, c0 = bind(b[0], "the predictions", taken)
    if not is_call(c0, f"{obj}._infer", 1):
        fail(f"the forward pass is not `{obj}._infer(<X>)`: `{src(c0)}`", b[0])
    D[prefix + "infer_x"] = arg(c0, 0, rows, "_infer")
    s1 = b[1]
    if not (isinstance(s1, ast.Assign) and len(s1.targets) == 1):
        fail(f"the GEMINI call changed shape: `{src(s1)[:100]}`", s1)
    _, g1 = two_names(s1.targets[0], "the result of the GEMINI call")
    if g1 in taken | {pv}:
        fail("the GEMINI gradient rebinds a name of the skeleton", s1)
    c1 = s1.value
    if not (is_call(c1, gem, 2, ["return_grad=True"]) and src(c1.args[0]) == pv):
        fail(f"the GEMINI call is not `{gem}({pv}, <affinity>, return_grad=True)`: `{src(c1)}`", s1)
    D[prefix + "gemini_aff"] = arg(c1, 1, affs, "the GEMINI")
    g2, c2 = bind(b[2], "the parameter gradients", (taken | {pv}) - {g1})
    if not (is_call(c2, f"{obj}._compute_grads", 3) and src(c2.args[1]) == pv and src(c2.args[2]) == g1):
        fail(f"the backward pass is not `{obj}._compute_grads(<X>, {pv}, {g1})`: `{src(c2)}`", b[2])
    D[prefix + "grads_x"] = arg(c2, 0, rows, "_compute_grads")
    lit(b[3], f"{obj}._update_weights({w}, {g2})")


# ------------------------------------------------------------------ DiscriminativeModel.fit
def tr_fit(cls, D, R):
    fn = find_def(cls.body, "fit", "DiscriminativeModel.fit")
    signature(fn, ["self", "X", "y"], ["None"])
    b = clean(fn.body)
    loops = [k for k, s in enumerate(b) if isinstance(s, (ast.For, ast.While))]
    if len(loops) != 1 or not isinstance(b[loops[0]], ast.For):
        fail("fit does not contain exactly one top-level for loop", fn)
    lp = b[loops[0]]
    R.append(f"DiscriminativeModel.fit: training loop lines {lp.lineno}-{lp.end_lineno}")
    ctx = training_context(b[:loops[0]], "self", fn)
    if lp.orelse or not isinstance(lp.target, ast.Name) or lp.target.id in set(ctx) | {"X", "y", "self"}:
        fail("the epoch loop of fit changed shape", lp)
    if not is_call(lp.iter, "range", 1):
        fail(f"the epoch loop does not iterate over range(<e>): `{src(lp.iter)}`", lp)
    D["fit_epochs"] = zexpr(lp.iter.args[0], {"self.max_iter": "max_iter"})
    body = clean(lp.body)
    if len(body) == 2:
        # batches = list(self._batchify(X, AFF, RS)); for XB, AB in batches: ...   (the generator is exhausted first)
        lst, v = bind(body[0], "the list of batches", set(ctx) | {"X", "y", "self", lp.target.id})
        if src(v) != f"list(self._batchify(X, {ctx[2]}, {ctx[0]}))":
            fail(f"the epoch loop of fit starts with `{src(body[0])[:100]}`", body[0])
        D["fit_iter"] = "IterEager"
        tr_step(body[1], "self", ctx, D, "fit_", iterable=lst)
        body = [body[1]]
    else:
        expect_len(body, 1, "body of the epoch loop of fit", lp)
        D["fit_iter"] = "IterLazy"
        tr_step(body[0], "self", ctx, D, "fit_")
    # no other training step / batching / loop exit anywhere in fit
    for n in ast.walk(fn):
        if isinstance(n, (ast.Break, ast.Continue)):
            fail("break/continue in fit", n)
        if isinstance(n, ast.Return) and n is not b[-1]:
            fail("early return in fit", n)
        if isinstance(n, (ast.For, ast.While)) and n is not lp and n is not body[0]:
            fail("another loop in fit", n)
    calls = [src(n.func) for n in ast.walk(fn) if isinstance(n, ast.Call)]
    for name in ("self._batchify", "self._update_weights", "self._compute_grads"):
        if calls.count(name) != 1:
            fail(f"fit calls {name} {calls.count(name)} times", fn)
    # self.n_iter_ = <e>: exactly one write, a top-level statement after the loop
    writes = [n for n in ast.walk(fn) if isinstance(n, (ast.Assign, ast.AugAssign, ast.AnnAssign))
              and any("self.n_iter_" == src(t) for t in (n.targets if isinstance(n, ast.Assign) else [n.target]))]
    if len(writes) != 1 or writes[0] not in b[loops[0] + 1:]:
        fail("self.n_iter_ is not written exactly once, after the training loop", fn)
    R.append(f"DiscriminativeModel.fit: n_iter_ line {writes[0].lineno}")
    D["fit_n_iter"] = zexpr(assign_to(writes[0], "self.n_iter_"), {"self.max_iter": "max_iter"})
    lit(b[-1], "return self")


# ------------------------------------------------------------------ CategoricalModel._batchify
def tr_categorical(mod, R):
    cls = find_class(mod, "CategoricalModel")
    fn = find_def(cls.body, "_batchify", "CategoricalModel._batchify")
    R.append(f"CategoricalModel._batchify {lines(fn)}  (literal: one yield of the full data)")
    signature(fn, ["self", "X", "affinity_matrix", "random_state"], ["None", "None"])
    b = clean(fn.body)
    expect_len(b, 1, "body of CategoricalModel._batchify", fn)
    lit(b[0], "yield (X, affinity_matrix)")
    # no subclass overrides it again
    for n in mod.body:
        if isinstance(n, ast.ClassDef) and n is not cls and any(isinstance(m, ast.FunctionDef) and m.name == "_batchify" for m in n.body):
            fail(f"{n.name} overrides _batchify", n)


# ------------------------------------------------------------------ mlcl.decorate_batch
def tr_decorate(mod, D, R):
    outer = find_def(mod.body, "add_mlcl_constraint", "add_mlcl_constraint")
    dec = find_def(outer.body, "decorate_batch", "decorate_batch")
    R.append(f"add_mlcl_constraint.decorate_batch {lines(dec)}")
    signature(dec, ["func"], [])
    b = clean(dec.body)
    expect_len(b, 3, "body of decorate_batch", dec)
    fn = b[0]
    if not isinstance(fn, ast.FunctionDef):
        fail("decorate_batch does not start by defining the wrapper", dec)
    f = fn.name
    signature(fn, ["X", "affinity_matrix", "random_state"], ["None", "None"], ["functools.wraps(func)"])
    lit(b[1], f"{f}.indices = []")
    lit(b[2], f"return {f}")
    fixed = {"X", "affinity_matrix", "random_state", "func", f, "np"}
    fb = clean(fn.body)
    expect_len(fb, 2, f"body of {f}", fn)
    iv, ar = bind(fb[0], "the index array", fixed)
    if not is_call(ar, "np.arange", 1):
        fail(f"the index array is not np.arange(<e>): `{src(ar)}`", fb[0])
    D["dc_arange"] = zexpr(ar.args[0], {"len(X)": "n"})
    lp = fb[1]
    if not isinstance(lp, ast.For) or lp.orelse:
        fail(f"the loop of {f} changed shape", lp)
    sub, ab = two_names(lp.target, f"the loop of {f}")
    if {sub, ab} & (fixed | {iv}):
        fail(f"the loop of {f} rebinds a name of the skeleton", lp)
    if src(lp.iter) != f"func({iv}, affinity_matrix, random_state)":
        fail(f"the loop of {f} iterates over `{src(lp.iter)}`", lp)
    lb = clean(lp.body)
    expect_len(lb, 2, f"loop body of {f}", lp)
    env = {sub: "subset"}
    rec = assign_to(lb[0], f"{f}.indices")
    if not (isinstance(rec, ast.Call) and isinstance(rec.func, ast.Attribute) and rec.func.attr == "tolist" and not rec.args and not rec.keywords):
        fail(f"the recorded indices are not <index array>.tolist(): `{src(rec)}`", lb[0])
    D["dc_recorded"] = idx(rec.func.value, env)
    y0, y1 = yield_pair(lb[1], f)
    D["dc_rows"] = fancy_rows(y0, "X", env)
    if src(y1) != ab:
        fail(f"{f} yields `{src(y1)}` as affinity block", lb[1])
    # the decoration is installed on the model's own _batchify
    inst = [src(s) for s in outer.body]
    if inst.count("gemini_model._batchify = decorate_batch(gemini_model._batchify)") != 1:
        fail("add_mlcl_constraint no longer installs decorate_batch on gemini_model._batchify", outer)
    # ... and read back under the same attribute name
    if "gemini_model._batchify.indices" not in src(outer):
        fail("add_mlcl_constraint no longer reads gemini_model._batchify.indices", outer)


# ------------------------------------------------------------------ sparse: compute_val_score, _run_path
def tr_val(mod, D, R):
    fn = find_def(mod.body, "compute_val_score", "compute_val_score")
    R.append(f"compute_val_score {lines(fn)}")
    signature(fn, ["clf", "X", "y", "batch_size", "gemini_objective"], [])
    fixed = {"clf", "X", "y", "batch_size", "gemini_objective", "np"}
    b = clean(fn.body)
    expect_len(b, 8, "body of compute_val_score", fn)
    vg, e0 = bind(b[0], "the accumulated score", fixed)
    D["vs_init"] = texpr(e0, {}, {})
    vl, e1 = bind(b[1], "the penalty", fixed | {vg})
    if src(e1) != "clf._group_lasso_penalty() * clf.alpha":
        fail(f"the penalty is not clf._group_lasso_penalty() * clf.alpha: `{src(e1)}`", b[1])
    sm, e2 = bind(b[2], "the selection mask", fixed | {vg, vl})
    if src(e2) != "np.arange(X.shape[1])":
        fail(f"the selection mask is not np.arange(X.shape[1]): `{src(e2)}`", b[2])
    lit(b[3], f"if clf.dynamic and y is None:\n    {sm} = clf.get_selection()\n    if len({sm}) == 0:\n"
              f"        {sm} = np.arange(X.shape[1])")
    jv, j0 = bind(b[4], "the start index", fixed | {vg, vl, sm})
    D["vs_start"] = zexpr(j0, {})
    w = b[5]
    if not isinstance(w, ast.While) or w.orelse:
        fail("the validation loop is not a plain while", w)
    D["vs_guard"] = ztest(w.test, {jv: "j", "len(X)": "n"})
    wb = clean(w.body)
    expect_len(wb, 5, "body of the validation loop", w)
    env = {jv: "j", "batch_size": "batch_size"}
    outer = fixed | {vg, vl, sm, jv}
    xb, ex = bind(wb[0], "the rows of the block", outer)
    D["vs_x_lo"], D["vs_x_hi"] = slice_rows(ex, "X", env)
    some, none = none_branches(wb[1], "y", "the affinity branch of the validation loop")
    av, blk = bind(some, "the affinity of the block", outer | {xb})
    lit(none, f"{av} = gemini_objective.compute_affinity({xb}[:, {sm}])")
    (D["vs_yr_lo"], D["vs_yr_hi"]), (D["vs_yc_lo"], D["vs_yc_hi"]) = slice_block(blk, "y", env)
    pv, ep = bind(wb[2], "the predictions of the block", outer | {xb, av})
    if src(ep) != f"clf.predict_proba({xb})":
        fail(f"the predictions of the block are not clf.predict_proba({xb}): `{src(ep)}`", wb[2])
    tenv = {vg: "validation_gemini", f"gemini_objective({pv}, {av})": "score"}
    lens = {f"len({xb})": "len_batch", "len(X)": "n"}
    D["vs_acc"] = texpr(update_of(wb[3], vg), tenv, lens)
    D["vs_step"] = zexpr(update_of(wb[4], jv), env)
    D["vs_norm"] = texpr(update_of(b[6], vg), {vg: "validation_gemini"}, {"len(X)": "n"})
    lit(b[7], f"return ({vg}, {vl})")
    for n in ast.walk(fn):
        if isinstance(n, (ast.Break, ast.Continue)) or (isinstance(n, ast.Return) and n is not b[7]):
            fail("another exit in compute_val_score", n)
    # ---- _run_path: batch_size default, how compute_val_score is called, the per-batch training loop
    rp = find_def(mod.body, "_run_path", "_run_path")
    if [a.arg for a in rp.args.args][:3] != ["clf", "X", "y"]:
        fail("_run_path no longer starts with the parameters clf, X, y", rp)
    top = clean(rp.body)
    ifs = [s for s in top if isinstance(s, ast.If) and src(s.test) in ("clf.batch_size is not None", "clf.batch_size is None")]
    if len(ifs) != 1:
        fail("_run_path: the batch_size default is not a single top-level if on clf.batch_size", rp)
    s = ifs[0]
    R.append(f"_run_path: batch_size default lines {s.lineno}-{s.end_lineno}")
    if not (len(s.body) == 1 and len(s.orelse) == 1):
        fail("_run_path: the batch_size default changed shape", s)
    bsv, e_then = bind(s.body[0], "the batch size of _run_path", {"clf", "X", "y"})
    D["vs_path_bs"] = none_default(s.test, e_then, assign_to(s.orelse[0], bsv), "clf.batch_size", {"len(X)": "n"}, s)
    gems = [t.targets[0].id for t in top if isinstance(t, ast.Assign) and len(t.targets) == 1 and isinstance(t.targets[0], ast.Name)
            and src(t.value) == "clf.get_gemini()"]
    if len(gems) != 1:
        fail("_run_path does not bind clf.get_gemini() exactly once", rp)
    ncalls = 0
    for n in ast.walk(rp):
        if isinstance(n, (ast.Assign, ast.AugAssign)) and n is not s.body[0] and n is not s.orelse[0] \
                and any(src(t) == bsv for t in (n.targets if isinstance(n, ast.Assign) else [n.target])):
            fail(f"_run_path: {bsv} is written elsewhere", n)
        if isinstance(n, ast.Call) and src(n.func) == "compute_val_score":
            ncalls += 1
            if src(n) != f"compute_val_score(clf, X, y, {bsv}, {gems[0]})":
                fail(f"_run_path: compute_val_score is called as `{src(n)}`", n)
    if ncalls == 0:
        fail("_run_path no longer calls compute_val_score", rp)
    fors = [n for n in ast.walk(rp) if isinstance(n, ast.For)]
    if len(fors) != 1:
        fail("_run_path does not contain exactly one for loop", rp)
    R.append(f"_run_path: per-batch training loop lines {fors[0].lineno}-{fors[0].end_lineno}")
    before = [t for t in top if t.lineno < fors[0].lineno]
    tr_step(fors[0], "clf", training_context(before, "clf", rp), D, "path_")


# ------------------------------------------------------------------ output
TEMPLATE = """(* GENERATED by translator/tr_batch.py - do not edit.
{header}
   The holes of the batching code, as the sources state them now; the control skeleton around them was
   matched literally.  Compared with a hand-written copy and tied to the reference model in Proofs/BatchGen.v. *)
From Coq Require Import List Bool Arith ZArith.
From GV Require Import Common.Num Model.Batch.
Import ListNotations.

(* ---- DiscriminativeModel._batchify ---- *)
(* all_indices = random_state.permutation(<e>) *)
Definition bf_perm_len (n : Z) : Z := {bf_perm_len}.
(* batch_size = <len(X)> if self.batch_size is None else <self.batch_size>      opt = self.batch_size *)
Definition bf_bs (n : Z) (opt : option Z) : Z := {bf_bs}.
(* j = <e> *)
Definition bf_start : Z := {bf_start}.
(* while <test>: *)
Definition bf_guard (j n : Z) : bool := {bf_guard}.
(* batch_indices = all_indices[<lo>:<hi>] *)
Definition bf_lo (j batch_size : Z) : Z := {bf_lo}.
Definition bf_hi (j batch_size : Z) : Z := {bf_hi}.
(* X_batch = X[<idx>] *)
Definition bf_rows (batch_indices : list nat) : list nat := {bf_rows}.
(* affinity_batch = affinity_matrix[<idx>][:, <idx>] *)
Definition bf_aff_rows (batch_indices : list nat) : list nat := {bf_aff_rows}.
Definition bf_aff_cols (batch_indices : list nat) : list nat := {bf_aff_cols}.
(* j = <e>   (last statement of the loop body) *)
Definition bf_step (j batch_size : Z) : Z := {bf_step}.
Definition batch_rules : BatchRules := {{|
  r_perm_len := bf_perm_len; r_bs := bf_bs; r_start := bf_start; r_guard := bf_guard; r_lo := bf_lo; r_hi := bf_hi;
  r_rows := bf_rows; r_aff_rows := bf_aff_rows; r_aff_cols := bf_aff_cols; r_step := bf_step |}}.

(* ---- DiscriminativeModel.fit ---- *)
(* for i in range(<e>): *)
Definition fit_epochs (max_iter : Z) : Z := {fit_epochs}.
(* for X_batch, affinity_batch in self._batchify(..): IterLazy    batches = list(self._batchify(..)); for .. in batches: IterEager *)
Definition fit_iter : Iter := {fit_iter}.
(* self.n_iter_ = <e> *)
Definition fit_n_iter (max_iter : Z) : Z := {fit_n_iter}.
(* y_pred = self._infer(<.>); _, grads = gemini(y_pred, <.>, return_grad=True); grads = self._compute_grads(<.>, y_pred, grads) *)
Definition fit_step_rules : StepRules := {{| s_infer_x := {fit_infer_x}; s_gemini_aff := {fit_gemini_aff}; s_grads_x := {fit_grads_x} |}}.
Definition fit_rules : FitRules := {{| f_epochs := fit_epochs; f_iter := fit_iter; f_n_iter := fit_n_iter; f_step := fit_step_rules |}}.

(* ---- sparse._base_sparse._run_path: the per-batch training loop ---- *)
(* y_pred = clf._infer(<.>); _, grads = gemini_objective(y_pred, <.>, return_grad=True); grads = clf._compute_grads(<.>, y_pred, grads) *)
Definition path_step_rules : StepRules := {{| s_infer_x := {path_infer_x}; s_gemini_aff := {path_gemini_aff}; s_grads_x := {path_grads_x} |}}.

(* ---- mlcl.add_mlcl_constraint.decorate_batch ---- *)
(* indices = np.arange(<e>) *)
Definition dc_arange (n : Z) : Z := {dc_arange}.
(* disguise_batch.indices = <idx>.tolist() *)
Definition dc_recorded (subset : list nat) : list nat := {dc_recorded}.
(* yield X[<idx>], affinity_batch *)
Definition dc_rows (subset : list nat) : list nat := {dc_rows}.
Definition deco_rules : DecoRules := {{| d_arange := dc_arange; d_recorded := dc_recorded; d_rows := dc_rows |}}.

(* ---- sparse._base_sparse.compute_val_score (and the batch_size default of _run_path) ---- *)
Section ValRules.
Context {{T : Type}} (o : NumOps T).
(* validation_gemini = <e> *)
Definition vs_init : T := {vs_init}.
(* j = <e> ; while <test>: ... ; j = <e> *)
Definition vs_start : Z := {vs_start}.
Definition vs_guard (j n : Z) : bool := {vs_guard}.
Definition vs_step (j batch_size : Z) : Z := {vs_step}.
(* X_batch = X[<lo>:<hi>] *)
Definition vs_x_lo (j batch_size : Z) : Z := {vs_x_lo}.
Definition vs_x_hi (j batch_size : Z) : Z := {vs_x_hi}.
(* affinity = y[<lo>:<hi>][:, <lo>:<hi>] *)
Definition vs_yr_lo (j batch_size : Z) : Z := {vs_yr_lo}.
Definition vs_yr_hi (j batch_size : Z) : Z := {vs_yr_hi}.
Definition vs_yc_lo (j batch_size : Z) : Z := {vs_yc_lo}.
Definition vs_yc_hi (j batch_size : Z) : Z := {vs_yc_hi}.
(* validation_gemini = <validation_gemini + gemini_objective(y_pred, affinity) * len(X_batch)>    score = gemini_objective(y_pred, affinity) *)
Definition vs_acc (validation_gemini score : T) (len_batch n : nat) : T := {vs_acc}.
(* validation_gemini = <validation_gemini / len(X)> *)
Definition vs_norm (validation_gemini : T) (n : nat) : T := {vs_norm}.
(* _run_path: batch_size = <clf.batch_size> if it is not None else <len(X)>      opt = clf.batch_size *)
Definition vs_path_bs (n : Z) (opt : option Z) : Z := {vs_path_bs}.
Definition val_rules : ValRules (T := T) := {{|
  v_init := vs_init; v_start := vs_start; v_guard := vs_guard; v_step := vs_step; v_x_lo := vs_x_lo; v_x_hi := vs_x_hi;
  v_yr_lo := vs_yr_lo; v_yr_hi := vs_yr_hi; v_yc_lo := vs_yc_lo; v_yc_hi := vs_yc_hi; v_acc := vs_acc; v_norm := vs_norm;
  v_path_bs := vs_path_bs |}}.
End ValRules.
(* EXTRACT: batch_rules fit_rules path_step_rules deco_rules val_rules *)
"""


def translate():
    D, R = {}, []
    raws = {k: open(os.path.join(REPO, rel), "rb").read() for k, rel in FILES.items()}
    mods = {k: ast.parse(raw.decode("utf-8")) for k, raw in raws.items()}
    base_cls = find_class(mods["base"], "DiscriminativeModel")
    norm = Positional(call_table(base_cls, mods["sparse"]))
    for m in mods.values():
        norm.visit(m)
    R.append(f"Source: {FILES['base']}  sha256 {hashlib.sha256(raws['base']).hexdigest()}")
    tr_batchify(base_cls, D, R)
    tr_fit(base_cls, D, R)
    R.append(f"Source: {FILES['cat']}  sha256 {hashlib.sha256(raws['cat']).hexdigest()}")
    tr_categorical(mods["cat"], R)
    R.append(f"Source: {FILES['mlcl']}  sha256 {hashlib.sha256(raws['mlcl']).hexdigest()}")
    tr_decorate(mods["mlcl"], D, R)
    R.append(f"Source: {FILES['sparse']}  sha256 {hashlib.sha256(raws['sparse']).hexdigest()}")
    tr_val(mods["sparse"], D, R)
    header = "\n".join(("   " if r.startswith("Source:") else "     ") + r for r in R)
    return TEMPLATE.format(header=header, **D)


def main():
    try:
        text = translate()
    except Unknown as e:
        print(f"tr_batch: FAIL-CLOSED: {e}")
        sys.exit(1)
    except Exception as e:  # noqa  (anything unexpected is a failure to translate, never a partial output)
        print(f"tr_batch: FAIL-CLOSED: {type(e).__name__}: {e}")
        sys.exit(1)
    old = open(OUT).read() if os.path.exists(OUT) else None
    if old != text:
        os.makedirs(os.path.dirname(OUT), exist_ok=True)
        open(OUT, "w").write(text)
        print("tr_batch: wrote", OUT)
        # build.sh reports BUILD-FAIL only for a MISSING .vo: remove the compiled objects of the files that depend
        # on the regenerated text so that a failing re-compilation cannot hide behind a stale object
        for rel in DEPENDENTS:
            for ext in (".vo", ".vos", ".vok", ".glob"):
                stale = os.path.join(ROOT, "coq", rel + ext)
                if os.path.exists(stale):
                    os.remove(stale)
    else:
        print("tr_batch: unchanged", OUT)


if __name__ == "__main__":
    main()
