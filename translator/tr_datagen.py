#!/usr/bin/env python3
"""Fail-closed translator: gemclus/data/synthetic_data.py :: draw_gmm, multivariate_student_t  ->  coq/Gen/DataGenRules.v

The two functions are matched statement by statement against the control skeleton that the hand-written model
coq/Model/DataGen.v assumes, and translated WHOLE into Gallina definitions built from the vocabulary of that model
(array_check, isclose, sym_close, for_rows/for_mats, comp_calls_*, entry_rows, the oracle requests CChoice / CNormal /
CMvn / CChisq):

  gen_gmm_check      the validation of draw_gmm: the `ensure_min_samples` of the three check_array calls, then every
                     `if <test>: raise ValueError(<message>)` in SOURCE ORDER with its test translated (comparison
                     operators and their strictness, which shape entry / array is read, the literals -1e-8 and 0 and 1,
                     np.isclose / np.allclose and their tolerances when given) and its raise site identified by its message;
                     the per-component loops of the two branches of `if d == 1`
  gen_gmm_calls      the draw protocol: the arguments of generator.choice, and per component of
                     generator.normal(loc[k], np.sqrt(scale[k]), size=(n,)) / generator.multivariate_normal(loc[k], scale[k], size=(n,))
  gen_gmm_select     the row selection  [X[k][i].reshape((1, -1)) for i, k in enumerate(y)]  (which index is which)
  gen_gmm_run        first answer = labels, the others = component draw arrays in order; returns (concatenated rows, y)
  gen_student_check  the shape test of multivariate_student_t
  gen_student_calls  its two draws in statement order, gen_student_entry the entry-wise expression
                     np.sqrt(df / u) * nx + loc.reshape((1, -1)), gen_student_run which answer feeds which variable

Proofs/DataGenRules.v proves each of them equal to the hand-written function of Model/DataGen.v (for every number
system), so a reordered test, a changed threshold or strictness, a changed argument or index breaks L1.
Anything that is not the expected skeleton / an unknown expression node makes the translator exit non-zero WITHOUT
writing (the build prints TRANSLATOR-FAIL; the previous Gen file stays; the check relies on the correspondence).
When the text changes, the compiled objects of Proofs/DataGenRules.v and Props/C20.v are removed so that a failing
re-compilation cannot hide behind a stale object.
"""
import ast, hashlib, os, sys
from fractions import Fraction

REPO = os.environ.get("VERIF_REPO", "/repo")
ROOT = os.path.dirname(os.path.dirname(os.path.abspath(__file__)))
SRC = os.path.join(REPO, "gemclus", "data", "synthetic_data.py")
OUT = os.path.join(ROOT, "coq", "Gen", "DataGenRules.v")
DEPENDENTS = [("Proofs", "DataGenRules"), ("Props", "C20")]


class Unknown(Exception):
    pass


def fail(msg, node=None):
    where = f" (line {getattr(node, 'lineno', '?')})" if node is not None else ""
    raise Unknown(msg + where)


# ------------------------------------------------------------------ raise sites, identified by their message
SITES = [("means and the covariances do not contain", "ECountCov", False),
         ("should be square", "ENotSquare", False),
         ("proportions and the means do not contain", "ECountP", False),
         ("strictly positive", "ENonPosP", False),
         ("do not add up to one", "ESumP", False),
         ("-th variance is negative", "EVar", True),
         ("not positive semi-definite", "ENotPSD", True),
         ("contains only zeroes", "EAllZero", True)]


def raise_site(s, loopvar):
    """raise ValueError(<message>) -> Coq text of the error"""
    if not (isinstance(s, ast.Raise) and s.cause is None and isinstance(s.exc, ast.Call) and ast.unparse(s.exc.func) == "ValueError"
            and len(s.exc.args) == 1 and not s.exc.keywords):
        fail("expected `raise ValueError(<message>)`", s)
    m = s.exc.args[0]
    if isinstance(m, ast.Constant) and isinstance(m.value, str):
        text, uses = m.value, []
    elif isinstance(m, ast.JoinedStr):
        text, uses = "", []
        for v in m.values:
            if isinstance(v, ast.Constant):
                text += str(v.value)
            elif isinstance(v, ast.FormattedValue) and isinstance(v.value, ast.Name):
                uses.append(v.value.id)
                text += "{}"
            else:
                fail("unsupported f-string part in an error message", s)
    else:
        fail("error message is not a string literal", s)
    for frag, ctor, indexed in SITES:
        if frag in text:
            if indexed:
                if loopvar is None or uses != [loopvar]:
                    fail(f"the message of site {ctor} does not name the loop index", s)
                return f"{ctor} k"
            if uses:
                fail(f"unexpected formatted value in the message of site {ctor}", s)
            return ctor
    fail(f"unknown raise site: {text[:60]!r}", s)


# ------------------------------------------------------------------ typed expressions
# kinds: nat, lit (integer literal), T (float scalar), vec / row (list T), mat (list (list T)), bool,
#        vmask / rmask / mmask (element-wise comparison of a vec / row / mat with a scalar: (predicate, array text))
def scalar_lit(v, node):
    if isinstance(v, bool):
        fail("boolean literal", node)
    if isinstance(v, int):
        if v == 0: return "n0 o"
        if v == 1: return "n1 o"
        if 0 < v <= 10 ** 6: return f"nofnat o {v}"
        fail("integer literal out of range", node)
    if isinstance(v, float) and v == int(v) and abs(v) <= 10 ** 6:
        return scalar_lit(int(v), node)          # 1.0 is 1
    if isinstance(v, float):
        fr = Fraction(repr(v))
        k, q = 0, fr.denominator
        while q % 10 == 0 and q > 1:
            q //= 10
            k += 1
        m = fr.numerator
        if q != 1:                       # denominator 2^a 5^b: scale to a power of ten
            fr10 = Fraction(repr(v))
            k = 0
            while fr10.denominator != 1 and k <= 22:
                fr10 *= 10
                k += 1
            m = fr10.numerator
        if fr.numerator < 0 or m > 10 ** 6 or k > 22 or float(m) / float(10 ** k) != v:
            fail(f"float literal {v!r} is not a small decimal", node)
        return f"declit o {m} {k}"
    fail("literal of unknown kind", node)


def as_T(t, node):
    txt, kind = t
    if kind == "T": return txt
    if kind == "lit": return scalar_lit(txt, node)
    fail(f"a float scalar was expected, got a {kind}", node)


def as_nat(t, node):
    txt, kind = t
    if kind == "nat": return txt
    if kind == "lit":
        if isinstance(txt, int) and 0 <= txt <= 64: return str(txt)
        fail("integer literal out of range for a count", node)
    fail(f"a count was expected, got a {kind}", node)


SCMP = {ast.LtE: lambda a, b: f"nleb o {a} {b}", ast.Lt: lambda a, b: f"nltb o {a} {b}",
        ast.GtE: lambda a, b: f"nleb o {b} {a}", ast.Gt: lambda a, b: f"nltb o {b} {a}",
        ast.Eq: lambda a, b: f"neqb o {a} {b}", ast.NotEq: lambda a, b: f"negb (neqb o {a} {b})"}
NCMP = {ast.Eq: lambda a, b: f"({a} =? {b})", ast.NotEq: lambda a, b: f"negb ({a} =? {b})",
        ast.Lt: lambda a, b: f"({a} <? {b})", ast.LtE: lambda a, b: f"({a} <=? {b})",
        ast.Gt: lambda a, b: f"({b} <? {a})", ast.GtE: lambda a, b: f"({b} <=? {a})"}


def tr(e, env):
    key = ast.unparse(e)
    if key in env:
        return env[key]
    if isinstance(e, ast.Constant):
        if isinstance(e.value, (int, float)) and not isinstance(e.value, bool):
            return (e.value, "lit") if isinstance(e.value, int) else (scalar_lit(e.value, e), "T")
        fail("constant of unknown kind", e)
    if isinstance(e, ast.UnaryOp) and isinstance(e.op, ast.USub):
        return f"nneg o ({as_T(tr(e.operand, env), e)})", "T"
    if isinstance(e, ast.UnaryOp) and isinstance(e.op, ast.Not):
        t, k = tr(e.operand, env)
        if k != "bool":
            fail("`not` of a non-boolean", e)
        return f"negb ({t})", "bool"
    if isinstance(e, ast.BoolOp):
        parts = []
        for v in e.values:
            t, k = tr(v, env)
            if k != "bool":
                fail("and/or of a non-boolean", v)
            parts.append(f"({t})")
        return (" || " if isinstance(e.op, ast.Or) else " && ").join(parts), "bool"
    if isinstance(e, ast.Compare) and len(e.ops) == 1:
        a, b, op = tr(e.left, env), tr(e.comparators[0], env), type(e.ops[0])
        if a[1] in ("nat", "lit") and b[1] in ("nat", "lit") and "nat" in (a[1], b[1]):
            if op not in NCMP: fail("comparison operator", e)
            x, y = as_nat(a, e), as_nat(b, e)
            if op in (ast.Eq, ast.NotEq):        # symmetric: canonical orientation (bare name, compound, literal)
                rank = lambda t: (0 if t.isidentifier() else 2 if t.isdigit() else 1, t)
                x, y = sorted([x, y], key=rank)
            return NCMP[op](x, y), "bool"
        if a[1] in ("vec", "row", "mat") and b[1] in ("T", "lit"):
            if op not in SCMP: fail("comparison operator", e)
            return (f"(fun x => {SCMP[op]('x', '(' + as_T(b, e) + ')')})", a[0]), {"vec": "vmask", "row": "rmask", "mat": "mmask"}[a[1]]
        if a[1] in ("T", "lit") and b[1] in ("T", "lit") and "T" in (a[1], b[1]):
            if op not in SCMP: fail("comparison operator", e)
            return SCMP[op]("(" + as_T(a, e) + ")", "(" + as_T(b, e) + ")"), "bool"
        fail(f"comparison of a {a[1]} with a {b[1]}", e)
    if isinstance(e, ast.BinOp) and type(e.op) in (ast.Add, ast.Sub, ast.Mult, ast.Div):
        a, b = as_T(tr(e.left, env), e), as_T(tr(e.right, env), e)
        op = {ast.Add: "nadd", ast.Sub: "nsub", ast.Mult: "nmul", ast.Div: "ndiv"}[type(e.op)]
        return f"{op} o ({a}) ({b})", "T"
    if isinstance(e, ast.Call):
        f = ast.unparse(e.func)
        kw = {k.arg: k.value for k in e.keywords}
        if f in ("np.any", "np.all") and len(e.args) == 1 and not kw:
            (t, k) = tr(e.args[0], env)
            q = "existsb" if f == "np.any" else "forallb"
            if k in ("vmask", "rmask"):
                return f"{q} {t[0]} {t[1]}", "bool"
            if k == "mmask":
                return f"{q} ({q} {t[0]}) {t[1]}", "bool"
            fail(f"{f} of a {k}", e)
        if isinstance(e.func, ast.Attribute) and e.func.attr == "sum" and not e.args and not kw and f != "np.sum":
            t, k = tr(e.func.value, env)
            if k != "vec": fail(".sum() of something that is not a vector", e)
            return f"suml o {t}", "T"
        if f == "np.sum" and len(e.args) == 1 and not kw:
            t, k = tr(e.args[0], env)
            if k != "vec": fail("np.sum of something that is not a vector", e)
            return f"suml o {t}", "T"
        if f == "np.sqrt" and len(e.args) == 1 and not kw:
            t, k = tr(e.args[0], env)
            if k == "row": return f"map (nsqrt o) {t}", "vec"
            return f"nsqrt o ({as_T((t, k), e)})", "T"
        if f == "np.isclose" and len(e.args) == 2 and set(kw) <= {"rtol", "atol"}:
            a, b = as_T(tr(e.args[0], env), e), as_T(tr(e.args[1], env), e)
            if not kw:
                return f"isclose o ({a}) ({b})", "bool"
            rt = as_T(tr(kw["rtol"], env), e) if "rtol" in kw else "rtol o"
            at = as_T(tr(kw["atol"], env), e) if "atol" in kw else "atol o"
            return f"isclose_with o ({rt}) ({at}) ({a}) ({b})", "bool"
        if f == "np.allclose" and len(e.args) == 2 and not kw:
            t, k = tr(e.args[0], env)
            if k == "mat" and ast.unparse(e.args[1]) == ast.unparse(e.args[0]) + ".T":
                return f"sym_close o {t}", "bool"
            fail("np.allclose of something else than a matrix and its transpose", e)
        fail(f"unknown call {f}", e)
    fail(f"unknown expression node {type(e).__name__}: {key[:80]}", e)


def guard(s, env, loopvar):
    """if <test>: raise ...      or      if <a>: if <b>: raise ...   ->  (test text, kind bool|obool, error text)"""
    if not isinstance(s, ast.If) or s.orelse or len(s.body) != 1:
        fail("expected `if <test>: raise ValueError(...)`", s)
    t, k = tr(s.test, env)
    if k == "rmask":                       # `if <row> <= 0:` - the truth value of an array
        t, k = f"truth1 (map {t[0]} {t[1]})", "obool"
    if k not in ("bool", "obool"):
        fail(f"the test of an `if` is a {k}", s)
    inner = s.body[0]
    if isinstance(inner, ast.If):
        t2, k2, err = guard(inner, env, loopvar)
        if k != "bool" or k2 != "bool":
            fail("nested array-truth tests are not supported", s)
        return f"({t}) && ({t2})", "bool", err
    return t, k, raise_site(inner, loopvar)


def chain(guards, rest):
    """guards in source order, then `rest`"""
    out = rest
    for t, k, err in reversed(guards):
        if k == "bool":
            out = f"if {t} then Some ({err}) else\n  {out}"
        else:
            out = f"match {t} with Some true => Some ({err}) | Some false => {out} | None => Some EArray end"
    return out


# ------------------------------------------------------------------ helpers for skeleton matching
def body_of(fn):
    b = list(fn.body)
    if b and isinstance(b[0], ast.Expr) and isinstance(b[0].value, ast.Constant) and isinstance(b[0].value.value, str):
        b = b[1:]
    return b


def lit(s, text, what):
    if ast.unparse(s) != text:
        fail(f"{what}: expected `{text}`, got `{ast.unparse(s)[:100]}`", s)


def check_array_call(s, name, want_flags):
    """<name> = check_array(<name>, <flags>, ensure_min_samples=<N>, input_name=...) -> N (1 when absent)"""
    if not (isinstance(s, ast.Assign) and len(s.targets) == 1 and ast.unparse(s.targets[0]) == name and isinstance(s.value, ast.Call)
            and ast.unparse(s.value.func) == "check_array" and len(s.value.args) == 1 and ast.unparse(s.value.args[0]) == name):
        fail(f"expected `{name} = check_array({name}, ...)`", s)
    kw = {k.arg: k.value for k in s.value.keywords}
    ms = 1
    if "ensure_min_samples" in kw:
        v = kw.pop("ensure_min_samples")
        if not (isinstance(v, ast.Constant) and isinstance(v.value, int) and 0 <= v.value <= 16):
            fail("ensure_min_samples is not a small integer literal", s)
        ms = v.value
    kw.pop("input_name", None)
    got = {k: ast.unparse(v) for k, v in kw.items()}
    if got != want_flags:
        fail(f"check_array flags of {name} changed: {got}, the model assumes {want_flags}", s)
    return ms


def size_arg(call, forms):
    kw = {k.arg: ast.unparse(k.value) for k in call.keywords}
    if set(kw) != {"size"} or kw["size"] not in forms:
        fail(f"size argument of {ast.unparse(call.func)} is not one of {forms}: {kw}", call)


def component_draw(loop, env_k, method, ctor):
    """for k in range(len(loc)): X += [generator.<method>(a, b, size=(n,))]  ->  Coq text of the request"""
    if not (isinstance(loop, ast.For) and not loop.orelse and isinstance(loop.target, ast.Name) and ast.unparse(loop.iter) in ("range(len(loc))", "range(K)")
            and len(loop.body) == 1):
        fail("expected `for k in range(len(loc)): X += [generator.<draw>(...)]`", loop)
    v = loop.target.id
    env_k = {(k.replace("[k]", f"[{v}]") if "[k]" in k else k): val for k, val in env_k.items() if k != "k"}
    env_k[v] = ("k", "nat")
    s = loop.body[0]
    ok = (isinstance(s, ast.AugAssign) and isinstance(s.op, ast.Add) and ast.unparse(s.target) == "X" and isinstance(s.value, ast.List)
          and len(s.value.elts) == 1 and isinstance(s.value.elts[0], ast.Call))
    if not ok:
        fail("expected `X += [generator.<draw>(...)]`", s)
    c = s.value.elts[0]
    if ast.unparse(c.func) != "generator." + method or len(c.args) != 2:
        fail(f"expected a call of generator.{method} with two positional arguments, got {ast.unparse(c)[:80]}", c)
    size_arg(c, ["(n,)"])
    a, ka = tr(c.args[0], env_k)
    b, kb = tr(c.args[1], env_k)
    want_b = "vec" if ctor == "CNormal" else "mat"
    if kb == "row":
        kb = "vec"
    if ka not in ("vec",) or kb != want_b:
        fail(f"arguments of generator.{method} have kinds {ka}/{kb}", c)
    return f"{ctor} ({a}) ({b}) n"


# ------------------------------------------------------------------ draw_gmm
def translate_gmm(fn, D):
    if [a.arg for a in fn.args.args] != ["n", "loc", "scale", "pvals", "random_state"]:
        fail("signature of draw_gmm changed", fn)
    b = body_of(fn)
    if len(b) < 10:
        fail("draw_gmm: body shorter than the modelled skeleton", fn)
    ml = check_array_call(b[0], "loc", {"ensure_2d": "True"})
    ms = check_array_call(b[1], "scale", {"allow_nd": "True"})
    mp = check_array_call(b[2], "pvals", {"ensure_2d": "False"})
    lit(b[3], "K, d = loc.shape", "draw_gmm")
    env = {"K": ("K", "nat"), "d": ("d", "nat"), "n": ("n", "nat"), "pvals": ("pvals", "vec"),
           "scale.shape[0]": ("scale_len scale", "nat"), "scale.shape[1]": ("scale_dim1 scale", "nat"),
           "scale.shape[2]": ("scale_dim2 scale", "nat"), "scale.ndim": ("scale_ndim scale", "nat"),
           "pvals.shape[0]": ("length pvals", "nat"), "len(pvals)": ("length pvals", "nat"), "len(loc)": ("length loc", "nat"),
           "loc.shape[0]": ("K", "nat"), "loc.shape[1]": ("d", "nat")}
    i = 4
    pre = []
    while i < len(b) and isinstance(b[i], ast.If):
        pre.append(guard(b[i], env, None))
        i += 1
    if any(k != "bool" for _, k, _ in pre):
        fail("draw_gmm: array-truth test before the draws")
    rest = b[i:]
    if len(rest) != 6:
        fail(f"draw_gmm: {len(rest)} statements after the parameter tests, the skeleton has 6", fn)
    lit(rest[0], "generator = check_random_state(random_state)", "draw_gmm")
    lit(rest[1], "X = []", "draw_gmm")
    # y = generator.choice(K, p=pvals, size=(n,))
    s = rest[2]
    if not (isinstance(s, ast.Assign) and ast.unparse(s.targets[0]) == "y" and isinstance(s.value, ast.Call)
            and ast.unparse(s.value.func) == "generator.choice" and len(s.value.args) == 1):
        fail("expected `y = generator.choice(<K>, p=<pvals>, size=(n,))`", s)
    kw = {k.arg: k.value for k in s.value.keywords}
    if set(kw) != {"p", "size"} or ast.unparse(kw["size"]) != "(n,)":
        fail("keywords of generator.choice changed", s)
    pk = tr(kw["p"], env)
    if pk[1] != "vec":
        fail("p= of generator.choice is not a vector", s)
    D["choice"] = f"CChoice ({as_nat(tr(s.value.args[0], env), s)}) ({pk[0]}) n"
    # if d == 1: <1-D branch> else: <n-D branch>
    br = rest[3]
    if not (isinstance(br, ast.If) and len(br.body) == 2 and len(br.orelse) == 2):
        fail("expected `if d == 1: <checks; draws> else: <checks; draws>`", br)
    bt, bk = tr(br.test, env)
    if bt != "(d =? 1)":
        fail("the branch test is not `d == 1`: " + ast.unparse(br.test), br)
    D["branch"] = bt

    def loop_guards(loop, kind):
        if not (isinstance(loop, ast.For) and not loop.orelse and isinstance(loop.target, ast.Name) and ast.unparse(loop.iter) in ("range(K)", "range(len(loc))")):
            fail("expected `for k in range(K): <tests>`", loop)
        v = loop.target.id
        if v in env or v in ("loc", "scale", "X", "y", "generator"):
            fail(f"loop variable {v} shadows a name of the model", loop)
        ek = dict(env)
        ek[v] = ("k", "nat")
        ek[f"scale[{v}]"] = ("scale_k", kind)
        ek[f"loc[{v}]"] = ("loc_k", "vec")
        if kind == "mat":
            ek[f"np.linalg.eigvalsh(scale[{v}])"] = ("(eig k)", "vec")
        gs = [guard(g, ek, v) for g in loop.body]
        if not gs:
            fail("empty validation loop", loop)
        return chain(gs, "None"), ek

    one, _ = loop_guards(br.body[0], "row")
    many, _ = loop_guards(br.orelse[0], "mat")
    ek1 = dict(env, **{"k": ("k", "nat"), "scale[k]": ("scale_k", "row"), "loc[k]": ("loc_k", "vec")})
    ekn = dict(env, **{"k": ("k", "nat"), "scale[k]": ("scale_k", "mat"), "loc[k]": ("loc_k", "vec")})
    D["check_rows"] = one
    D["check_mats"] = many
    D["call_rows"] = component_draw(br.body[1], ek1, "normal", "CNormal")
    D["call_mats"] = component_draw(br.orelse[1], ekn, "multivariate_normal", "CMvn")
    D["pre"] = chain(pre, f"if {bt} then for_rows scale (fun k scale_k => {one})\n  else for_mats scale (fun k scale_k => {many})")
    D["min_samples"] = f"{ml} {ms} {mp}"
    # X = [X[k][i].reshape((1, -1)) for i, k in enumerate(y)]
    s = rest[4]
    lc = s.value if isinstance(s, ast.Assign) and ast.unparse(s.targets[0]) == "X" else None
    ok = (isinstance(lc, ast.ListComp) and len(lc.generators) == 1 and not lc.generators[0].ifs and not lc.generators[0].is_async
          and ast.unparse(lc.generators[0].iter) == "enumerate(y)" and isinstance(lc.generators[0].target, ast.Tuple)
          and len(lc.generators[0].target.elts) == 2 and all(isinstance(t, ast.Name) for t in lc.generators[0].target.elts))
    if not ok:
        fail("expected `X = [<X[..][..]>.reshape((1, -1)) for <i>, <k> in enumerate(y)]`", s)
    iv, kv = (t.id for t in lc.generators[0].target.elts)
    if iv == kv:
        fail("the two targets of enumerate(y) have the same name", s)
    sel = {iv: "(fst ik)", kv: "(snd ik)"}
    el = lc.elt
    ok = (isinstance(el, ast.Call) and isinstance(el.func, ast.Attribute) and el.func.attr == "reshape" and not el.keywords
          and [ast.unparse(a) for a in el.args] == ["(1, -1)"] and isinstance(el.func.value, ast.Subscript)
          and isinstance(el.func.value.value, ast.Subscript) and ast.unparse(el.func.value.value.value) == "X"
          and isinstance(el.func.value.slice, ast.Name) and isinstance(el.func.value.value.slice, ast.Name)
          and el.func.value.slice.id in sel and el.func.value.value.slice.id in sel)
    if not ok:
        fail("the selected element is not `X[<a>][<b>].reshape((1, -1))` over the enumerate variables", s)
    D["select"] = f"nth {sel[el.func.value.slice.id]} (nth {sel[el.func.value.value.slice.id]} X []) dflt"
    lit(rest[5], "return (np.concatenate(X, axis=0), y)", "draw_gmm")


# ------------------------------------------------------------------ multivariate_student_t
def entry_expr(e, roles):
    """element-wise expression over df (scalar), u (column), nx (matrix), loc.reshape((1,-1)) (row)"""
    key = ast.unparse(e)
    if key in roles:
        return roles[key]
    if isinstance(e, ast.Constant) and isinstance(e.value, (int, float)) and not isinstance(e.value, bool):
        return scalar_lit(e.value, e)
    if isinstance(e, ast.BinOp) and type(e.op) in (ast.Add, ast.Sub, ast.Mult, ast.Div):
        op = {ast.Add: "nadd", ast.Sub: "nsub", ast.Mult: "nmul", ast.Div: "ndiv"}[type(e.op)]
        return f"{op} o ({entry_expr(e.left, roles)}) ({entry_expr(e.right, roles)})"
    if isinstance(e, ast.UnaryOp) and isinstance(e.op, ast.USub):
        return f"nneg o ({entry_expr(e.operand, roles)})"
    if isinstance(e, ast.Call) and ast.unparse(e.func) == "np.sqrt" and len(e.args) == 1 and not e.keywords:
        return f"nsqrt o ({entry_expr(e.args[0], roles)})"
    fail(f"unknown node in the Student-t expression: {key[:80]}", e)


def translate_student(fn, D):
    if [a.arg for a in fn.args.args] != ["n", "loc", "scale", "df", "random_state"]:
        fail("signature of multivariate_student_t changed", fn)
    b = body_of(fn)
    if len(b) != 9:
        fail(f"multivariate_student_t: {len(b)} statements, the skeleton has 9", fn)
    if check_array_call(b[0], "loc", {"ensure_2d": "False"}) != 1 or check_array_call(b[1], "scale", {"ensure_2d": "True"}) != 1:
        fail("multivariate_student_t: ensure_min_samples is not part of the model", b[0])
    lit(b[2], "d = len(loc)", "multivariate_student_t")
    env = {"d": ("d", "nat"), "n": ("n", "nat"), "scale.shape[0]": ("length scale", "nat"), "scale.shape[1]": ("length (hd [] scale)", "nat"),
           "len(loc)": ("d", "nat"), "loc.shape[0]": ("d", "nat")}
    t, k, _ = guard_any_message(b[3], env)
    D["st_check"] = f"negb ({t})"
    lit(b[4], "generator = check_random_state(random_state)", "multivariate_student_t")
    calls, pats, roles = [], [], {"df": "df"}
    for s in b[5:7]:
        if not (isinstance(s, ast.Assign) and len(s.targets) == 1 and isinstance(s.targets[0], ast.Name) and isinstance(s.value, ast.Call)):
            fail("expected `<name> = generator.<draw>(...)`", s)
        name, c = s.targets[0].id, s.value
        col = False
        if isinstance(c.func, ast.Attribute) and c.func.attr == "reshape" and isinstance(c.func.value, ast.Call):
            if [ast.unparse(a) for a in c.args] != ["(-1, 1)"] or c.keywords:
                fail("only .reshape((-1, 1)) of a drawn vector is modelled", s)
            c, col = c.func.value, True
        f = ast.unparse(c.func)
        if f == "generator.multivariate_normal" and not col and len(c.args) == 2:
            size_arg(c, ["n", "(n,)"])
            if ast.unparse(c.args[0]) not in ("np.zeros(d)", "np.zeros(len(loc))") or ast.unparse(c.args[1]) != "scale":
                fail("the normal draw is not multivariate_normal(np.zeros(d), scale, size=n)", s)
            calls.append("CMvn (repeat (n0 o) (length loc)) scale n")
            pats.append(f"DMat {name}")
            roles[name] = f"{name}_ij"
            mat_name = name
        elif f == "generator.chisquare" and col and len(c.args) == 2 and not c.keywords:
            if [ast.unparse(a) for a in c.args] != ["df", "n"]:
                fail("the chi-square draw is not chisquare(df, n)", s)
            calls.append("CChisq df n")
            pats.append(f"DVec {name}")
            roles[name] = f"{name}_i"
            col_name = name
        else:
            fail(f"unknown draw {ast.unparse(s)[:80]}", s)
    if len(set(pats)) != 2 or {p.split()[0] for p in pats} != {"DMat", "DVec"}:
        fail("multivariate_student_t does not make exactly one matrix draw and one column draw")
    s = b[7]
    if not (isinstance(s, ast.Assign) and ast.unparse(s.targets[0]) == "X"):
        fail("expected `X = <element-wise expression>`", s)
    roles["loc.reshape((1, -1))"] = "loc_j"
    D["st_entry_args"] = f"(df {col_name}_i {mat_name}_ij loc_j : T)"
    D["st_entry"] = entry_expr(s.value, roles)
    D["st_calls"] = "[" + "; ".join(calls) + "]"
    D["st_pats"] = "[" + "; ".join(pats) + "]"
    D["st_rows"] = f"entry_rows (gen_student_entry o df) loc {mat_name} {col_name}"
    lit(b[8], "return X", "multivariate_student_t")


def guard_any_message(s, env):
    """if <test>: raise ValueError(<any message>)"""
    if not (isinstance(s, ast.If) and not s.orelse and len(s.body) == 1 and isinstance(s.body[0], ast.Raise)
            and isinstance(s.body[0].exc, ast.Call) and ast.unparse(s.body[0].exc.func) == "ValueError"):
        fail("expected `if <test>: raise ValueError(...)`", s)
    t, k = tr(s.test, env)
    if k != "bool":
        fail("the shape test is not a boolean", s)
    return t, k, None


TEMPLATE = """(* GENERATED by translator/tr_datagen.py - do not edit.
   Source: gemclus/data/synthetic_data.py  sha256 {sha}
   draw_gmm lines {g0}-{g1}, multivariate_student_t lines {s0}-{s1}
   The validation tests of draw_gmm in source order (one `if .. then Some <raise site>` per `if ..: raise`), its draw
   protocol, its row selection, and multivariate_student_t, translated whole over the vocabulary of Model/DataGen.v.
   Proved equal to the hand-written model in Proofs/DataGenRules.v. *)
From Coq Require Import List Arith Bool.
From GV Require Import Common.Num Model.DataGen.
Import ListNotations.

(* X = [X[..][..].reshape((1, -1)) for .., .. in enumerate(y)] *)
Definition gen_gmm_select {{A : Type}} (dflt : A) (y : list nat) (X : list (list A)) : list A :=
  map (fun ik => {select}) (indexed y).

(* (explicit binders rather than a Section: the type of a definition must not depend on whether its body uses `o`) *)

(* check_array(.., ensure_min_samples=..) x 3, then every `if <test>: raise ValueError(..)` of draw_gmm, in source order *)
Definition gen_gmm_check {{T : Type}} (o : NumOps T) (g : gmm_in (T := T)) (eig : nat -> list T) : option gmm_err :=
  let loc := g_loc g in let scale := g_scale g in let pvals := g_p g in
  if array_check {min_samples} g then Some EArrayCheck else
  let K := g_K g in let d := g_d g in
  {pre}.

(* y = generator.choice(..); then one request per component in the branch of `if d == 1` *)
Definition gen_gmm_calls {{T : Type}} (o : NumOps T) (n : nat) (g : gmm_in (T := T)) : list (call (T := T)) :=
  let loc := g_loc g in let scale := g_scale g in let pvals := g_p g in
  let K := g_K g in let d := g_d g in
  {choice} ::
  (if {branch} then comp_calls_rows scale loc (fun loc_k scale_k => {call_rows})
   else comp_calls_mats scale loc (fun loc_k scale_k => {call_mats})).

(* first answer: y; the others: X[0], X[1], ..; return np.concatenate(X, axis=0), y *)
Definition gen_gmm_run {{T : Type}} (rs : list (draw (T := T))) : option (list (list T) * list nat) :=
  match rs with
  | DLabels y :: comps =>
      match all_some (map comp_rows comps) with Some X => Some (gen_gmm_select [] y X, y) | None => None end
  | _ => None
  end.

(* multivariate_student_t: `if <shape test>: raise`  ->  accepted iff the test is false *)
Definition gen_student_check {{T : Type}} (loc : list T) (scale : list (list T)) : bool :=
  let d := length loc in {st_check}.
(* the two draws, in statement order *)
Definition gen_student_calls {{T : Type}} (o : NumOps T) (n : nat) (loc : list T) (scale : list (list T)) (df : T) : list (call (T := T)) :=
  {st_calls}.
(* X = <expression>, one entry *)
Definition gen_student_entry {{T : Type}} (o : NumOps T) {st_entry_args} : T :=
  {st_entry}.
Definition gen_student_run {{T : Type}} (o : NumOps T) (df : T) (loc : list T) (rs : list (draw (T := T))) : option (list (list T)) :=
  match rs with {st_pats} => Some ({st_rows}) | _ => None end.
(* EXTRACT: gen_gmm_check gen_gmm_calls gen_gmm_run gen_student_check gen_student_calls gen_student_run *)
"""


def translate():
    raw = open(SRC, "rb").read()
    mod = ast.parse(raw.decode("utf-8"))
    fns = {n.name: n for n in mod.body if isinstance(n, ast.FunctionDef)}
    for name in ("draw_gmm", "multivariate_student_t"):
        if name not in fns:
            fail(f"function {name} not found")
    D = {"sha": hashlib.sha256(raw).hexdigest(),
         "g0": fns["draw_gmm"].lineno, "g1": fns["draw_gmm"].end_lineno,
         "s0": fns["multivariate_student_t"].lineno, "s1": fns["multivariate_student_t"].end_lineno}
    translate_gmm(fns["draw_gmm"], D)
    translate_student(fns["multivariate_student_t"], D)
    return TEMPLATE.format(**D)


def main():
    try:
        text = translate()
    except Unknown as e:
        print(f"tr_datagen: cannot translate {SRC}: {e}", file=sys.stderr)
        return 3
    except Exception as e:  # noqa  (anything unexpected is a failure to translate, never a partial output)
        print(f"tr_datagen: {type(e).__name__}: {e}", file=sys.stderr)
        return 3
    old = open(OUT).read() if os.path.exists(OUT) else None
    if old != text:
        with open(OUT, "w") as f:
            f.write(text)
        print(f"tr_datagen: wrote {OUT}")
        for sub, base in DEPENDENTS:
            for ext in (".vo", ".vos", ".vok", ".glob"):
                stale = os.path.join(ROOT, "coq", sub, base + ext)
                if os.path.exists(stale):
                    os.remove(stale)
    else:
        print("tr_datagen: unchanged")
    return 0


if __name__ == "__main__":
    sys.exit(main())
