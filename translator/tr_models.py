#!/usr/bin/env python3
"""Fail-closed, shape-aware symbolic translator of the MODEL code of the gradient-trained estimators:

     gemclus/linear/_linear_geminis.py          LinearModel._infer / _compute_grads, RIM._update_weights,
                                                KernelRIM._compute_grads (through super()._compute_grads)
     gemclus/mlp/_mlp_geminis.py                MLPModel._infer / _compute_grads
     gemclus/sparse/_mlp_sparse.py              SparseMLPModel._infer / _compute_grads
     gemclus/nonparametric/_categorical_models.py   CategoricalModel._infer / _compute_grads
                                                                                   ->  coq/Gen/Models.v

The straight-line numpy code is interpreted symbolically over abstract arrays with symbolic shapes (dimensions
are the symbols n = batch rows, d = features, h = hidden units, K = clusters, nt = training points of KernelRIM,
or the literal 1).  Every array is a function of its indices; every Python variable that is assigned becomes a
Gallina `let`; sums become `bsum o dim (fun j => ...)`; the grouping of the arithmetic is the grouping of the
source (nothing is re-associated, distributed or simplified).  Only what a definition READS appears in its
signature (dimensions, attributes, method arguments, in a fixed order), so a new read changes the signature.

Vocabulary (anything else aborts with a non-zero exit status WITHOUT writing; the build prints TRANSLATOR-FAIL):
  methods      _infer(self, X, retain=True) ; _compute_grads(self, X, y_pred, gradient) ;
               _update_weights(self, weights, gradients) ; _get_weights(self): return [self.a_, ...]
  statements   x = e ; x op= e (op in + - * /, same shape) ; lst[c] += e (element of a list of arrays, same
               shape) ; self.H_ = e (recorded write, only in _infer) ; if retain / if not retain ; return e ;
               self.optimiser_.update_params(weights, gradients) as the last statement of _update_weights ;
               docstrings
  expressions  method arguments, assigned names, self.<attr> for the attributes of the table SPECS (fitted
               arrays with their shapes, the hyper-parameter reg), literals 0 1 2 0.5 and small non-negative
               integers, unary -, + - * / with numpy broadcasting, > < >= <= (masks), & | on masks,
               a @ b / np.dot(a, b) / np.matmul(a, b) on rank-2 operands, x.T / np.transpose(x) of a rank-2
               array, np.maximum(a, b), np.sum / .sum (axis = integer or none, keepdims),
               softmax(x) of a rank-2 array (the name imported from sklearn.utils.extmath): OPAQUE, mapped to
               Model/Forward.v's `softmax o <number of columns>`,
               [e, ...] (list of arrays), super().<same method>(<args>) (single inheritance, same module)
Conventions   mask * float: the mask entry is `if b then n1 o else n0 o`; 0.5 is n1/n2; -x is nneg x = 0 - x;
               np.maximum(a, b) is nmax a b = if a < b then b else a; a sum over a unit axis is the element;
               a sum over several axes nests with the first axis outermost.
Checked       the list returned by _compute_grads has the length, order and shapes of the attributes listed by
               _get_weights (that is how the definitions get their suffixes); the value returned by _infer does
               not depend on `retain`, and retain=False writes nothing.
Assumed (call protocol of DiscriminativeModel.fit, not read here): `y_pred = self._infer(X_batch)` (retain=True)
               and then `self._compute_grads(X_batch, y_pred, grads)`: the `self.H_` read by _compute_grads is
               the array written by that _infer call (gen_*_retained_H of the same X).

  tr_models.py            regenerate coq/Gen/Models.v (rewritten only when its text changes; when it is rewritten
                          the compiled objects of Proofs/ModelsGen.v and of the two Props/*gen.v files that depend
                          on it are removed so that the build must re-prove them)
  tr_models.py --python   print the same symbolic terms as plain Python functions (stdout); writes nothing
"""
import ast
import hashlib
import os
import re
import sys

ROOT = os.path.dirname(os.path.dirname(os.path.abspath(__file__)))
REPO = os.environ.get("VERIF_REPO", "/repo")
OUT = os.path.join(ROOT, "coq", "Gen", "Models.v")

FILES = {
    "linear": "gemclus/linear/_linear_geminis.py",
    "mlp": "gemclus/mlp/_mlp_geminis.py",
    "sparse": "gemclus/sparse/_mlp_sparse.py",
    "categorical": "gemclus/nonparametric/_categorical_models.py",
}

DIM_ORDER = ["n", "d", "nt", "h", "K"]
DIM_INDEX = {"n": "i", "d": "j", "nt": "l", "h": "c", "K": "k"}

# family -> (file key, class, attributes the methods may read: name -> shape, shape of X)
SPECS = {
    "linear": ("linear", "LinearModel", [("W_", ("d", "K")), ("b_", (1, "K"))], ("n", "d")),
    "rim": ("linear", "RIM", [("W_", ("d", "K")), ("b_", (1, "K")), ("reg", ())], ("n", "d")),
    "kernel_rim": ("linear", "KernelRIM",
                   [("W_", ("nt", "K")), ("b_", (1, "K")), ("training_kernel_", ("nt", "nt")), ("reg", ())], ("n", "nt")),
    "mlp": ("mlp", "MLPModel",
            [("W1_", ("d", "h")), ("b1_", (1, "h")), ("W2_", ("h", "K")), ("b2_", (1, "K")), ("H_", ("n", "h"))], ("n", "d")),
    "sparse_mlp": ("sparse", "SparseMLPModel",
                   [("W1_", ("d", "h")), ("b1_", (1, "h")), ("W2_", ("h", "K")), ("b2_", (1, "K")), ("W_skip_", ("d", "K")),
                    ("H_", ("n", "h"))], ("n", "d")),
    "categorical": ("categorical", "CategoricalModel", [("logits_", ("n", "K"))], ("n", "d")),
}
WRITABLE = {"H_"}          # attributes _infer may write (retained state)
ARG_ORDER = ["X", "y_pred", "gradient", "gradients_0", "gradients_1", "gradients_2", "gradients_3", "gradients_4"]

RESERVED = set("""o T i j c k l n d nt h K n0 n1 n2 nadd nsub nmul ndiv nsqrt nln nexp nabs nltb nleb neqb nofnat nmax nmin
 nneg bsum lsum norm2 nclip nsign andb orb negb nat bool true false fun let in if then else match with end forall
 exists return as at fix cofix for using where Prop Set Type mod IF Definition Lemma Theorem Proof Qed
 softmax softmax_row vmax affine matmul relu linear_infer mlp_hidden mlp_infer sparse_mlp_infer categorical_infer
 kernel_rim_infer argmax_row Mat X y_pred gradient self np
 math lambda None True False""".split())
for _f, _c, _attrs, _x in SPECS.values():
    for _a, _s in _attrs:
        RESERVED.add(_a)
for _a in ARG_ORDER:
    RESERVED.add(_a)


class Fail(Exception):
    pass


def fail(msg, node=None):
    where = f" (line {getattr(node, 'lineno', '?')})" if node is not None else ""
    raise Fail(msg + where)


def die(msg):
    sys.stderr.write("tr_models: FAIL-CLOSED: " + msg + "\n")
    sys.exit(2)


# ------------------------------------------------------------------------------------------- values
class Arr:
    """abstract array: shape = tuple of dimension symbols | 1 ; kind 'f' (float) or 'b' (mask) ;
    fn(list of index terms, None at unit positions) -> term ; pyint marks a Python integer scalar."""

    def __init__(self, shape, kind, fn, pyint=None):
        self.shape, self.kind, self.fn, self.pyint = tuple(shape), kind, fn, pyint


class ListV:
    """a Python list of arrays (mutable, shared by reference like the Python object)"""

    def __init__(self, items):
        self.items = list(items)


class Opaque:
    """a value that may only be passed on (the `weights` argument of _update_weights)"""

    def __init__(self, what):
        self.what = what


def at(x, idx):
    if len(idx) != len(x.shape):
        raise Fail("internal: rank mismatch")
    clean = []
    for d, ix in zip(x.shape, idx):
        if d == 1:
            clean.append(None)
        else:
            if ix is None:
                raise Fail("internal: missing index on a non-unit axis")
            clean.append(ix)
    return x.fn(clean)


def scalar(term, pyint=None):
    return Arr((), "f", lambda idx: term, pyint)


def as_float(x, t):
    return ("ofbool", t) if x.kind == "b" else t


def broadcast(sa, sb, node):
    r = max(len(sa), len(sb))
    pa, pb = (1,) * (r - len(sa)) + tuple(sa), (1,) * (r - len(sb)) + tuple(sb)
    out = []
    for x, y in zip(pa, pb):
        if x == y:
            out.append(x)
        elif x == 1:
            out.append(y)
        elif y == 1:
            out.append(x)
        else:
            fail(f"shapes {sa} and {sb} do not broadcast", node)
    return tuple(out)


def tail(idx, x):
    return list(idx[len(idx) - len(x.shape):]) if x.shape else []


def input_array(name, shape):
    return Arr(shape, "f", lambda idx, name=name: ("in", name, tuple(ix for ix in idx if ix is not None)))


# ------------------------------------------------------------------------------------------- interpreter
class Interp:
    def __init__(self, module, family, retain):
        self.module = module                  # parsed module (ModuleInfo)
        self.family = family
        self.attrs = dict(SPECS[family][2])
        self.flags = {"retain": retain}
        self.env = {}
        self.lets = []                        # (uid, [(param, dim)], kind, term)
        self.used = set()
        self.counter = 0
        self.writes = {}                      # attribute -> Arr
        self.penalties = []                   # (list value, index, Arr broadcast to the element's shape)
        self.handed = None                    # the list passed to optimiser_.update_params
        self.cls = None                       # class whose method is being interpreted (for super())
        self.method = None

    def fresh(self, dim):
        self.counter += 1
        return ("ix", DIM_INDEX[dim] + str(self.counter))

    # ---- helpers
    def const_int(self, e):
        if isinstance(e, ast.Constant) and isinstance(e.value, int) and not isinstance(e.value, bool):
            return e.value
        if isinstance(e, ast.UnaryOp) and isinstance(e.op, ast.USub) and isinstance(e.operand, ast.Constant) \
                and isinstance(e.operand.value, int) and not isinstance(e.operand.value, bool):
            return -e.operand.value
        fail("integer literal expected", e)

    def args(self, call, names, required, skip=0):
        got = {}
        pos = call.args[skip:]
        if len(pos) > len(names):
            fail("too many arguments", call)
        for a in pos:
            if isinstance(a, ast.Starred):
                fail("starred argument", call)
        for nm, a in zip(names, pos):
            got[nm] = a
        for kw in call.keywords:
            if kw.arg is None or kw.arg not in names or kw.arg in got:
                fail(f"keyword {kw.arg!r} not in the vocabulary of this call", call)
            got[kw.arg] = kw.value
        for nm in required:
            if nm not in got:
                fail(f"argument {nm} missing", call)
        return got

    def axis_of(self, e, rank, node):
        a = self.const_int(e)
        if a < 0:
            a += rank
        if not 0 <= a < rank:
            fail("axis out of range", node)
        return a

    def arr(self, v, node, what="operand"):
        if not isinstance(v, Arr):
            fail(f"{what} is not an array", node)
        return v

    # ---- array operations
    def binop(self, op, a, b, node):
        a, b = self.arr(a, node), self.arr(b, node)
        if a.pyint is not None and b.pyint is not None:
            fail("integer arithmetic between two Python integers", node)
        if a.kind == "b" and b.kind == "b":
            fail("arithmetic between two masks", node)
        shape = broadcast(a.shape, b.shape, node)

        def fn(idx):
            return (op, as_float(a, at(a, tail(idx, a))), as_float(b, at(b, tail(idx, b))))
        return Arr(shape, "f", fn)

    def compare(self, op, a, b, node):
        a, b = self.arr(a, node), self.arr(b, node)
        if a.kind != "f" or b.kind != "f":
            fail("comparison of masks", node)
        shape = broadcast(a.shape, b.shape, node)
        if isinstance(op, ast.Gt):
            mk = lambda x, y: ("ltb", y, x)
        elif isinstance(op, ast.Lt):
            mk = lambda x, y: ("ltb", x, y)
        elif isinstance(op, ast.GtE):
            mk = lambda x, y: ("leb", y, x)
        elif isinstance(op, ast.LtE):
            mk = lambda x, y: ("leb", x, y)
        else:
            fail("comparison " + type(op).__name__, node)
        return Arr(shape, "b", lambda idx: mk(at(a, tail(idx, a)), at(b, tail(idx, b))))

    def logic(self, op, a, b, node):
        a, b = self.arr(a, node), self.arr(b, node)
        if a.kind != "b" or b.kind != "b":
            fail("& / | on non-masks", node)
        shape = broadcast(a.shape, b.shape, node)
        return Arr(shape, "b", lambda idx: (op, at(a, tail(idx, a)), at(b, tail(idx, b))))

    def unary(self, op, x, node):
        x = self.arr(x, node)
        if x.kind != "f" or x.pyint is not None:
            fail("numeric function of a mask or of a Python integer", node)
        return Arr(x.shape, "f", lambda idx: (op, at(x, idx)))

    def maximum(self, a, b, node):
        a, b = self.arr(a, node), self.arr(b, node)
        if a.kind != "f" or b.kind != "f" or (a.pyint is not None and b.pyint is not None):
            fail("np.maximum of masks or of two Python integers", node)
        shape = broadcast(a.shape, b.shape, node)
        return Arr(shape, "f", lambda idx: ("max", at(a, tail(idx, a)), at(b, tail(idx, b))))

    def reduce(self, x, axis_node, keep_node, node):
        x = self.arr(x, node)
        if x.kind != "f" or x.pyint is not None:
            fail("sum of a mask or of a Python integer", node)
        rank = len(x.shape)
        if rank == 0:
            fail("sum of a scalar", node)
        if axis_node is None or (isinstance(axis_node, ast.Constant) and axis_node.value is None):
            axes = list(range(rank))
        else:
            axes = [self.axis_of(axis_node, rank, node)]
        keep = False
        if keep_node is not None:
            if not (isinstance(keep_node, ast.Constant) and isinstance(keep_node.value, bool)):
                fail("keepdims must be a literal boolean", node)
            keep = keep_node.value
        shape = tuple((1 if d in axes else x.shape[d]) for d in range(rank) if keep or d not in axes)
        red = [d for d in axes if x.shape[d] != 1]

        def fn(idx):
            it = iter(idx)
            full = []
            for d in range(rank):
                if d in axes:
                    if keep:
                        next(it)
                    full.append(None)
                else:
                    full.append(next(it))
            vs = {}
            for d in red:
                vs[d] = self.fresh(x.shape[d])
                full[d] = vs[d]
            t = at(x, full)
            for d in reversed(red):
                t = ("sum", x.shape[d], vs[d][1], t)
            return t
        return Arr(shape, "f", fn)

    def matmul(self, a, b, node):
        a, b = self.arr(a, node), self.arr(b, node)
        if a.kind != "f" or b.kind != "f" or a.pyint is not None or b.pyint is not None:
            fail("matrix product of masks or Python integers", node)
        if len(a.shape) != 2 or len(b.shape) != 2:
            fail("matrix product is only known on rank-2 operands", node)
        q = a.shape[1]
        if q != b.shape[0]:
            fail(f"matrix product: inner dimensions {a.shape} / {b.shape} differ", node)

        def fn(idx):
            p, r = idx
            if q == 1:
                return ("mul", at(a, [p, None]), at(b, [None, r]))
            j = self.fresh(q)
            return ("sum", q, j[1], ("mul", at(a, [p, j]), at(b, [j, r])))
        return Arr((a.shape[0], b.shape[1]), "f", fn)

    def transpose(self, x, node):
        x = self.arr(x, node)
        if x.pyint is not None or len(x.shape) != 2:
            fail("transpose is only known on rank-2 arrays", node)
        return Arr((x.shape[1], x.shape[0]), x.kind, lambda idx: at(x, [idx[1], idx[0]]))

    def softmax(self, x, node):
        x = self.arr(x, node)
        if x.kind != "f" or x.pyint is not None or len(x.shape) != 2 or x.shape[1] == 1 or x.shape[0] == 1:
            fail("softmax is only known on a float matrix with symbolic dimensions", node)
        rows, cols = x.shape

        def fn(idx):
            a, b = self.fresh(rows), self.fresh(cols)
            return ("softmax", cols, a[1], b[1], at(x, [a, b]), idx[0], idx[1])
        return Arr(x.shape, "f", fn)

    # ---- expressions
    def ev(self, e):
        if isinstance(e, ast.Constant):
            v = e.value
            if isinstance(v, bool) or not isinstance(v, (int, float)):
                fail("constant " + repr(v), e)
            if isinstance(v, float):
                if v == 0.5:
                    return scalar(("half",))
                if not (v.is_integer() and 0 <= v <= 4096):
                    fail(f"float literal {v!r} outside the vocabulary", e)
                m, py = int(v), None
            else:
                if not 0 <= v <= 4096:
                    fail(f"integer literal {v!r} outside the vocabulary", e)
                m, py = v, ("lit", v)
            t = ("n0",) if m == 0 else ("n1",) if m == 1 else ("n2",) if m == 2 else ("ofn", (m,))
            return scalar(t, py)
        if isinstance(e, ast.Name):
            if e.id in self.env:
                return self.env[e.id]
            fail("name " + e.id + " is not known here", e)
        if isinstance(e, ast.Attribute):
            if isinstance(e.value, ast.Name) and e.value.id == "self":
                if e.attr in self.attrs:
                    return input_array(e.attr, self.attrs[e.attr])
                fail("attribute " + ast.unparse(e) + " is not in the table of this family", e)
            if e.attr == "T":
                return self.transpose(self.ev(e.value), e)
            fail("attribute " + ast.unparse(e), e)
        if isinstance(e, ast.UnaryOp):
            if isinstance(e.op, ast.USub):
                return self.unary("neg", self.ev(e.operand), e)
            if isinstance(e.op, ast.UAdd):
                return self.arr(self.ev(e.operand), e)
            fail("unary " + type(e.op).__name__, e)
        if isinstance(e, ast.BinOp):
            a, b = self.ev(e.left), self.ev(e.right)
            ops = {ast.Add: "add", ast.Sub: "sub", ast.Mult: "mul", ast.Div: "div"}
            if type(e.op) in ops:
                return self.binop(ops[type(e.op)], a, b, e)
            if isinstance(e.op, ast.BitAnd):
                return self.logic("andb", a, b, e)
            if isinstance(e.op, ast.BitOr):
                return self.logic("orb", a, b, e)
            if isinstance(e.op, ast.MatMult):
                return self.matmul(a, b, e)
            fail("operator " + type(e.op).__name__, e)
        if isinstance(e, ast.Compare):
            if len(e.ops) != 1:
                fail("chained comparison", e)
            return self.compare(e.ops[0], self.ev(e.left), self.ev(e.comparators[0]), e)
        if isinstance(e, ast.List):
            items = []
            for x in e.elts:
                if isinstance(x, ast.Starred):
                    fail("starred list element", e)
                v = self.arr(self.ev(x), x, "list element")
                if v.pyint is not None or v.kind != "f":
                    fail("list element is not a float array", x)
                items.append(v)
            return ListV(items)
        if isinstance(e, ast.Call):
            return self.call(e)
        fail("expression " + type(e).__name__, e)

    def call(self, c):
        f = c.func
        if isinstance(f, ast.Name):
            if f.id == "softmax":
                if not self.module.sm_ok:
                    fail("softmax is not imported from sklearn.utils.extmath in this module", c)
                if c.keywords or len(c.args) != 1 or isinstance(c.args[0], ast.Starred):
                    fail("softmax takes exactly one positional argument here", c)
                return self.softmax(self.ev(c.args[0]), c)
            fail("call " + f.id, c)
        if not isinstance(f, ast.Attribute):
            fail("call " + ast.unparse(f), c)
        # super().<method>(args)
        if isinstance(f.value, ast.Call) and isinstance(f.value.func, ast.Name) and f.value.func.id == "super":
            if f.value.args or f.value.keywords:
                fail("super() with arguments", c)
            if f.attr != self.method:
                fail("super() call of another method", c)
            if c.keywords or any(isinstance(a, ast.Starred) for a in c.args):
                fail("super() call with keywords / starred arguments", c)
            parent = self.module.parent_with(self.cls, f.attr, c)
            return self.invoke(parent, f.attr, [self.ev(a) for a in c.args], c)
        if isinstance(f.value, ast.Name) and f.value.id == "np":
            if not self.module.np_ok:
                fail("np is not `import numpy as np` in this module", c)
            nm = f.attr
            if nm in ("dot", "matmul"):
                g = self.args(c, ["a", "b"], ["a", "b"])
                return self.matmul(self.ev(g["a"]), self.ev(g["b"]), c)
            if nm == "maximum":
                g = self.args(c, ["x1", "x2"], ["x1", "x2"])
                return self.maximum(self.ev(g["x1"]), self.ev(g["x2"]), c)
            if nm == "sum":
                g = self.args(c, ["a", "axis", "keepdims"], ["a"])
                return self.reduce(self.ev(g["a"]), g.get("axis"), g.get("keepdims"), c)
            if nm == "transpose":
                g = self.args(c, ["a"], ["a"])
                return self.transpose(self.ev(g["a"]), c)
            fail("np." + nm + " is not in the vocabulary", c)
        # methods of arrays
        x = self.arr(self.ev(f.value), c, "receiver of ." + f.attr)
        if x.pyint is not None:
            fail("method of a Python integer", c)
        if f.attr == "sum":
            g = self.args(c, ["axis", "keepdims"], [])
            return self.reduce(x, g.get("axis"), g.get("keepdims"), c)
        fail("method ." + f.attr + " is not in the vocabulary", c)

    # ---- statements
    def bind(self, name, v, node):
        if not re.fullmatch(r"[A-Za-z][A-Za-z0-9_]*", name) or name in RESERVED or re.fullmatch(r"[ijckl]\d+", name) \
                or re.fullmatch(r".*_v\d+", name) or name.startswith("gen_"):
            fail("variable name " + name + " collides with the generated vocabulary", node)
        if isinstance(v, ListV):
            self.env[name] = v
            return
        v = self.arr(v, node, "assigned value")
        if v.pyint is not None:
            self.env[name] = v
            return
        uid, c = name, 1
        while uid in self.used:
            c += 1
            uid = f"{name}_v{c}"
        self.used.add(uid)
        params = [(self.fresh(d), d) for d in v.shape if d != 1]
        it = iter(p for p, _ in params)
        term = at(v, [None if d == 1 else next(it) for d in v.shape])
        self.lets.append((uid, [(p[1], d) for p, d in params], v.kind, term))
        shape = v.shape

        def fn(idx, uid=uid, shape=shape):
            return ("app", uid, tuple(ix for d, ix in zip(shape, idx) if d != 1))
        self.env[name] = Arr(shape, v.kind, fn)

    def test(self, e):
        if isinstance(e, ast.UnaryOp) and isinstance(e.op, ast.Not):
            return not self.test(e.operand)
        if isinstance(e, ast.Name) and e.id == "retain" and self.method == "_infer" and self.flags["retain"] is not None:
            return self.flags["retain"]
        fail("`if` test outside the vocabulary: " + ast.unparse(e), e)

    def run(self, stmts):
        """returns ('return', value) when a return statement was executed, else None"""
        for s in stmts:
            if self.handed is not None:
                fail("statement after the hand-over to the optimiser", s)
            if isinstance(s, ast.Expr) and isinstance(s.value, ast.Constant) and isinstance(s.value.value, str):
                continue
            if isinstance(s, ast.Expr) and self.method == "_update_weights" and ast.unparse(s.value) == \
                    "self.optimiser_.update_params(weights, gradients)":
                w, g = self.env.get("weights"), self.env.get("gradients")
                if not isinstance(w, Opaque) or not isinstance(g, ListV):
                    fail("update_params must receive the weights and the list of gradients", s)
                self.handed = g
                continue
            if isinstance(s, ast.Assign):
                if len(s.targets) != 1:
                    fail("multiple assignment targets", s)
                t = s.targets[0]
                if isinstance(t, ast.Name):
                    self.bind(t.id, self.ev(s.value), s)
                    continue
                if isinstance(t, ast.Attribute) and isinstance(t.value, ast.Name) and t.value.id == "self" \
                        and t.attr in WRITABLE and t.attr in self.attrs and self.method == "_infer":
                    v = self.arr(self.ev(s.value), s, "stored value")
                    if v.shape != self.attrs[t.attr] or v.kind != "f" or v.pyint is not None:
                        fail(f"self.{t.attr} is written with shape {v.shape}, expected {self.attrs[t.attr]}", s)
                    if t.attr in self.writes:
                        fail(f"self.{t.attr} is written twice", s)
                    self.writes[t.attr] = v
                    continue
                fail("assignment target " + ast.unparse(t), s)
            if isinstance(s, ast.AugAssign):
                ops = {ast.Add: "add", ast.Sub: "sub", ast.Mult: "mul", ast.Div: "div"}
                if type(s.op) not in ops:
                    fail("augmented operator " + type(s.op).__name__, s)
                if isinstance(s.target, ast.Name):
                    if s.target.id not in self.env:
                        fail("augmented assignment target", s)
                    cur = self.env[s.target.id]
                    if not isinstance(cur, Arr) or cur.pyint is not None or cur.kind != "f":
                        fail("in-place update of a mask, a list or a Python integer", s)
                    new = self.binop(ops[type(s.op)], cur, self.ev(s.value), s)
                    if new.shape != cur.shape:
                        fail("in-place update changes the shape", s)
                    self.bind(s.target.id, new, s)
                    continue
                if isinstance(s.target, ast.Subscript) and isinstance(s.target.value, ast.Name) \
                        and isinstance(self.env.get(s.target.value.id), ListV) and isinstance(s.op, ast.Add):
                    lst = self.env[s.target.value.id]
                    pos = self.const_int(s.target.slice)
                    if not 0 <= pos < len(lst.items):
                        fail("list index out of range", s)
                    cur = lst.items[pos]
                    val = self.arr(self.ev(s.value), s, "added value")
                    new = self.binop("add", cur, val, s)
                    if new.shape != cur.shape:
                        fail("in-place update changes the shape", s)
                    shape = cur.shape
                    spread = Arr(shape, "f", lambda idx, val=val: as_float(val, at(val, tail(idx, val))))
                    self.penalties.append((lst, pos, spread))
                    lst.items[pos] = new
                    continue
                fail("augmented assignment target " + ast.unparse(s.target), s)
            if isinstance(s, ast.If):
                r = self.run(s.body if self.test(s.test) else s.orelse)
                if r is not None:
                    return r
                continue
            if isinstance(s, ast.Return):
                if s.value is None:
                    fail("bare return", s)
                return ("return", self.ev(s.value))
            fail("statement " + type(s).__name__, s)
        return None

    def invoke(self, cls, method, argvals, node):
        """interpret cls.method with the given argument values (self excluded); lets, counters, writes are shared"""
        fn = self.module.method(cls, method, node)
        names = check_signature(fn, method)
        if len(argvals) != len(names):
            fail(f"{cls}.{method} called with {len(argvals)} arguments", node)
        saved = (self.env, self.cls, self.method)
        self.env, self.cls, self.method = dict(zip(names, argvals)), cls, method
        r = self.run(fn.body)
        self.env, self.cls, self.method = saved
        return r[1] if r is not None else None


def check_signature(fn, method):
    a = fn.args
    if fn.decorator_list or a.vararg or a.kwarg or a.kwonlyargs or a.posonlyargs:
        fail(f"{method}: decorated or variadic signature", fn)
    names = [x.arg for x in a.args]
    want = {"_infer": ["self", "X", "retain"], "_compute_grads": ["self", "X", "y_pred", "gradient"],
            "_update_weights": ["self", "weights", "gradients"], "_get_weights": ["self"]}[method]
    if names != want:
        fail(f"{method}: signature is not ({', '.join(want)})", fn)
    if method == "_infer":
        if len(a.defaults) != 1 or not (isinstance(a.defaults[0], ast.Constant) and a.defaults[0].value is True):
            fail("_infer: default of retain is not True", fn)
        names = names[:-1]
    elif a.defaults:
        fail(f"{method}: unexpected default values", fn)
    for n in ast.walk(fn):
        if isinstance(n, (ast.Lambda, ast.FunctionDef, ast.AsyncFunctionDef, ast.ClassDef, ast.Global, ast.Nonlocal)) \
                and n is not fn:
            fail("nested scope in " + method, n)
    return names[1:]


class ModuleInfo:
    def __init__(self, key):
        self.key = key
        self.rel = FILES[key]
        self.raw = open(os.path.join(REPO, self.rel), "rb").read()
        self.tree = ast.parse(self.raw.decode("utf-8"))
        self.digest = hashlib.sha256(self.raw).hexdigest()
        self.classes = {}
        for n in self.tree.body:
            if isinstance(n, ast.ClassDef):
                if n.name in self.classes:
                    fail(f"class {n.name} defined twice in {self.rel}")
                self.classes[n.name] = n
        self.ranges = []
        # the two external names of the vocabulary must be what they are assumed to be
        np_ok = sm_ok = False
        for n in self.tree.body:
            if isinstance(n, ast.Import):
                for al in n.names:
                    if al.name == "numpy" and al.asname == "np":
                        np_ok = True
                    elif (al.asname or al.name.split(".")[0]) in ("np", "softmax"):
                        fail(f"{self.rel}: np / softmax rebound by an import", n)
            elif isinstance(n, ast.ImportFrom):
                for al in n.names:
                    bound = al.asname or al.name
                    if bound == "softmax":
                        if n.module == "sklearn.utils.extmath" and n.level == 0 and al.name == "softmax" and not sm_ok:
                            sm_ok = True
                        else:
                            fail(f"{self.rel}: softmax is not sklearn.utils.extmath.softmax", n)
                    elif bound == "np" or al.name == "*":
                        fail(f"{self.rel}: np rebound / star import", n)
            elif isinstance(n, (ast.FunctionDef, ast.ClassDef)) and n.name in ("np", "softmax"):
                fail(f"{self.rel}: np / softmax redefined", n)
            elif isinstance(n, (ast.Assign, ast.AugAssign, ast.AnnAssign)):
                for t in ast.walk(n):
                    if isinstance(t, ast.Name) and isinstance(t.ctx, ast.Store) and t.id in ("np", "softmax"):
                        fail(f"{self.rel}: np / softmax reassigned", n)
        self.np_ok, self.sm_ok = np_ok, sm_ok      # required where the name is used

    def own(self, cls, method):
        fs = [n for n in self.classes[cls].body if isinstance(n, ast.FunctionDef) and n.name == method]
        if len(fs) > 1:
            fail(f"{cls}.{method} defined twice")
        for n in self.classes[cls].body:       # a class-level assignment could rebind the method
            if isinstance(n, (ast.Assign, ast.AnnAssign)):
                for t in ast.walk(n):
                    if isinstance(t, ast.Name) and t.id == method:
                        fail(f"{cls}.{method} rebound at class level", n)
        return fs[0] if fs else None

    def single_base(self, cls, node=None):
        bases = self.classes[cls].bases
        names = [b.id for b in bases if isinstance(b, ast.Name)]
        if len(names) != len(bases):
            fail(f"class {cls}: base class expression outside the vocabulary", node)
        local = [b for b in names if b in self.classes]
        if len(local) != 1 or names[0] != local[0]:
            fail(f"class {cls}: the first base class is not a single class of the same module", node)
        return local[0]

    def resolve(self, cls, method, node=None):
        """class (cls or an ancestor in the same module) that defines the method"""
        if cls not in self.classes:
            fail(f"class {cls} not found in {self.rel}", node)
        seen = set()
        while True:
            if cls in seen:
                fail("cyclic inheritance", node)
            seen.add(cls)
            if self.own(cls, method) is not None:
                return cls
            cls = self.single_base(cls, node)

    def parent_with(self, cls, method, node=None):
        return self.resolve(self.single_base(cls, node), method, node)

    def method(self, cls, method, node=None):
        fn = self.own(cls, method)
        if fn is None:
            fail(f"{cls}.{method} not found", node)
        r = f"{cls}.{method} lines {fn.lineno}-{fn.end_lineno}"
        if r not in self.ranges:
            self.ranges.append(r)
        return fn

    def weights(self, cls):
        """attribute names returned by _get_weights, in order"""
        owner = self.resolve(cls, "_get_weights")
        fn = self.method(owner, "_get_weights")
        check_signature(fn, "_get_weights")
        body = [s for s in fn.body if not (isinstance(s, ast.Expr) and isinstance(s.value, ast.Constant)
                                           and isinstance(s.value.value, str))]
        if len(body) != 1 or not isinstance(body[0], ast.Return) or not isinstance(body[0].value, ast.List):
            fail(f"{owner}._get_weights is not `return [self.a_, ...]`", fn)
        out = []
        for e in body[0].value.elts:
            if not (isinstance(e, ast.Attribute) and isinstance(e.value, ast.Name) and e.value.id == "self"):
                fail(f"{owner}._get_weights: element outside the vocabulary", e)
            out.append(e.attr)
        if len(set(out)) != len(out) or not out:
            fail(f"{owner}._get_weights: empty or repeated attributes", fn)
        return out


# ------------------------------------------------------------------------------------------- rendering
def refs(t, acc):
    if isinstance(t, tuple):
        if t and t[0] == "app":
            acc.add(t[1])
        for x in t:
            refs(x, acc)
    return acc


def prune(lets, result):
    need = refs(result, set())
    keep = []
    for uid, params, kind, term in reversed(lets):
        if uid in need:
            keep.append((uid, params, kind, term))
            refs(term, need)
    return list(reversed(keep))


def free(t, dims, ins):
    """dimension symbols and input names a term refers to"""
    if not isinstance(t, tuple) or not t:
        return
    k = t[0]
    if k == "in":
        ins.add(t[1])
        for x in t[2]:
            free(x, dims, ins)
        return
    if k == "sum":
        dims.add(t[1])
        free(t[3], dims, ins)
        return
    if k == "softmax":
        dims.add(t[1])
        free(t[4], dims, ins)
        free(t[5], dims, ins)
        free(t[6], dims, ins)
        return
    if k == "ofn":
        for d in t[1]:
            if not isinstance(d, int):
                dims.add(d)
        return
    if k == "ix":
        return
    for x in t[1:]:
        free(x, dims, ins)


BIN_COQ = {"add": "nadd", "sub": "nsub", "mul": "nmul", "div": "ndiv"}


def coq(t):
    k = t[0]
    if k == "ix":
        return t[1]
    if k == "in":
        return t[1] if not t[2] else "(" + t[1] + " " + " ".join(coq(x) for x in t[2]) + ")"
    if k in ("n0", "n1", "n2"):
        return f"({k} o)"
    if k == "half":
        return "(ndiv o (n1 o) (n2 o))"
    if k == "ofn":
        ds = t[1]
        return f"(nofnat o {ds[0]})" if len(ds) == 1 else "(nofnat o (" + " * ".join(str(d) for d in ds) + "))"
    if k in BIN_COQ:
        return f"({BIN_COQ[k]} o {coq(t[1])} {coq(t[2])})"
    if k == "neg":
        return f"(nneg o {coq(t[1])})"
    if k == "max":
        return f"(nmax o {coq(t[1])} {coq(t[2])})"
    if k == "sum":
        return f"(bsum o {t[1]} (fun {t[2]} : nat => {coq(t[3])}))"
    if k == "softmax":
        return f"(softmax o {t[1]} (fun ({t[2]} : nat) ({t[3]} : nat) => {coq(t[4])}) {coq(t[5])} {coq(t[6])})"
    if k == "ofbool":
        return f"(if {coq(t[1])} then n1 o else n0 o)"
    if k == "ltb":
        return f"(nltb o {coq(t[1])} {coq(t[2])})"
    if k == "leb":
        return f"(nleb o {coq(t[1])} {coq(t[2])})"
    if k in ("andb", "orb"):
        return f"({k} {coq(t[1])} {coq(t[2])})"
    if k == "app":
        return t[1] if not t[2] else "(" + t[1] + " " + " ".join(coq(x) for x in t[2]) + ")"
    raise Fail("internal: term " + repr(k))


BIN_PY = {"add": "+", "sub": "-", "mul": "*"}


def py(t):
    k = t[0]
    if k == "ix":
        return t[1]
    if k == "in":
        return t[1] if not t[2] else t[1] + "(" + ", ".join(py(x) for x in t[2]) + ")"
    if k == "n0":
        return "0.0"
    if k == "n1":
        return "1.0"
    if k == "n2":
        return "(1.0 + 1.0)"
    if k == "half":
        return "(1.0 / (1.0 + 1.0))"
    if k == "ofn":
        return "float(" + " * ".join(str(d) for d in t[1]) + ")"
    if k in BIN_PY:
        return f"({py(t[1])} {BIN_PY[k]} {py(t[2])})"
    if k == "div":
        return f"_div({py(t[1])}, {py(t[2])})"
    if k == "neg":
        return f"(0.0 - {py(t[1])})"
    if k == "max":
        return f"_max({py(t[1])}, {py(t[2])})"
    if k == "sum":
        return f"_bsum({t[1]}, lambda {t[2]}: {py(t[3])})"
    if k == "softmax":
        return f"_softmax({t[1]}, lambda {t[2]}, {t[3]}: {py(t[4])}, {py(t[5])}, {py(t[6])})"
    if k == "ofbool":
        return f"(1.0 if {py(t[1])} else 0.0)"
    if k == "ltb":
        return f"({py(t[1])} < {py(t[2])})"
    if k == "leb":
        return f"({py(t[1])} <= {py(t[2])})"
    if k == "andb":
        return f"({py(t[1])} and {py(t[2])})"
    if k == "orb":
        return f"({py(t[1])} or {py(t[2])})"
    if k == "app":
        return t[1] if not t[2] else t[1] + "(" + ", ".join(py(x) for x in t[2]) + ")"
    raise Fail("internal: term " + repr(k))


PY_PRELUDE = '''# GENERATED by translator/tr_models.py --python : the symbolic terms of coq/Gen/Models.v as plain Python.
# Number system = IEEE double; _bsum is the left fold of Common/Num.v; _max is nmax; _softmax is Model/Forward.v's
# softmax (row maximum by vmax, exponentials, left-fold normalisation).  Arrays are functions of their indices.
import math
_inf, _nan = float("inf"), float("nan")
def _bsum(n, f):
    s = 0.0
    for j in range(n):
        s = s + f(j)
    return s
def _div(a, b):
    try:
        return a / b
    except ZeroDivisionError:
        return _nan if (a == 0.0 or a != a) else (_inf if (a > 0.0) == (math.copysign(1.0, b) > 0.0) else -_inf)
def _max(a, b):      # nmax a b = if a < b then b else a
    return b if a < b else a
def _vmax(K, z):
    if K == 0:
        return 0.0
    m = z(0)
    for c in range(1, K):
        m = _max(m, z(c))
    return m
def _exp(x):
    try:
        return math.exp(x)
    except OverflowError:
        return _inf
def _softmax(K, Z, i, k):
    m = _vmax(K, lambda c: Z(i, c))
    e = lambda c: _exp(Z(i, c) - m)
    return _div(e(k), _bsum(K, e))
SIGNATURES = {}
'''


class Def:
    """one generated definition: name, comment, lets, result term, result indices [(name, dim)], input shapes"""

    def __init__(self, name, comment, lets, result, indices, shapes):
        self.name, self.comment, self.indices, self.shapes = name, comment, indices, shapes
        self.lets = prune(lets, result)
        self.result = result
        dims, ins = set(), set()
        for _, _, _, term in self.lets:
            free(term, dims, ins)
        free(result, dims, ins)
        for nm in ins:
            if nm not in shapes:
                raise Fail("internal: input " + nm + " has no declared shape")
        self.dims = [d for d in DIM_ORDER if d in dims]
        order = [a for a in shapes if a in ins]
        self.inputs = order

    def ty(self, nm):
        r = len([d for d in self.shapes[nm] if d != 1])
        return "T" if r == 0 else " -> ".join(["nat"] * r + ["T"])

    def render_coq(self):
        sig = f"Definition {self.name} {{T : Type}} (o : NumOps T)"
        if self.dims:
            sig += " (" + " ".join(self.dims) + " : nat)"
        for nm in self.inputs:
            sig += f" ({nm} : {self.ty(nm)})"
        if self.indices:
            sig += " (" + " ".join(ix for ix, _ in self.indices) + " : nat)"
        sig += " : T :="
        lines = [f"(* {self.comment} *)", sig]
        for uid, params, kind, term in self.lets:
            if params:
                ps = " ".join(f"({p} : nat)" for p, _ in params)
                lines.append(f"  let {uid} := fun {ps} => {coq(term)} in")
            else:
                lines.append(f"  let {uid} := {coq(term)} in")
        lines.append(f"  {coq(self.result)}.")
        return "\n".join(lines)

    def render_py(self):
        params = self.dims + self.inputs + [ix for ix, _ in self.indices]
        lines = [f"def {self.name}({', '.join(params)}):"]
        for uid, ps, kind, term in self.lets:
            if ps:
                lines.append(f"    {uid} = lambda {', '.join(p for p, _ in ps)}: {py(term)}")
            else:
                lines.append(f"    {uid} = {py(term)}")
        lines.append(f"    return {py(self.result)}")
        lines.append(f"SIGNATURES[{self.name!r}] = {params!r}")
        return "\n".join(lines)


def result_indices(shape, what):
    idx, names = [], []
    for d in shape:
        if d == 1:
            idx.append(None)
        else:
            nm = DIM_INDEX[d]
            if nm in names:
                fail(f"{what}: a result with a repeated dimension {shape} is outside the vocabulary")
            names.append(nm)
            idx.append(("ix", nm))
    return idx, [(nm, d) for nm, d in zip(names, [d for d in shape if d != 1])]


def suffix_of(attr):
    return attr.rstrip("_").replace("_", "")


def input_shapes(family, extra=()):
    """ordered table name -> shape of everything a definition of this family may read"""
    _, _, attrs, xshape = SPECS[family]
    shapes = {}
    for a, s in attrs:
        shapes[a] = s
    shapes["X"] = xshape
    shapes["y_pred"] = ("n", "K")
    shapes["gradient"] = ("n", "K")
    for nm, s in extra:
        shapes[nm] = s
    return shapes


def tr_infer(mods, family, base):
    key, cls, attrs, xshape = SPECS[family]
    m = mods[key]
    owner = m.resolve(cls, "_infer")
    outs = {}
    for retain in (True, False):
        it = Interp(m, family, retain)
        v = it.invoke(owner, "_infer", [input_array("X", xshape)], None)
        if not isinstance(v, Arr) or v.kind != "f" or v.pyint is not None or v.shape != ("n", "K"):
            fail(f"{owner}._infer does not return a float array of shape (n, K)")
        outs[retain] = (it, v)
    shapes = input_shapes(family)
    idx, names = result_indices(("n", "K"), owner + "._infer")
    it, v = outs[True]
    d_true = Def(f"gen_{base}_infer", f"{owner}._infer(X, retain=True): entry [i, k] of the returned array", it.lets, at(v, idx),
                 names, shapes)
    it0, v0 = outs[False]
    d_false = Def(f"gen_{base}_infer", "", it0.lets, at(v0, idx), names, shapes)
    if d_true.render_coq().split("\n", 1)[1] != d_false.render_coq().split("\n", 1)[1]:
        fail(f"{owner}._infer: the returned value depends on `retain`")
    if it0.writes:
        fail(f"{owner}._infer(retain=False) writes self.{sorted(it0.writes)[0]}")
    defs = [d_true]
    notes = [f"{owner}._infer: writes with retain=True: " + (", ".join("self." + a for a in sorted(it.writes)) or "none")
             + "; with retain=False: none; the returned value is the same for both"]
    for a in sorted(it.writes):
        w = it.writes[a]
        widx, wnames = result_indices(w.shape, owner + "._infer")
        defs.append(Def(f"gen_{base}_retained_{suffix_of(a)}",
                        f"{owner}._infer(X, retain=True): entry of the array stored into self.{a}", it.lets, at(w, widx), wnames, shapes))
    return defs, notes


def tr_grads(mods, family, base):
    key, cls, attrs, xshape = SPECS[family]
    m = mods[key]
    owner = m.resolve(cls, "_compute_grads")
    wnames = m.weights(cls)
    table = dict(attrs)
    it = Interp(m, family, None)
    v = it.invoke(owner, "_compute_grads", [input_array("X", xshape), input_array("y_pred", ("n", "K")),
                                            input_array("gradient", ("n", "K"))], None)
    if not isinstance(v, ListV):
        fail(f"{owner}._compute_grads does not return a list of arrays")
    if len(v.items) != len(wnames):
        fail(f"{owner}._compute_grads returns {len(v.items)} arrays, _get_weights lists {len(wnames)}")
    shapes = input_shapes(family)
    defs = []
    for pos, (a, g) in enumerate(zip(wnames, v.items)):
        if a not in table:
            fail(f"_get_weights: self.{a} is not in the table of family {family}")
        if g.shape != table[a] or g.kind != "f" or g.pyint is not None:
            fail(f"{owner}._compute_grads: element {pos} has shape {g.shape}, self.{a} has shape {table[a]}")
        idx, names = result_indices(g.shape, owner + "._compute_grads")
        nm = f"gen_{base}_grads" + ("" if len(wnames) == 1 else "_" + suffix_of(a))
        defs.append(Def(nm, f"{owner}._compute_grads(X, y_pred, gradient): entry of element {pos} of the returned list "
                            f"(the direction for self.{a})", it.lets, at(g, idx), names, shapes))
    return defs, it, owner, wnames


def tr_penalty(it, owner, method, base, shapes, lst):
    if len(it.penalties) != 1 or it.penalties[0][0] is not lst or it.penalties[0][1] != 0:
        fail(f"{owner}.{method}: exactly one `<list>[0] += term` on the list of gradients is expected")
    spread = it.penalties[0][2]
    idx, names = result_indices(spread.shape, owner + "." + method)
    return Def(f"gen_{base}_penalty_term", f"{owner}.{method}: entry of the term added in place to element 0 of the list of gradients",
               it.lets, at(spread, idx), names, shapes)


def tr_rim(mods):
    key, cls, attrs, xshape = SPECS["rim"]
    m = mods[key]
    owner = m.resolve(cls, "_update_weights")
    wnames = m.weights(cls)
    table = dict(attrs)
    extra = []
    items = []
    for pos, a in enumerate(wnames):
        if a not in table:
            fail(f"_get_weights: self.{a} is not in the table of family rim")
        extra.append((f"gradients_{pos}", table[a]))
        items.append(input_array(f"gradients_{pos}", table[a]))
    if len(items) > 5:
        fail("more than five weights")
    lst = ListV(items)
    it = Interp(m, "rim", None)
    r = it.invoke(owner, "_update_weights", [Opaque("weights"), lst], None)
    if r is not None or it.handed is not lst:
        fail(f"{owner}._update_weights does not end by handing the list of gradients to optimiser_.update_params")
    shapes = input_shapes("rim", extra)
    defs = [tr_penalty(it, owner, "_update_weights", "rim", shapes, lst)]
    for pos, (a, g) in enumerate(zip(wnames, lst.items)):
        idx, names = result_indices(g.shape, owner + "._update_weights")
        defs.append(Def(f"gen_rim_update_grads_{suffix_of(a)}",
                        f"{owner}._update_weights(weights, gradients): entry of element {pos} of the list handed to "
                        f"optimiser_.update_params (gradients_{pos} = element {pos} on entry)", it.lets, at(g, idx), names, shapes))
    return defs


def translate():
    mods = {k: ModuleInfo(k) for k in FILES}
    defs, notes = [], []
    for family, base in (("linear", "linear"), ("mlp", "mlp"), ("sparse_mlp", "sparse_mlp"), ("categorical", "categorical")):
        d, nt = tr_infer(mods, family, base)
        defs += d
        notes += nt
        d, _, _, _ = tr_grads(mods, family, base)
        defs += d
    defs += tr_rim(mods)
    d, it, owner, wnames = tr_grads(mods, "kernel_rim", "kernel_rim")
    if not it.penalties:
        fail("KernelRIM._compute_grads adds no penalty term")
    defs.append(tr_penalty(it, owner, "_compute_grads", "kernel_rim", input_shapes("kernel_rim"), it.penalties[0][0]))
    defs += d
    names = [x.name for x in defs]
    if len(set(names)) != len(names):
        fail("two generated definitions have the same name")
    head = ["(* GENERATED by translator/tr_models.py - do not edit."]
    for k in FILES:
        head.append(f"   Source: {mods[k].rel}  sha256 {mods[k].digest}")
        head += ["     " + r for r in mods[k].ranges]
    head += ["   Symbolic, shape-aware translation of the numpy code of the _infer / _compute_grads methods (and of the penalty",
             "   terms of RIM._update_weights and KernelRIM._compute_grads).  Attribute reads self.<a> are the arguments named <a>",
             "   (matrices nat -> nat -> T, 1 x m rows nat -> T); X : n x d (n x nt for KernelRIM), y_pred, gradient : n x K;",
             "   softmax is Model/Forward.v's (opaque for the translator); every assigned Python variable is a `let`; the",
             "   arithmetic keeps the grouping of the source; a definition takes exactly what it reads.",
             "   Call protocol assumed (fit loop): y_pred = _infer(X_batch) with retain=True, then _compute_grads(X_batch, y_pred,",
             "   grads): the H_ read by gen_*_grads_* is gen_*_retained_H of the same X.",
             "   Compared with the hand-written Model/Forward.v and Model/Backprop.v in Proofs/ModelsGen.v."]
    head += ["   " + x for x in notes]
    head[-1] += " *)"
    head += ["From GV Require Import Common.Num Model.Forward.", ""]
    coq_text = "\n".join(head) + "\n" + "\n\n".join(x.render_coq() for x in defs) + "\n"
    py_text = PY_PRELUDE + "\n" + "\n\n".join(x.render_py() for x in defs) + "\n"
    return coq_text, py_text


def main():
    argv = sys.argv[1:]
    if argv not in ([], ["--python"]):
        die("usage: tr_models.py [--python]")
    try:
        coq_text, py_text = translate()
    except Fail as e:
        die(str(e))
    except Exception as e:  # noqa  (anything unexpected is a failure to translate, never a partial output)
        die(f"{type(e).__name__}: {e}")
    if argv == ["--python"]:
        sys.stdout.write(py_text)
        return
    os.makedirs(os.path.dirname(OUT), exist_ok=True)
    if not os.path.exists(OUT) or open(OUT).read() != coq_text:
        open(OUT, "w").write(coq_text)
        print("tr_models: wrote", OUT)
        # build.sh reports BUILD-FAIL only for a MISSING .vo: remove the compiled equality proofs (and the two statement
        # files built on them) so that a failing re-compilation against the new text cannot hide behind a stale object
        for rel in ("Proofs/ModelsGen", "Props/C03gen", "Props/C18gen"):
            for ext in (".vo", ".vos", ".vok", ".glob"):
                stale = os.path.join(ROOT, "coq", rel + ext)
                if os.path.exists(stale):
                    os.remove(stale)
    else:
        print("tr_models: unchanged", OUT)


if __name__ == "__main__":
    main()
