#!/usr/bin/env python3
"""Fail-closed translator, skeleton + holes:
     gemclus/tree/kauri.py :: Tree.__init__ / _add_child / predict, Kauri.fit / predict / score
         ->  coq/Gen/KauriFitRules.v   (record FitRules, value kauri_fit_rules)

The bodies are matched statement by statement against the control skeleton that the hand-written model
coq/Model/KauriTree.v implements (docstrings and `if self.verbose: print(...)` blocks are ignored).  Any
statement or expression that is not the expected one makes the translator exit non-zero WITHOUT writing:
the build prints TRANSLATOR-FAIL, the previously generated file stays, and check C09 relies on the
correspondence alone.  Only the *holes* are translated:

  Kauri.fit   ensure_min_samples=<attr>; the cross-parameter test that raises ValueError; the three
              effective limits (max_leaves, max_features, max_depth: conditional expressions over None-tests,
              min, max); Z[<row>, :] = 1; Y[<k>, <l>] = 1; n_leaves = <c>; n_clusters = <c>; the initial
              leaves_to_explore (conditional list); leaf2node = {<k>: <v>}; the two structural conjuncts of the
              loop guard; the comparison selecting left_indices; the run of Z[<row>, <side>] = <0/1> updates
              (which row, which index set, which value, in which order); the column of the Y argmax; the run of
              Y[<cluster>, <column>] = <0/1> updates; the run of leaf2node[<key>] = <expr of n_leaves>; the depth
              test guarding the appends; the run of `if len(<side>) <cmp> self.min_samples_split:
              leaves_to_explore.append(<leaf>)`; the n_leaves increment; the if/elif that increments n_clusters.
  Tree        root target / depth; children_left/right[father] = <expr of n_nodes>; the two appended depths
              (<expr of depths[father]>); the order of the appended targets; the routing comparison; which
              child receives the rows satisfying it.
  Kauri.predict  whether the query rows are converted to float64 (check_array(X, dtype=np.float64)) before routing.

Natural-number expressions are put in a canonical form (linear polynomial, variables sorted, `a > b` as `b < a`,
`not (a >= b)` as `a < b`, arguments of min/max/== sorted) so that harmless re-spellings give the same text.
Literal (no hole, must match exactly): the find_best_split call, `last_gain > 0` (guard and `if`), np.where /
setxor1d index computation, the shapes of Z and Y, `_add_child(leaf2node[best_split.leaf], best_split)`,
`get_depth(leaf2node[best_split.leaf])`, `leaves_to_explore.remove(best_split.leaf)`,
labels_ = (Y @ Z).argmax(0), leaves_ = Z.argmax(0), the rest of Kauri.predict, Kauri.score, dtype=np.float64 in fit's validate_data, the leaf test and the recursion
of Tree.predict.
"""
import ast
import hashlib
import os
import sys

REPO = os.environ.get("VERIF_REPO", "/repo")
ROOT = os.path.dirname(os.path.dirname(os.path.abspath(__file__)))
SRC = os.path.join(REPO, "gemclus", "tree", "kauri.py")
OUT = os.path.join(ROOT, "coq", "Gen", "KauriFitRules.v")
DEPENDENTS = ("Model/KauriTree", "Proofs/KauriTree", "Props/C09")


class Unknown(Exception):
    pass


def fail(msg, node=None):
    where = f" (line {getattr(node, 'lineno', '?')})" if node is not None else ""
    raise Unknown(msg + where)


# ------------------------------------------------------------------ natural-number expressions, canonical form
class Poly:
    """linear polynomial with integer coefficients over named nat variables: {var or '': coeff}"""

    def __init__(self, d):
        self.d = {k: v for k, v in d.items() if v != 0}

    def __add__(self, o):
        r = dict(self.d)
        for k, v in o.d.items():
            r[k] = r.get(k, 0) + v
        return Poly(r)

    def scale(self, c):
        return Poly({k: v * c for k, v in self.d.items()})

    def const(self):
        return self.d.get("", 0) if set(self.d) <= {""} else None

    def emit(self):
        pos = [(k, v) for k, v in sorted(self.d.items(), key=lambda kv: (kv[0] == "", kv[0])) if v > 0]
        neg = [(k, -v) for k, v in sorted(self.d.items(), key=lambda kv: (kv[0] == "", kv[0])) if v < 0]

        def term(k, v):
            return str(v) if k == "" else (k if v == 1 else f"{v} * {k}")
        if not pos:
            if neg:
                raise Unknown("expression is negative as a natural number")
            return "0"
        s = " + ".join(term(k, v) for k, v in pos)
        for k, v in neg:
            s += " - " + term(k, v)
        return s


def atom(s):
    return s if all(c.isalnum() or c == "_" for c in s) else f"({s})"


def nat_expr(e, env):
    """-> canonical Coq text of a nat expression.  env: unparse-string -> Coq variable (nat)"""
    p = nat_poly(e, env)
    if isinstance(p, Poly):
        return p.emit()
    return p


def nat_poly(e, env):
    key = ast.unparse(e)
    if key in env:
        return Poly({env[key]: 1})
    if isinstance(e, ast.Constant) and isinstance(e.value, int) and not isinstance(e.value, bool):
        if e.value < 0 or e.value > 10 ** 6:
            fail("integer literal out of range", e)
        return Poly({"": e.value})
    if isinstance(e, ast.BinOp) and isinstance(e.op, (ast.Add, ast.Sub, ast.Mult)):
        a, b = nat_poly(e.left, env), nat_poly(e.right, env)
        if not (isinstance(a, Poly) and isinstance(b, Poly)):
            fail("arithmetic on a min/max expression is not supported", e)
        if isinstance(e.op, ast.Add):
            return a + b
        if isinstance(e.op, ast.Sub):
            return a + b.scale(-1)
        if a.const() is not None:
            return b.scale(a.const())
        if b.const() is not None:
            return a.scale(b.const())
        fail("non-linear product", e)
    if isinstance(e, ast.Call) and isinstance(e.func, ast.Name) and e.func.id in ("min", "max") and len(e.args) == 2 and not e.keywords:
        args = sorted(atom(nat_expr(a, env)) for a in e.args)
        return f"Nat.{e.func.id} {args[0]} {args[1]}"
    fail(f"unknown natural-number expression {type(e).__name__}: {key}", e)


NEG = {ast.Lt: ast.GtE, ast.GtE: ast.Lt, ast.Gt: ast.LtE, ast.LtE: ast.Gt, ast.Eq: ast.NotEq, ast.NotEq: ast.Eq}


def nat_test(e, env, negate=False):
    """-> canonical Coq text of a boolean test over nat expressions"""
    if isinstance(e, ast.UnaryOp) and isinstance(e.op, ast.Not):
        return nat_test(e.operand, env, not negate)
    if isinstance(e, ast.BoolOp) and isinstance(e.op, (ast.And, ast.Or)):
        is_and = isinstance(e.op, ast.And) != negate      # De Morgan
        parts = [f"({nat_test(v, env, negate)})" for v in e.values]
        return (" && " if is_and else " || ").join(parts)
    if isinstance(e, ast.Compare) and len(e.ops) == 1:
        op = type(e.ops[0])
        if op not in NEG:
            fail("comparison operator not supported", e)
        if negate:
            op = NEG[op]
        a, b = atom(nat_expr(e.left, env)), atom(nat_expr(e.comparators[0], env))
        if op is ast.Lt:
            return f"Nat.ltb {a} {b}"
        if op is ast.Gt:
            return f"Nat.ltb {b} {a}"
        if op is ast.LtE:
            return f"Nat.leb {a} {b}"
        if op is ast.GtE:
            return f"Nat.leb {b} {a}"
        x, y = sorted([a, b])
        return f"Nat.eqb {x} {y}" if op is ast.Eq else f"negb (Nat.eqb {x} {y})"
    fail(f"unknown test {type(e).__name__}: {ast.unparse(e)}", e)


def opt_ifexp(e, attr, optvar, env):
    """<a> if self.<attr> is [not] None else <b>  ->  match optvar with Some v => .. | None => .. end
    (inside the not-None branch self.<attr> is the nat variable v)"""
    if not isinstance(e, ast.IfExp):
        fail("a conditional expression was expected", e)
    t = e.test
    if not (isinstance(t, ast.Compare) and len(t.ops) == 1 and ast.unparse(t.left) == f"self.{attr}"
            and isinstance(t.comparators[0], ast.Constant) and t.comparators[0].value is None
            and isinstance(t.ops[0], (ast.Is, ast.IsNot))):
        fail(f"the test is not `self.{attr} is [not] None`", e)
    some, none = (e.body, e.orelse) if isinstance(t.ops[0], ast.IsNot) else (e.orelse, e.body)
    env_some = dict(env)
    env_some[f"self.{attr}"] = "v"
    if f"self.{attr}" in ast.unparse(none):
        fail(f"self.{attr} is used in the branch where it is None", e)
    return f"match {optvar} with Some v => {nat_expr(some, env_some)} | None => {nat_expr(none, env)} end"


ZCMP = {ast.Lt: "Z.ltb", ast.LtE: "Z.leb", ast.Gt: "Z.gtb", ast.GtE: "Z.geb", ast.Eq: "Z.eqb"}


def z_cmp(e, left_text, right_text):
    """comparison between the feature value and the threshold -> Coq text over x th : Z"""
    if not (isinstance(e, ast.Compare) and len(e.ops) == 1 and type(e.ops[0]) in ZCMP):
        fail("a single comparison was expected", e)
    a, b = ast.unparse(e.left), ast.unparse(e.comparators[0])
    if (a, b) == (left_text, right_text):
        return f"{ZCMP[type(e.ops[0])]} x th"
    if (a, b) == (right_text, left_text):
        return f"{ZCMP[type(e.ops[0])]} th x"
    fail(f"comparison is not between `{left_text}` and `{right_text}`: {ast.unparse(e)}", e)


# ------------------------------------------------------------------ skeleton helpers
def is_verbose(s):
    return isinstance(s, ast.If) and ast.unparse(s.test) == "self.verbose" and not s.orelse and all(
        isinstance(b, ast.Expr) and isinstance(b.value, ast.Call) and ast.unparse(b.value.func) == "print" for b in s.body)


def clean(stmts):
    out = [s for s in stmts if not is_verbose(s)]
    if out and isinstance(out[0], ast.Expr) and isinstance(out[0].value, ast.Constant) and isinstance(out[0].value.value, str):
        out = out[1:]
    return out


def lit(s, text):
    if ast.unparse(s) != text:
        fail(f"statement differs from the modelled skeleton: expected `{text}` got `{ast.unparse(s)[:140]}`", s)


def expect_len(stmts, n, what, node=None):
    if len(stmts) != n:
        fail(f"{what}: expected {n} statements, found {len(stmts)}", node)


def assign_to(s, name):
    """`name = e` -> e"""
    if not (isinstance(s, ast.Assign) and len(s.targets) == 1 and ast.unparse(s.targets[0]) == name):
        fail(f"expected an assignment to {name}: {ast.unparse(s)[:100]}", s)
    return s.value


def small_const(e, what):
    if not (isinstance(e, ast.Constant) and isinstance(e.value, int) and not isinstance(e.value, bool) and 0 <= e.value <= 10 ** 6):
        fail(f"{what} is not a small non-negative integer literal", e)
    return e.value


def bit(e, what):
    v = small_const(e, what)
    if v not in (0, 1):
        fail(f"{what} is not 0 or 1", e)
    return "true" if v == 1 else "false"


COL = {"best_split.leaf": "CLeaf", "n_leaves": "CNew"}
SIDE = {"left_indices": "SLeft", "right_indices": "SRight"}
CLUSTER = {"k": "KOld", "best_split.left_target": "KLeft", "best_split.right_target": "KRight"}


def sel(table, e, what):
    k = ast.unparse(e)
    if k not in table:
        fail(f"{what} `{k}` is not one of {sorted(table)}", e)
    return table[k]


def sub2(s, array):
    """`array[a, b] = v` -> (a, b, v)"""
    if not (isinstance(s, ast.Assign) and len(s.targets) == 1 and isinstance(s.targets[0], ast.Subscript)
            and ast.unparse(s.targets[0].value) == array and isinstance(s.targets[0].slice, ast.Tuple) and len(s.targets[0].slice.elts) == 2):
        return None
    a, b = s.targets[0].slice.elts
    return a, b, s.value


def increment(s, name, env):
    """`name += e` or `name = name + e` / `name = e + name` -> canonical nat expression of the new value"""
    if isinstance(s, ast.AugAssign) and ast.unparse(s.target) == name and isinstance(s.op, (ast.Add, ast.Sub, ast.Mult)):
        return nat_expr(ast.BinOp(left=ast.Name(id=name), op=s.op, right=s.value), env)
    if isinstance(s, ast.Assign) and len(s.targets) == 1 and ast.unparse(s.targets[0]) == name:
        return nat_expr(s.value, env)
    fail(f"expected an update of {name}: {ast.unparse(s)[:100]}", s)


def method(cls, name):
    ms = [n for n in cls.body if isinstance(n, ast.FunctionDef) and n.name == name]
    if len(ms) != 1:
        fail(f"method {cls.name}.{name} not found exactly once")
    return ms[0]


def args_are(fn, text):
    if ast.unparse(fn.args) != text:
        fail(f"signature of {fn.name} changed: ({ast.unparse(fn.args)})", fn)


# ------------------------------------------------------------------ Tree
def translate_tree(cls, D, L):
    # __init__
    fn = method(cls, "__init__")
    args_are(fn, "self")
    body = clean(fn.body)
    expect_len(body, 9, "Tree.__init__", fn)
    lit(body[0], "self.children_left = [-1]")
    lit(body[1], "self.children_right = [-1]")
    tg = assign_to(body[2], "self.target")
    lit(body[3], "self.thresholds = [None]")
    lit(body[4], "self.features = [None]")
    lit(body[5], "self.gains = [0]")
    dp = assign_to(body[6], "self.depths")
    lit(body[7], "self.n_nodes = 1")
    lit(body[8], "self.categorical_nodes = [False]")
    for e, key in ((tg, "root_target"), (dp, "root_depth")):
        if not (isinstance(e, ast.List) and len(e.elts) == 1):
            fail("root target / depth is not a one-element list", e)
        D[key] = str(small_const(e.elts[0], key))
    L["Tree.__init__"] = (fn.lineno, fn.end_lineno)
    # _add_child
    fn = method(cls, "_add_child")
    args_are(fn, "self, father: int, split: Split")
    body = clean(fn.body)
    expect_len(body, 15, "Tree._add_child", fn)
    envn = {"self.n_nodes": "n_nodes"}
    D["child_left"] = nat_expr(assign_to(body[0], "self.children_left[father]"), envn)
    D["child_right"] = nat_expr(assign_to(body[1], "self.children_right[father]"), envn)
    lit(body[2], "self.thresholds[father] = split.threshold")
    lit(body[3], "self.features[father] = split.feature")
    lit(body[4], "self.gains[father] = split.gain")
    lit(body[5], "self.categorical_nodes[father] = split.is_categorical")
    lit(body[6], "self.children_left += [-1, -1]")
    lit(body[7], "self.children_right += [-1, -1]")
    lit(body[8], "self.thresholds += [None, None]")
    lit(body[9], "self.features += [None, None]")
    lit(body[10], "self.gains += [0, 0]")
    s = body[11]
    if not (isinstance(s, ast.AugAssign) and isinstance(s.op, ast.Add) and ast.unparse(s.target) == "self.depths"
            and isinstance(s.value, ast.List) and len(s.value.elts) == 2):
        fail("the two child depths are not appended as a two-element list", s)
    envd = {"self.depths[father]": "father_depth"}
    D["child_depth_l"], D["child_depth_r"] = (nat_expr(x, envd) for x in s.value.elts)
    lit(body[12], "self.categorical_nodes += [False, False]")
    s = body[13]
    if not (isinstance(s, ast.AugAssign) and isinstance(s.op, ast.Add) and ast.unparse(s.target) == "self.target"
            and isinstance(s.value, ast.List) and len(s.value.elts) == 2):
        fail("the two child targets are not appended as a two-element list", s)
    tsel = {"split.left_target": "SLeft", "split.right_target": "SRight"}
    D["child_target_l"], D["child_target_r"] = (sel(tsel, x, "child target") for x in s.value.elts)
    lit(body[14], "self.n_nodes += 2")
    L["Tree._add_child"] = (fn.lineno, fn.end_lineno)
    # get_depth (literal: the model reads depths[node] for an existing node)
    fn = method(cls, "get_depth")
    args_are(fn, "self, node=None")
    body = clean(fn.body)
    expect_len(body, 1, "Tree.get_depth", fn)
    lit(body[0], "if node is None:\n    return max(self.depths)\nelse:\n    node = min(max(node, 0), len(self.depths))\n    return self.depths[node]")
    L["Tree.get_depth"] = (fn.lineno, fn.end_lineno)
    # predict
    fn = method(cls, "predict")
    args_are(fn, "self, X, node=0")
    body = clean(fn.body)
    expect_len(body, 2, "Tree.predict", fn)
    g = body[0]
    if not (isinstance(g, ast.If) and not g.orelse and len(g.body) == 1 and isinstance(g.body[0], ast.Raise)
            and ast.unparse(g.test) == "node < 0 or node > self.n_nodes"):
        fail("Tree.predict: node range check changed", g)
    s = body[1]
    if not (isinstance(s, ast.If) and ast.unparse(s.test) == "self.children_left[node] == -1"):
        fail("Tree.predict: leaf test changed", s)
    expect_len(s.body, 1, "Tree.predict leaf branch", s)
    lit(s.body[0], "return self.target[node] * np.ones(len(X), dtype=np.int64)")
    ob = s.orelse
    expect_len(ob, 6, "Tree.predict internal branch", s)
    c = ob[0]
    if not (isinstance(c, ast.If) and ast.unparse(c.test) == "self.categorical_nodes[node]" and len(c.body) == 1 and len(c.orelse) == 1):
        fail("Tree.predict: categorical switch changed", c)
    lit(c.body[0], "X_left = X[:, self.features[node]] == self.thresholds")       # dead: is_categorical is always False
    D["route_left"] = z_cmp(assign_to(c.orelse[0], "X_left"), "X[:, self.features[node]]", "self.thresholds[node]")
    lit(ob[1], "X_right = ~X_left")
    lit(ob[2], "predictions = np.zeros(len(X), dtype=np.int64)")
    child = {"self.children_left[node]": "SLeft", "self.children_right[node]": "SRight"}
    got = {}
    for st, mask in ((ob[3], "X_left"), (ob[4], "X_right")):
        v = assign_to(st, f"predictions[{mask}]")
        if not (isinstance(v, ast.Call) and ast.unparse(v.func) == "self.predict" and len(v.args) == 2 and not v.keywords
                and ast.unparse(v.args[0]) == f"X[{mask}]"):
            fail("Tree.predict: recursion changed", st)
        got[mask] = sel(child, v.args[1], "child")
    D["route_true"], D["route_false"] = got["X_left"], got["X_right"]
    lit(ob[5], "return predictions")
    L["Tree.predict"] = (fn.lineno, fn.end_lineno)


# ------------------------------------------------------------------ Kauri
FBS = ("best_split = find_best_split(kernel, X, np.array(leaves_to_explore), Y, Z, n_clusters, self.max_clusters, n_leaves, "
       "self.min_samples_leaf, random_state.choice(X.shape[1], size=max_features, replace=False).astype(np.intp))")


def translate_fit(cls, D, L):
    fn = method(cls, "fit")
    args_are(fn, "self, X, y=None")
    body = clean(fn.body)
    expect_len(body, 24, "Kauri.fit", fn)
    L["Kauri.fit"] = (fn.lineno, fn.end_lineno)
    lit(body[0], "self._validate_params()")
    lit(body[1], "X = check_array(X)")
    v = assign_to(body[2], "X")
    if not (isinstance(v, ast.Call) and ast.unparse(v.func) == "validate_data" and [ast.unparse(a) for a in v.args] == ["self", "X"]
            and [k.arg for k in v.keywords] == ["accept_sparse", "dtype", "ensure_min_samples"]
            and ast.unparse(v.keywords[0].value) == "True" and ast.unparse(v.keywords[1].value) == "np.float64"):
        fail("validate_data call changed", body[2])
    envp = {"self.min_samples_leaf": "msl", "self.min_samples_split": "mss"}
    D["ensure_min_samples"] = nat_expr(v.keywords[2].value, envp)
    lit(body[3], "random_state = check_random_state(self.random_state)")
    c = body[4]
    if not (isinstance(c, ast.If) and not c.orelse and len(c.body) == 1 and isinstance(c.body[0], ast.Raise)
            and ast.unparse(c.body[0].exc).startswith("ValueError(")):
        fail("the cross-parameter check is not `if <test>: raise ValueError(...)`", c)
    D["contradiction"] = nat_test(c.test, envp)
    lit(body[5], "kernel = self._compute_kernel(X, y)")
    lit(body[6], "n, self.n_features_in_ = X.shape")
    envn = {"n": "n", "len(X)": "n", "X.shape[0]": "n"}
    envd = {"X.shape[1]": "d", "self.n_features_in_": "d"}
    D["max_leaves"] = opt_ifexp(assign_to(body[7], "max_leaves"), "max_leaves", "max_leaves", envn)
    D["max_features"] = opt_ifexp(assign_to(body[8], "max_features"), "max_features", "max_features", envd)
    D["max_depth"] = opt_ifexp(assign_to(body[9], "max_depth"), "max_depth", "max_depth", envn)
    lit(body[10], "self.tree_ = Tree()")
    lit(body[11], "Z = np.zeros((max_leaves, len(X)), dtype=np.int64)")
    z0 = sub2(body[12], "Z")
    if z0 is None or ast.unparse(z0[1]) != ":" or bit(z0[2], "initial Z value") != "true":
        fail("initial Z assignment is not Z[<row>, :] = 1", body[12])
    D["init_Z_row"] = str(small_const(z0[0], "initial Z row"))
    lit(body[13], "Y = np.zeros((self.max_clusters, max_leaves), dtype=np.int64)")
    y0 = sub2(body[14], "Y")
    if y0 is None or bit(y0[2], "initial Y value") != "true":
        fail("initial Y assignment is not Y[<k>, <l>] = 1", body[14])
    D["init_Y_k"], D["init_Y_l"] = str(small_const(y0[0], "initial Y row")), str(small_const(y0[1], "initial Y column"))
    D["init_nl"] = str(small_const(assign_to(body[15], "n_leaves"), "initial n_leaves"))
    D["init_nc"] = str(small_const(assign_to(body[16], "n_clusters"), "initial n_clusters"))
    q = assign_to(body[17], "leaves_to_explore")
    if not isinstance(q, ast.IfExp):
        fail("initial leaves_to_explore is not a conditional expression", body[17])

    def natlist(e):
        if not isinstance(e, ast.List):
            fail("a list of leaf numbers was expected", e)
        return "[" + "; ".join(str(small_const(x, "leaf number")) for x in e.elts) + "]"
    envq = dict(envn)
    envq.update(envp)
    D["init_queue"] = f"if {nat_test(q.test, envq)} then {natlist(q.body)} else {natlist(q.orelse)}"
    lit(body[18], "last_gain = np.inf")
    l2 = assign_to(body[19], "leaf2node")
    if not (isinstance(l2, ast.Dict) and len(l2.keys) == 1):
        fail("initial leaf2node is not a one-entry dict", body[19])
    D["init_l2n_key"], D["init_l2n_val"] = str(small_const(l2.keys[0], "leaf2node key")), str(small_const(l2.values[0], "leaf2node value"))
    # ---- loop
    w = body[20]
    if not isinstance(w, ast.While) or w.orelse:
        fail("the main loop is not a plain while", w)
    t = w.test
    if not (isinstance(t, ast.BoolOp) and isinstance(t.op, ast.And) and len(t.values) == 3 and ast.unparse(t.values[0]) == "last_gain > 0"):
        fail("loop guard is not `last_gain > 0 and <leaves test> and <queue test>`", w)
    envg = {"n_leaves": "n_leaves", "max_leaves": "max_leaves", "len(leaves_to_explore)": "qlen"}
    D["guard"] = f"({nat_test(t.values[1], envg)}) && ({nat_test(t.values[2], envg)})"
    wb = clean(w.body)
    expect_len(wb, 3, "loop body", w)
    lit(wb[0], FBS)
    lit(wb[1], "last_gain = best_split.gain")
    g = wb[2]
    if not (isinstance(g, ast.If) and not g.orelse and ast.unparse(g.test) == "last_gain > 0"):
        fail("the update block is not guarded by `if last_gain > 0:`", g)
    ub = clean(g.body)
    i = 0

    def nxt(what):
        nonlocal i
        if i >= len(ub):
            fail(f"update block ends before {what}", g)
        i += 1
        return ub[i - 1]
    lit(nxt("leaf_indices"), "leaf_indices, = np.where(Z[best_split.leaf] == 1)")
    s = nxt("left_indices")
    if not (isinstance(s, ast.Assign) and ast.unparse(s.targets[0]) == "(left_indices,)" and isinstance(s.value, ast.Call)
            and ast.unparse(s.value.func) == "np.where" and len(s.value.args) == 1 and not s.value.keywords):
        fail("left_indices is not `left_indices, = np.where(<comparison>)`", s)
    D["goes_left"] = z_cmp(s.value.args[0], "X[leaf_indices, best_split.feature]", "best_split.threshold")
    lit(nxt("left_indices"), "left_indices = leaf_indices[left_indices]")
    s = nxt("right_indices")
    if ast.unparse(s) not in ("right_indices = np.setxor1d(leaf_indices, left_indices)", "right_indices = np.setxor1d(left_indices, leaf_indices)",
                              "right_indices = np.setdiff1d(leaf_indices, left_indices)"):
        fail("right_indices is not the complement of left_indices in the leaf", s)
    zu = []
    while i < len(ub) and sub2(ub[i], "Z") is not None:
        a, b, v = sub2(ub[i], "Z")
        zu.append(f"({sel(COL, a, 'Z row')}, {sel(SIDE, b, 'Z index set')}, {bit(v, 'Z value')})")
        i += 1
    D["Z_updates"] = "[" + "; ".join(zu) + "]"
    s = nxt("k = argmax")
    v = assign_to(s, "k")
    if not (isinstance(v, ast.Call) and not v.args and not v.keywords and isinstance(v.func, ast.Attribute) and v.func.attr == "argmax"
            and isinstance(v.func.value, ast.Subscript) and ast.unparse(v.func.value.value) == "Y"
            and isinstance(v.func.value.slice, ast.Tuple) and len(v.func.value.slice.elts) == 2 and ast.unparse(v.func.value.slice.elts[0]) == ":"):
        fail("k is not `Y[:, <column>].argmax()`", s)
    D["Y_argmax_col"] = sel(COL, v.func.value.slice.elts[1], "argmax column")
    yu = []
    while i < len(ub) and sub2(ub[i], "Y") is not None:
        a, b, v = sub2(ub[i], "Y")
        yu.append(f"({sel(CLUSTER, a, 'Y row')}, {sel(COL, b, 'Y column')}, {bit(v, 'Y value')})")
        i += 1
    D["Y_updates"] = "[" + "; ".join(yu) + "]"
    lit(nxt("_add_child"), "self.tree_._add_child(leaf2node[best_split.leaf], best_split)")
    lit(nxt("parent_depth"), "parent_depth = self.tree_.get_depth(leaf2node[best_split.leaf])")
    lu = []
    envl = {"n_leaves": "n_leaves"}
    while i < len(ub) and isinstance(ub[i], ast.Assign) and isinstance(ub[i].targets[0], ast.Subscript) and ast.unparse(ub[i].targets[0].value) == "leaf2node":
        lu.append(f"({sel(COL, ub[i].targets[0].slice, 'leaf2node key')}, fun n_leaves : nat => {nat_expr(ub[i].value, envl)})")
        i += 1
    D["l2n_updates"] = "[" + "; ".join(lu) + "]"
    lit(nxt("queue removal"), "leaves_to_explore.remove(best_split.leaf)")
    s = nxt("depth test")
    if not (isinstance(s, ast.If) and not s.orelse):
        fail("the appends are not guarded by a single `if <depth test>:`", s)
    D["depth_ok"] = nat_test(s.test, {"parent_depth": "parent_depth", "max_depth": "max_depth"})
    ap = []
    envs = {"len(left_indices)": "len_side", "len(right_indices)": "len_side", "self.min_samples_split": "mss"}
    for a in clean(s.body):
        if not (isinstance(a, ast.If) and not a.orelse and len(a.body) == 1 and isinstance(a.body[0], ast.Expr)
                and isinstance(a.body[0].value, ast.Call) and ast.unparse(a.body[0].value.func) == "leaves_to_explore.append"
                and len(a.body[0].value.args) == 1):
            fail("an append is not `if <size test>: leaves_to_explore.append(<leaf>)`", a)
        src = ast.unparse(a.test)
        sides = [k for k in ("left_indices", "right_indices") if k in src]
        if len(sides) != 1:
            fail("a size test does not mention exactly one of left_indices / right_indices", a)
        ap.append(f"({SIDE[sides[0]]}, (fun len_side mss : nat => {nat_test(a.test, envs)}), {sel(COL, a.body[0].value.args[0], 'appended leaf')})")
    D["queue_appends"] = "[" + "; ".join(ap) + "]"
    D["nl_next"] = increment(nxt("n_leaves increment"), "n_leaves", {"n_leaves": "n_leaves"})
    s = nxt("n_clusters increment")
    envc = {"n_clusters": "n_clusters", "best_split.left_target": "left_target", "best_split.right_target": "right_target"}

    def nc_chain(s):
        if not isinstance(s, ast.If):
            fail("n_clusters update is not an if/elif chain", s)
        b = clean(s.body)
        expect_len(b, 1, "n_clusters branch", s)
        then = increment(b[0], "n_clusters", envc)
        if not s.orelse:
            els = "n_clusters"
        elif len(s.orelse) == 1 and isinstance(s.orelse[0], ast.If):
            els = nc_chain(s.orelse[0])
        else:
            b2 = clean(s.orelse)
            expect_len(b2, 1, "n_clusters else branch", s)
            els = increment(b2[0], "n_clusters", envc)
        return f"if {nat_test(s.test, envc)} then {then} else {els}"
    D["nc_next"] = nc_chain(s)
    if i != len(ub):
        fail(f"unexpected statement after the n_clusters update: {ast.unparse(ub[i])[:100]}", ub[i])
    lit(body[21], "self.labels_ = (Y @ Z).argmax(0)")
    lit(body[22], "self.leaves_ = Z.argmax(0)")
    lit(body[23], "return self")
    # ---- predict / score
    fn = method(cls, "predict")
    args_are(fn, "self, X")
    b = clean(fn.body)
    expect_len(b, 3, "Kauri.predict", fn)
    lit(b[0], "check_is_fitted(self)")
    # hole: are the query rows converted to float64 (the number system fit chose the thresholds in) before routing?
    v = assign_to(b[1], "X")
    if ast.unparse(v) == "check_array(X, dtype=np.float64)":
        D["predict_float64"] = "true"
    elif ast.unparse(v) == "check_array(X)":
        D["predict_float64"] = "false"
    else:
        fail("Kauri.predict: input validation is neither check_array(X) nor check_array(X, dtype=np.float64)", b[1])
    lit(b[2], "return self.tree_.predict(X)")
    L["Kauri.predict"] = (fn.lineno, fn.end_lineno)
    fn = method(cls, "score")
    args_are(fn, "self, X, y=None")
    b = clean(fn.body)
    expect_len(b, 3, "Kauri.score", fn)
    lit(b[0], "y_pred = self.predict(X)")
    lit(b[1], "kernel = self._compute_kernel(X, y)")
    lit(b[2], "return gemini_objective(y_pred, kernel)")
    L["Kauri.score"] = (fn.lineno, fn.end_lineno)
    fn = method(cls, "fit_predict")
    b = clean(fn.body)
    expect_len(b, 1, "Kauri.fit_predict", fn)
    lit(b[0], "return self.fit(X, y).labels_")


def translate(src):
    mod = ast.parse(src)
    classes = {n.name: n for n in mod.body if isinstance(n, ast.ClassDef)}
    if "Tree" not in classes or "Kauri" not in classes:
        fail("classes Tree / Kauri not found")
    if "from ._utils import find_best_split, gemini_objective, Split" not in [ast.unparse(s) for s in mod.body]:
        fail("find_best_split / gemini_objective are no longer imported from ._utils in the modelled way")
    D, L = {}, {}
    translate_tree(classes["Tree"], D, L)
    translate_fit(classes["Kauri"], D, L)
    return D, L


TEMPLATE = """(* GENERATED by translator/tr_kaurifit.py from gemclus/tree/kauri.py - do not edit.
   source sha256 {sha}
   lines: {lines}
   The holes of the KAURI fit loop and of the array tree, as the source states them now; the control skeleton
   around them is the one of Model/KauriTree.v (checked statement by statement by the translator). *)
From Coq Require Import List Arith ZArith Bool.
Import ListNotations.
(* which leaf number: best_split.leaf | n_leaves *)
Inductive colsel := CLeaf | CNew.
(* which half of the split leaf: left_indices | right_indices; also split.left_target | split.right_target and
   children_left | children_right *)
Inductive sidesel := SLeft | SRight.
(* which cluster: k (old cluster of the leaf) | best_split.left_target | best_split.right_target *)
Inductive clsel := KOld | KLeft | KRight.
Record FitRules := {{
  r_ensure_min_samples : nat -> nat -> nat;                 (* min_samples_leaf, min_samples_split *)
  r_contradiction : nat -> nat -> bool;                     (* min_samples_leaf, min_samples_split -> ValueError *)
  r_max_leaves : option nat -> nat -> nat;                  (* self.max_leaves, n *)
  r_max_features : option nat -> nat -> nat;                (* self.max_features, d *)
  r_max_depth : option nat -> nat -> nat;                   (* self.max_depth, n *)
  r_init_Z_row : nat; r_init_Y_k : nat; r_init_Y_l : nat; r_init_nl : nat; r_init_nc : nat;
  r_init_queue : nat -> nat -> list nat;                    (* n, min_samples_split *)
  r_init_l2n_key : nat; r_init_l2n_val : nat;
  r_guard : nat -> nat -> nat -> bool;                      (* n_leaves, max_leaves, len(leaves_to_explore) *)
  r_goes_left : Z -> Z -> bool;                             (* X[i, feature], threshold *)
  r_Z_updates : list (colsel * sidesel * bool);             (* Z[row, index set] = value, in source order *)
  r_Y_argmax_col : colsel;                                  (* k = Y[:, col].argmax() *)
  r_Y_updates : list (clsel * colsel * bool);               (* Y[cluster, col] = value, in source order *)
  r_l2n_updates : list (colsel * (nat -> nat));             (* leaf2node[key] = f n_leaves, in source order *)
  r_depth_ok : nat -> nat -> bool;                          (* parent_depth, max_depth *)
  r_queue_appends : list (sidesel * (nat -> nat -> bool) * colsel);  (* if test (len side) mss: append leaf *)
  r_nl_next : nat -> nat;
  r_nc_next : nat -> nat -> nat -> nat;                     (* n_clusters, left_target, right_target *)
  r_root_target : nat; r_root_depth : nat;
  r_child_left : nat -> nat; r_child_right : nat -> nat;    (* n_nodes *)
  r_child_depth_l : nat -> nat; r_child_depth_r : nat -> nat;   (* depths[father] *)
  r_child_target_l : sidesel; r_child_target_r : sidesel;
  r_route_left : Z -> Z -> bool;                            (* X[:, feature], threshold *)
  r_route_true : sidesel; r_route_false : sidesel;          (* child receiving the rows that satisfy / fail the test *)
  r_predict_float64 : bool                                  (* Kauri.predict converts the query rows to float64 (fit's number system) *)
}}.
Definition kauri_fit_rules : FitRules := {{|
  (* validate_data(..., ensure_min_samples=<e>) *)
  r_ensure_min_samples := fun msl mss : nat => {ensure_min_samples};
  (* if <test>: raise ValueError *)
  r_contradiction := fun msl mss : nat => {contradiction};
  r_max_leaves := fun (max_leaves : option nat) (n : nat) => {max_leaves};
  r_max_features := fun (max_features : option nat) (d : nat) => {max_features};
  r_max_depth := fun (max_depth : option nat) (n : nat) => {max_depth};
  (* Z[<row>, :] = 1; Y[<k>, <l>] = 1; n_leaves = ..; n_clusters = .. *)
  r_init_Z_row := {init_Z_row}; r_init_Y_k := {init_Y_k}; r_init_Y_l := {init_Y_l}; r_init_nl := {init_nl}; r_init_nc := {init_nc};
  r_init_queue := fun n mss : nat => {init_queue};
  (* leaf2node = {{k: v}} *)
  r_init_l2n_key := {init_l2n_key}; r_init_l2n_val := {init_l2n_val};
  (* while last_gain > 0 and <..> and <..> *)
  r_guard := fun n_leaves max_leaves qlen : nat => {guard};
  r_goes_left := fun x th : Z => {goes_left};
  r_Z_updates := {Z_updates};
  r_Y_argmax_col := {Y_argmax_col};
  r_Y_updates := {Y_updates};
  r_l2n_updates := {l2n_updates};
  r_depth_ok := fun parent_depth max_depth : nat => {depth_ok};
  r_queue_appends := {queue_appends};
  r_nl_next := fun n_leaves : nat => {nl_next};
  r_nc_next := fun n_clusters left_target right_target : nat => {nc_next};
  (* Tree *)
  r_root_target := {root_target}; r_root_depth := {root_depth};
  r_child_left := fun n_nodes : nat => {child_left}; r_child_right := fun n_nodes : nat => {child_right};
  r_child_depth_l := fun father_depth : nat => {child_depth_l}; r_child_depth_r := fun father_depth : nat => {child_depth_r};
  r_child_target_l := {child_target_l}; r_child_target_r := {child_target_r};
  r_route_left := fun x th : Z => {route_left};
  r_route_true := {route_true}; r_route_false := {route_false};
  (* Kauri.predict: X = check_array(X[, dtype=np.float64]) *)
  r_predict_float64 := {predict_float64} |}}.
(* EXTRACT: kauri_fit_rules *)
"""


def main():
    try:
        raw = open(SRC, "rb").read()
        D, L = translate(raw.decode())
    except (Unknown, SyntaxError, OSError, UnicodeDecodeError) as e:
        print(f"tr_kaurifit: FAIL-CLOSED: {e}")
        sys.exit(1)
    except Exception as e:  # noqa  anything unexpected is a failure to translate, never a partial output
        print(f"tr_kaurifit: FAIL-CLOSED: {type(e).__name__}: {e}")
        sys.exit(1)
    lines = ", ".join(f"{k} {a}-{b}" for k, (a, b) in L.items())
    text = TEMPLATE.format(sha=hashlib.sha256(raw).hexdigest(), lines=lines, **D)
    old = open(OUT).read() if os.path.exists(OUT) else None
    if old != text:
        os.makedirs(os.path.dirname(OUT), exist_ok=True)
        open(OUT, "w").write(text)
        print("tr_kaurifit: wrote", OUT)
        # build.sh reports BUILD-FAIL only for a MISSING .vo: remove the compiled dependents so that a failing
        # re-compilation against the new rules cannot hide behind a stale object
        for rel in DEPENDENTS:
            for ext in (".vo", ".vos", ".vok", ".glob"):
                stale = os.path.join(ROOT, "coq", rel + ext)
                if os.path.exists(stale):
                    os.remove(stale)
    else:
        print("tr_kaurifit: unchanged")


if __name__ == "__main__":
    main()
