#!/usr/bin/env python3
"""Fail-closed translator: attribute data-flow of every estimator method  ->  coq/Gen/AttrFlow.v

For every class of the estimator modules of gemclus (the 18 concrete estimators, their abstract
base DiscriminativeModel, and the module functions of sparse/_base_sparse.py that receive the
estimator as first argument `clf`) and every method, the translator emits, in evaluation order, the
events on the estimator object:

    Read a / Write a          self.a loaded / self.a = ..., n, self.a = ..., self.set_params(a=...),
                              validate_data(self, ...) (sklearn stores n_features_in_)
    Save a / Restore a        v = self.a  with v a local bound exactly once / self.a = v  with that v
    Mut a                     in-place change of the object held in self.a: np.copyto(self.a, ..),
                              self.a[..] = .., self.a.update_params(..) / self.a._add_child(..)
    ReadParams / CheckFitted  self._validate_params(), self.get_params() / check_is_fitted(self)
    Call m pos kw             self.m(...), with the boolean-constant arguments (retain=False)
    CallAt C m pos kw         super().m(...) resolved to the next definition in the MRO, C.m(self, ...)
    IfFlag p v body           `if p:` / `if not p:` on a parameter p with a boolean default (retain)
    Branch a b, Loop b        every other if/else, conditional expression, short-circuit operand /
                              for, while, comprehension, lambda or method reference given to map/reduce
    Finally body fin          try: body finally: fin

plus, per class, the constructor argument names and the stores of the constructor chain
(attribute, Some arg when it is `self.attr = arg` unmodified / None for a constant or default).

What is NOT tracked (and is left to the dynamic side of the check): mutation through local aliases
(`weights`, the optimiser's parameter list), mutation of objects passed to library functions, and
sklearn's own handling of feature_names_in_.

Any AST node, decorator, use of `self` or callee that is not listed here makes the translator exit
non-zero WITHOUT writing the file.
"""
import ast, os, sys

REPO = os.environ.get("VERIF_REPO", "/repo")
ROOT = os.path.dirname(os.path.dirname(os.path.abspath(__file__)))
OUT = os.path.join(ROOT, "coq", "Gen", "AttrFlow.v")
FILES = ["_base_gemini.py", "linear/_linear_geminis.py", "mlp/_mlp_geminis.py", "sparse/_base_sparse.py",
         "sparse/_linear_sparse.py", "sparse/_mlp_sparse.py", "nonparametric/_categorical_models.py",
         "tree/douglas.py", "tree/kauri.py"]
EXTERNAL_BASES = {"ClusterMixin", "BaseEstimator", "ABC"}
# methods inherited from scikit-learn's BaseEstimator that the code calls on the estimator
SK_READPARAMS = {"_validate_params", "get_params"}
# methods of objects held in attributes: known to leave the object unchanged / known to change it
PURE_ATTR_METHODS = {"reshape", "sum", "argmax", "item", "copy", "astype", "min", "max", "tolist", "mean", "dot"}
MUTATING_ATTR_METHODS = {"update_params"}
# external functions that receive the estimator itself
EXT_WRITES = {"validate_data": ["n_features_in_"]}


class Unknown(Exception):
    pass


def fail(msg, node=None):
    raise Unknown(f"{msg} (line {getattr(node, 'lineno', '?')})")


# ------------------------------------------------------------------ event constructors (python side)
def q(s):
    if not (isinstance(s, str) and s.replace("_", "a").isalnum()):
        raise Unknown(f"not an identifier: {s!r}")
    return '"' + s + '"'


def ev_list(es):
    return "[" + "; ".join(es) + "]"


def evn(es):
    return "(evs " + ev_list(es) + ")" if es else "ENil"


def ob(v):
    return "None" if v is None else ("Some true" if v else "Some false")


def has_effect(es_txt):
    return any(k in es_txt for k in ("Write ", "Mut ", "Call ", "CallAt ", "Restore "))


# ------------------------------------------------------------------ module loading
class ClassInfo:
    def __init__(self, name, node, file):
        self.name, self.node, self.file = name, node, file
        self.gem_bases = []
        self.methods = {}     # name -> FunctionDef


def load():
    classes, functions, order = {}, {}, []
    for rel in FILES:
        path = os.path.join(REPO, "gemclus", rel)
        tree = ast.parse(open(path).read(), filename=path)
        for node in tree.body:
            if isinstance(node, ast.ClassDef):
                if node.name in classes:
                    fail("duplicate class " + node.name, node)
                ci = ClassInfo(node.name, node, rel)
                classes[node.name] = ci
                order.append(node.name)
                for it in node.body:
                    if isinstance(it, ast.FunctionDef):
                        for d in it.decorator_list:
                            if not (isinstance(d, ast.Name) and d.id == "abstractmethod"):
                                fail(f"decorator on {node.name}.{it.name}", it)
                        ci.methods[it.name] = it
                    elif isinstance(it, (ast.Assign, ast.AnnAssign, ast.Expr, ast.Pass)):
                        pass          # _parameter_constraints, docstrings
                    else:
                        fail("class-level statement", it)
            elif isinstance(node, ast.FunctionDef):
                # module functions that receive the estimator as first parameter named clf
                if node.args.args and node.args.args[0].arg == "clf":
                    functions[node.name] = (node, rel)
    for ci in classes.values():
        for b in ci.node.bases:
            nm = b.id if isinstance(b, ast.Name) else None
            if nm in classes:
                ci.gem_bases.append(nm)
            elif nm in EXTERNAL_BASES:
                pass
            else:
                fail(f"unknown base of {ci.name}", b)
        if len(ci.gem_bases) > 1:
            fail(f"{ci.name}: several gemclus bases (linear MRO assumed)", ci.node)
    return classes, functions, order


def mro(classes, name):
    out = [name]
    while classes[out[-1]].gem_bases:
        out.append(classes[out[-1]].gem_bases[0])
    return out


def is_estimator(classes, name):
    n = name
    while True:
        ci = classes[n]
        if any(isinstance(b, ast.Name) and b.id == "BaseEstimator" for b in ci.node.bases):
            return True
        if not ci.gem_bases:
            return False
        n = ci.gem_bases[0]


def is_abstract(classes, name):
    seen = set()
    for c in mro(classes, name):
        for m, fn in classes[c].methods.items():
            if m in seen:
                continue
            seen.add(m)
            if any(isinstance(d, ast.Name) and d.id == "abstractmethod" for d in fn.decorator_list):
                return True
    return False


# ------------------------------------------------------------------ the function walker
class Walker:
    def __init__(self, fn, selfname, owner, classes, functions, helper_mut, all_methods, hp_names):
        self.fn, self.me, self.owner = fn, selfname, owner
        self.hp_names = hp_names
        self.classes, self.functions = classes, functions
        self.helper_mut = helper_mut          # method name -> True if it stores into its own object
        self.all_methods = all_methods
        a = fn.args
        if a.vararg or a.kwarg or a.kwonlyargs or a.posonlyargs:
            fail("signature with *args/**kwargs/keyword-only", fn)
        self.params = [x.arg for x in a.args][1:]
        self.flags = {}
        defaults = a.defaults
        names = [x.arg for x in a.args]
        for nm, d in zip(names[len(names) - len(defaults):], defaults):
            if isinstance(d, ast.Constant) and isinstance(d.value, bool):
                self.flags[nm] = d.value
        # locals: how often each name is bound
        self.bind_count = {}
        for n in ast.walk(fn):
            if isinstance(n, ast.Name) and isinstance(n.ctx, (ast.Store, ast.Del)):
                self.bind_count[n.id] = self.bind_count.get(n.id, 0) + 1
            elif isinstance(n, (ast.FunctionDef, ast.AsyncFunctionDef, ast.ClassDef)) and n is not fn:
                fail("nested definition", n)
            elif isinstance(n, (ast.Global, ast.Nonlocal, ast.With, ast.AsyncWith, ast.Assert, ast.Delete, ast.Await,
                                ast.NamedExpr, ast.Match, ast.Import, ast.ImportFrom, ast.YieldFrom)):
                fail("unsupported statement " + type(n).__name__, n)
        for p in self.flags:
            if self.bind_count.get(p, 0):
                self.flags = {k: v for k, v in self.flags.items() if k != p}
        self.saved = {}        # local name -> attribute it is a saved copy of
        self.lambdas = {}      # local name -> Lambda node with self-events
        self.nontail_return = False

    # ---- helpers
    def is_me(self, n):
        return isinstance(n, ast.Name) and n.id == self.me

    def self_attr(self, n):
        """n is `self.a` -> 'a' else None"""
        if isinstance(n, ast.Attribute) and self.is_me(n.value):
            return n.attr
        return None

    def root_self_attr(self, n):
        """innermost self.a of an attribute/subscript chain, else None"""
        while isinstance(n, (ast.Attribute, ast.Subscript)):
            a = self.self_attr(n)
            if a is not None:
                return a
            n = n.value
        return None

    def const_bool(self, n):
        if isinstance(n, ast.Constant) and isinstance(n.value, bool):
            return n.value
        return None

    def call_args(self, call, drop_first=False):
        """events of the argument expressions, and the (pos, kw) boolean-constant summaries"""
        es, pos, kw = [], [], []
        args = call.args[1:] if drop_first else call.args
        for a in args:
            if isinstance(a, ast.Starred):
                fail("starred argument", a)
            es += self.expr(a)
            pos.append(self.const_bool(a))
        for k in call.keywords:
            if k.arg is None:
                # **mapping: allowed only for library calls; callers of self-methods never use it
                es += self.expr(k.value)
                kw.append(None)
                continue
            es += self.expr(k.value)
            kw.append((k.arg, self.const_bool(k.value)))
        return es, pos, kw

    def fmt_call(self, head, pos, kw):
        if any(k is None for k in kw):
            raise Unknown("**kwargs in a call of an estimator method")
        p = "[" + "; ".join(ob(v) for v in pos) + "]"
        k = "[" + "; ".join(f"({q(n)}, {ob(v)})" for n, v in kw) + "]"
        return f"{head} {p} {k}"

    def lambda_events(self, lam):
        if lam.args.vararg or lam.args.kwarg:
            fail("lambda signature", lam)
        return self.expr(lam.body)

    # ---- expressions (returns list of event strings, in evaluation order)
    def expr(self, n):
        if n is None:
            return []
        t = type(n)
        if t is ast.Constant:
            return []
        if t is ast.Name:
            if n.id == self.me:
                fail("bare use of the estimator object", n)
            if n.id in self.lambdas:
                fail("lambda with estimator events used outside map()", n)
            return []
        if t is ast.Attribute:
            a = self.self_attr(n)
            if a is not None:
                if a in self.all_methods:
                    fail(f"reference to bound method {a} outside map/reduce", n)
                return [f"Read {q(a)}"]
            # self.fit(...).labels_ : fit returns self
            if isinstance(n.value, ast.Call) and self.self_attr(n.value.func) == "fit":
                return self.expr(n.value) + [f"Read {q(n.attr)}"]
            return self.expr(n.value)
        if t is ast.Call:
            return self.call(n)
        if t is ast.BinOp:
            return self.expr(n.left) + self.expr(n.right)
        if t is ast.UnaryOp:
            return self.expr(n.operand)
        if t is ast.BoolOp:
            es = self.expr(n.values[0])
            rest = None
            for v in reversed(n.values[1:]):
                ve = self.expr(v)
                rest = ve + ([rest] if rest else [])
                rest = f"Branch {evn(rest)} ENil" if rest else None
            return es + ([rest] if rest else [])
        if t is ast.Compare:
            es = self.expr(n.left)
            for c in n.comparators:
                es += self.expr(c)
            return es
        if t is ast.IfExp:
            a, b = self.expr(n.body), self.expr(n.orelse)
            return self.expr(n.test) + ([f"Branch {evn(a)} {evn(b)}"] if a or b else [])
        if t is ast.Subscript:
            return self.expr(n.value) + self.expr(n.slice)
        if t is ast.Slice:
            return self.expr(n.lower) + self.expr(n.upper) + self.expr(n.step)
        if t in (ast.Tuple, ast.List, ast.Set):
            es = []
            for e in n.elts:
                if isinstance(e, ast.Starred):
                    fail("starred element", e)
                es += self.expr(e)
            return es
        if t is ast.Dict:
            es = []
            for k, v in zip(n.keys, n.values):
                es += self.expr(k) + self.expr(v)
            return es
        if t is ast.JoinedStr:
            es = []
            for v in n.values:
                es += self.expr(v)
            return es
        if t is ast.FormattedValue:
            return self.expr(n.value) + self.expr(n.format_spec)
        if t in (ast.ListComp, ast.SetComp, ast.GeneratorExp):
            return self.comp(n.generators, self.expr(n.elt))
        if t is ast.DictComp:
            return self.comp(n.generators, self.expr(n.key) + self.expr(n.value))
        if t is ast.Lambda:
            if self.lambda_events(n):
                fail("lambda with estimator events must be bound to a name and given to map()", n)
            return []
        if t is ast.Yield:
            return self.expr(n.value)
        if t is ast.Starred:
            fail("starred expression", n)
        fail("unknown expression node " + t.__name__, n)

    def comp(self, gens, inner):
        # [elt for t in it if c ...]: the first iterable is evaluated once, the rest per element
        def build(i):
            g = gens[i]
            if g.is_async:
                fail("async comprehension", g)
            body = []
            conds = []
            for c in g.ifs:
                conds += self.expr(c)
            nxt = (self.expr(gens[i + 1].iter) + [build(i + 1)]) if i + 1 < len(gens) else inner
            nxt = [x for x in nxt if x]
            if g.ifs:
                body = conds + ([f"Branch {evn(nxt)} ENil"] if nxt else [])
            else:
                body = nxt
            return f"Loop {evn(body)}" if body else ""
        self.target(gens[0].target, comp=True)
        lp = build(0)
        return self.expr(gens[0].iter) + ([lp] if lp else [])

    def call(self, n):
        f = n.func
        # ---- self.m(...)
        m = self.self_attr(f)
        if m is not None:
            if m in SK_READPARAMS:
                es, _, _ = self.call_args(n)
                return es + ["ReadParams"]
            if m == "set_params":
                if n.args:
                    fail("set_params with positional arguments", n)
                es, ws = [], []
                for k in n.keywords:
                    if k.arg is None:
                        fail("set_params(**mapping)", n)
                    es += self.expr(k.value)
                    ws.append(f"Write {q(k.arg)}")
                return es + ws
            if m in self.all_methods:
                es, pos, kw = self.call_args(n)
                return es + [self.fmt_call(f"Call {q(m)}", pos, kw)]
            if m in self.hp_names:
                # a callable hyper-parameter (base_kernel): the attribute is loaded, then called
                es, _, _ = self.call_args(n)
                return [f"Read {q(m)}"] + es
            fail(f"call of unknown estimator method {m}", n)
        # ---- super().m(...)
        if isinstance(f, ast.Attribute) and isinstance(f.value, ast.Call) and isinstance(f.value.func, ast.Name) \
                and f.value.func.id == "super" and not f.value.args:
            if self.owner is None:
                fail("super() outside a class", n)
            chain = mro(self.classes, self.owner)[1:]
            tgt = next((c for c in chain if f.attr in self.classes[c].methods), None)
            if tgt is None:
                fail(f"super().{f.attr} does not resolve inside gemclus", n)
            es, pos, kw = self.call_args(n)
            return es + [self.fmt_call(f"CallAt {q(tgt)} {q(f.attr)}", pos, kw)]
        # ---- Cls.m(self, ...)
        if isinstance(f, ast.Attribute) and isinstance(f.value, ast.Name) and f.value.id in self.classes \
                and n.args and self.is_me(n.args[0]):
            c = f.value.id
            tgt = next((k for k in mro(self.classes, c) if f.attr in self.classes[k].methods), None)
            if tgt is None:
                fail(f"{c}.{f.attr} does not resolve", n)
            es, pos, kw = self.call_args(n, drop_first=True)
            return es + [self.fmt_call(f"CallAt {q(tgt)} {q(f.attr)}", pos, kw)]
        # ---- self.a.m(...) / self.a.b.m(...): method of an object held in an attribute
        if isinstance(f, ast.Attribute):
            root = self.root_self_attr(f.value)
            if root is not None:
                es = self.expr(f.value)
                aes, _, _ = self.call_args(n)
                if f.attr in MUTATING_ATTR_METHODS or self.helper_mut.get(f.attr) is True:
                    return es + aes + [f"Mut {q(root)}"]
                if f.attr in PURE_ATTR_METHODS or self.helper_mut.get(f.attr) is False:
                    return es + aes
                fail(f"method {f.attr} of an attribute object: not known to be pure or mutating", n)
        # ---- plain functions
        if isinstance(f, ast.Name):
            nm = f.id
            if nm in EXT_WRITES and n.args and self.is_me(n.args[0]):
                es, _, _ = self.call_args(n, drop_first=True)
                return es + [f"Write {q(a)}" for a in EXT_WRITES[nm]]
            if nm == "check_is_fitted" and len(n.args) == 1 and self.is_me(n.args[0]) and not n.keywords:
                return ["CheckFitted"]
            if nm in self.functions and n.args and self.is_me(n.args[0]):
                es, pos, kw = self.call_args(n, drop_first=True)
                return es + [self.fmt_call(f"Call {q(nm)}", pos, kw)]
            if nm in ("hasattr", "getattr") and n.args and self.is_me(n.args[0]):
                if len(n.args) < 2 or not (isinstance(n.args[1], ast.Constant) and isinstance(n.args[1].value, str)):
                    fail("hasattr/getattr on the estimator with a computed name", n)
                es = []
                for a in n.args[2:]:
                    es += self.expr(a)
                return es + [f"Read {q(n.args[1].value)}"]
            if nm in ("setattr", "delattr", "vars"):
                fail(f"{nm} on objects is not supported", n)
            if nm in ("map", "reduce") and n.args:
                first = n.args[0]
                body = None
                if isinstance(first, ast.Name) and first.id in self.lambdas:
                    body = self.lambda_events(self.lambdas[first.id])
                elif self.self_attr(first) is not None and self.self_attr(first) in self.all_methods:
                    body = [self.fmt_call(f"Call {q(self.self_attr(first))}", [], [])]
                if body is not None:
                    es = []
                    for a in n.args[1:]:
                        es += self.expr(a)
                    if n.keywords:
                        fail("keywords in map/reduce", n)
                    return es + [f"Loop {evn(body)}"]
        # ---- np.copyto(self.a, src): in-place store into the attribute's array
        if isinstance(f, ast.Attribute) and f.attr == "copyto" and isinstance(f.value, ast.Name) and n.args:
            es, _, _ = self.call_args(n)
            root = self.root_self_attr(n.args[0])
            return es + ([f"Mut {q(root)}"] if root is not None else [])
        # ---- any other library call: evaluate callee expression and arguments
        es = self.expr(f)
        aes, _, _ = self.call_args(n)
        return es + aes

    # ---- assignment targets
    def target(self, tg, value_name=None, comp=False):
        t = type(tg)
        if t is ast.Name:
            if tg.id == self.me:
                fail("assignment to the estimator name", tg)
            return []
        if t in (ast.Tuple, ast.List):
            es = []
            for e in tg.elts:
                es += self.target(e)
            return es
        if comp:
            fail("comprehension target", tg)
        if t is ast.Attribute:
            a = self.self_attr(tg)
            if a is not None:
                if value_name is not None and self.saved.get(value_name) == a:
                    return [f"Restore {q(a)}"]
                return [f"Write {q(a)}"]
            root = self.root_self_attr(tg.value)
            if root is not None:
                return self.expr(tg.value) + [f"Mut {q(root)}"]
            return self.expr(tg.value)
        if t is ast.Subscript:
            root = self.root_self_attr(tg.value)
            es = self.expr(tg.value) + self.expr(tg.slice)
            return es + ([f"Mut {q(root)}"] if root is not None else [])
        fail("assignment target " + t.__name__, tg)

    # ---- statements
    def ends_with_return(self, stmts):
        if not stmts:
            return False
        last = stmts[-1]
        if isinstance(last, ast.Return):
            return True
        if isinstance(last, ast.If) and last.orelse:
            return self.ends_with_return(last.body) and self.ends_with_return(last.orelse)
        return False

    def block(self, stmts, top=False):
        es = []
        for i, s in enumerate(stmts):
            rest = stmts[i + 1:]
            # if c: ...; return x      is       if c: ...; return x
            # rest                              else: rest
            if isinstance(s, ast.If) and rest and self.ends_with_return(s.body) and self.flag_test(s.test) is None:
                a = self.block(s.body, top=top)
                b = self.block(s.orelse + rest, top=top)
                return es + self.expr(s.test) + ([f"Branch {evn(a)} {evn(b)}"] if a or b else [])
            es += self.stmt(s, tail=top and i == len(stmts) - 1)
        return es

    def flag_test(self, test):
        if isinstance(test, ast.Name) and test.id in self.flags:
            return test.id, True
        if isinstance(test, ast.UnaryOp) and isinstance(test.op, ast.Not) and isinstance(test.operand, ast.Name) \
                and test.operand.id in self.flags:
            return test.operand.id, False
        return None

    def stmt(self, s, tail=False):
        t = type(s)
        if t is ast.Expr:
            if isinstance(s.value, ast.Constant):
                return []
            return self.expr(s.value)
        if t is ast.Pass or t is ast.Break or t is ast.Continue:
            return []
        if t is ast.Assign:
            # v = lambda ...: body with estimator events
            if isinstance(s.value, ast.Lambda) and len(s.targets) == 1 and isinstance(s.targets[0], ast.Name) \
                    and self.lambda_events(s.value):
                if self.bind_count.get(s.targets[0].id) != 1:
                    fail("rebinding of a lambda name", s)
                self.lambdas[s.targets[0].id] = s.value
                return []
            # v = self.a with v bound exactly once: a saved copy
            a = self.self_attr(s.value)
            if a is not None and a not in self.all_methods and len(s.targets) == 1 and isinstance(s.targets[0], ast.Name) \
                    and self.bind_count.get(s.targets[0].id) == 1:
                self.saved[s.targets[0].id] = a
                return [f"Save {q(a)}"]
            es = self.expr(s.value)
            vn = s.value.id if isinstance(s.value, ast.Name) else None
            for tg in s.targets:
                es += self.target(tg, value_name=vn)
            return es
        if t is ast.AnnAssign:
            es = self.expr(s.value)
            return es + (self.target(s.target) if s.value is not None else [])
        if t is ast.AugAssign:
            a = self.self_attr(s.target)
            if a is not None:
                return [f"Read {q(a)}"] + self.expr(s.value) + [f"Write {q(a)}"]
            if isinstance(s.target, ast.Name):
                if s.target.id == self.me:
                    fail("augmented assignment to the estimator name", s)
                return self.expr(s.value)
            root = self.root_self_attr(s.target)
            es = self.expr(s.target.value) + (self.expr(s.target.slice) if isinstance(s.target, ast.Subscript) else [])
            return es + self.expr(s.value) + ([f"Mut {q(root)}"] if root is not None else [])
        if t is ast.Return:
            if not tail:
                self.nontail_return = True
            if s.value is not None and self.is_me(s.value):
                return []
            return self.expr(s.value)
        if t is ast.Raise:
            return self.expr(s.exc) + self.expr(s.cause)
        if t is ast.If:
            es = self.expr(s.test)
            ft = self.flag_test(s.test)
            a, b = self.block(s.body, top=tail), self.block(s.orelse, top=tail)
            if ft is not None:
                p, v = ft
                out = []
                if a:
                    out.append(f"IfFlag {q(p)} {'true' if v else 'false'} {evn(a)}")
                if b:
                    out.append(f"IfFlag {q(p)} {'false' if v else 'true'} {evn(b)}")
                return out
            return es + ([f"Branch {evn(a)} {evn(b)}"] if a or b else [])
        if t is ast.While:
            test = self.expr(s.test)
            body = self.block(s.body) + test
            return test + ([f"Loop {evn(body)}"] if body else []) + self.block(s.orelse)
        if t is ast.For:
            it = self.expr(s.iter)
            tg = self.target(s.target)
            body = tg + self.block(s.body)
            return it + ([f"Loop {evn(body)}"] if body else []) + self.block(s.orelse)
        if t is ast.Try:
            if s.handlers or s.orelse or not s.finalbody:
                fail("try with except/else (only try/finally is supported)", s)
            was = self.nontail_return
            body = self.block(s.body)
            # `return` as last statement of the try body of a tail try statement is a tail return
            if tail and s.body and isinstance(s.body[-1], ast.Return):
                self.nontail_return = was or any(isinstance(x, ast.Return) for b in s.body[:-1] for x in ast.walk(b))
            fin = self.block(s.finalbody)
            return [f"Finally {evn(body)} {evn(fin)}"]
        fail("unknown statement " + t.__name__, s)

    def run(self):
        body = self.fn.body
        es = self.block(body, top=True)
        if self.nontail_return and has_effect(" ".join(es)):
            fail(f"{self.fn.name}: early return in a function that writes or calls (path-sensitive must-write analysis not supported)", self.fn)
        return es


# ------------------------------------------------------------------ constructors
def ctor_info(classes, name):
    """(args, stores) with stores = [(attr, argname or None)] for the whole constructor chain, in execution order."""
    ci = classes[name]
    owner = next((c for c in mro(classes, name) if "__init__" in classes[c].methods), None)
    if owner is None:
        fail(f"{name}: no constructor inside gemclus", ci.node)
    fn = classes[owner].methods["__init__"]
    a = fn.args
    if a.vararg or a.kwarg or a.kwonlyargs or a.posonlyargs:
        fail("constructor with *args/**kwargs", fn)
    args = [x.arg for x in a.args][1:]
    if len(a.defaults) != len(args):
        fail("constructor argument without default", fn)
    stores = []
    for s in fn.body:
        if isinstance(s, ast.Expr) and isinstance(s.value, ast.Constant):
            continue
        if isinstance(s, ast.Expr) and isinstance(s.value, ast.Call):
            c = s.value
            f = c.func
            parent = None
            if isinstance(f, ast.Attribute) and f.attr == "__init__":
                if isinstance(f.value, ast.Call) and isinstance(f.value.func, ast.Name) and f.value.func.id == "super" \
                        and not f.value.args and not c.args:
                    chain = mro(classes, owner)[1:]
                    parent = chain[0] if chain else None
                elif isinstance(f.value, ast.Name) and f.value.id in classes and len(c.args) == 1 \
                        and isinstance(c.args[0], ast.Name) and c.args[0].id == "self":
                    parent = f.value.id
            if parent is None:
                fail("constructor statement is not a parent constructor call with keyword arguments", s)
            pargs, pstores = ctor_info(classes, parent)
            passed = {}
            for k in c.keywords:
                if k.arg is None or k.arg not in pargs:
                    fail("parent constructor keyword", s)
                if isinstance(k.value, ast.Name) and k.value.id in args:
                    passed[k.arg] = k.value.id
                elif isinstance(k.value, ast.Constant):
                    passed[k.arg] = None
                else:
                    fail("parent constructor argument is neither an own argument nor a constant", s)
            for attr, src in pstores:
                stores.append((attr, passed.get(src) if src is not None else None))
            continue
        if isinstance(s, ast.Assign) and len(s.targets) == 1 and isinstance(s.targets[0], ast.Attribute) \
                and isinstance(s.targets[0].value, ast.Name) and s.targets[0].value.id == "self":
            v = s.value
            if isinstance(v, ast.Name) and v.id in args:
                stores.append((s.targets[0].attr, v.id))
            elif isinstance(v, ast.Constant):
                stores.append((s.targets[0].attr, None))
            else:
                fail("constructor stores a computed value", s)
            continue
        fail("constructor statement", s)
    return args, stores


# ------------------------------------------------------------------ main
def generate():
    classes, functions, order = load()
    estimators = [c for c in order if is_estimator(classes, c)]
    helpers = [c for c in order if c not in estimators]
    all_methods = set()
    for c in estimators:
        all_methods |= set(classes[c].methods)
    all_methods |= set(functions)
    all_methods.discard("__init__")
    # helper classes (Tree): which of their methods store into their own object
    helper_mut = {}
    for h in helpers:
        for m, fn in classes[h].methods.items():
            if m == "__init__" or not fn.args.args:
                continue
            me = fn.args.args[0].arg
            mut = False
            for n in ast.walk(fn):
                if isinstance(n, (ast.Attribute, ast.Subscript)) and isinstance(n.ctx, (ast.Store, ast.Del)):
                    r = n
                    while isinstance(r, (ast.Attribute, ast.Subscript)):
                        r = r.value
                    if isinstance(r, ast.Name) and r.id == me:
                        mut = True
                if isinstance(n, ast.AugAssign):
                    r = n.target
                    while isinstance(r, (ast.Attribute, ast.Subscript)):
                        r = r.value
                    if isinstance(r, ast.Name) and r.id == me:
                        mut = True
            if m in helper_mut and helper_mut[m] != mut:
                fail(f"helper method {m} defined twice with different purity")
            helper_mut[m] = mut
    hp_names = set()
    for c in estimators:
        hp_names |= set(ctor_info(classes, c)[0])
    out = []
    w = out.append
    w("(* GENERATED by translator/tr_attrflow.py from gemclus/{" + ", ".join(FILES) + "} - do not edit.")
    w("   Attribute data-flow (reads / writes / calls on the estimator object, evaluation order) of every method of")
    w("   every estimator class, constructor argument names and constructor stores.  See the translator's header for")
    w("   the exact meaning of each event and for what is not tracked. *)")
    w("From Coq Require Import List String.")
    w("From GV Require Import Model.Lifecycle.")
    w("Import ListNotations.")
    w("Open Scope string_scope.")
    w("")
    bodies = {}
    # pseudo-methods: module functions with the estimator as first parameter
    for fname, (fn, rel) in functions.items():
        wk = Walker(fn, "clf", None, classes, functions, helper_mut, all_methods, hp_names)
        es = wk.run()
        ident = f"fn_{fname}"
        w(f"(* gemclus/{rel}::{fname}(clf, ...) *)")
        w(f"Definition {ident} : method := mk_method {q(fname)} {q('module')} "
          f"[{'; '.join(q(p) for p in wk.params)}] [{'; '.join(f'({q(k)}, {str(v).lower()})' for k, v in wk.flags.items())}]")
        w(f"  {ev_list(es)}.")
        bodies[("module", fname)] = ident
    for c in estimators:
        ci = classes[c]
        for m, fn in ci.methods.items():
            if m == "__init__":
                continue
            if not fn.args.args or fn.args.args[0].arg != "self":
                fail(f"{c}.{m}: first parameter is not self", fn)
            wk = Walker(fn, "self", c, classes, functions, helper_mut, all_methods, hp_names)
            es = wk.run()
            ident = f"m_{c}_{m}"
            w(f"(* gemclus/{ci.file}::{c}.{m} *)")
            w(f"Definition {ident} : method := mk_method {q(m)} {q(c)} "
              f"[{'; '.join(q(p) for p in wk.params)}] [{'; '.join(f'({q(k)}, {str(v).lower()})' for k, v in wk.flags.items())}]")
            w(f"  {ev_list(es)}.")
            bodies[(c, m)] = ident
    w("")
    names = []
    for c in estimators:
        chain = mro(classes, c)
        meths = []
        for k in chain:
            for m in classes[k].methods:
                if m != "__init__":
                    meths.append(bodies[(k, m)])
        meths += [bodies[("module", f)] for f in functions]
        args, stores = ctor_info(classes, c)
        concrete = not is_abstract(classes, c)
        w(f"Definition k_{c} : klass := mk_klass {q(c)} {'true' if concrete else 'false'} [{'; '.join(q(x) for x in chain)}]")
        w(f"  [{'; '.join(q(a) for a in args)}]")
        w("  [" + "; ".join(f"({q(a)}, {'Some ' + q(s) if s is not None else 'None'})" for a, s in stores) + "]")
        w(f"  [{'; '.join(meths)}].")
        names.append(f"k_{c}")
    w("")
    w(f"Definition table : list klass := [{'; '.join(names)}].")
    w("(* EXTRACT: table *)")
    return "\n".join(out) + "\n"


def main():
    try:
        text = generate()
    except Unknown as e:
        print("tr_attrflow: UNKNOWN CONSTRUCT:", e, file=sys.stderr)
        sys.exit(3)
    except (OSError, SyntaxError) as e:
        print("tr_attrflow: cannot read sources:", e, file=sys.stderr)
        sys.exit(4)
    os.makedirs(os.path.dirname(OUT), exist_ok=True)
    if not os.path.exists(OUT) or open(OUT).read() != text:
        open(OUT, "w").write(text)
    print("tr_attrflow: ok")


if __name__ == "__main__":
    main()
