#!/usr/bin/env python3
"""Fail-closed translator: gemclus/mlcl.py  ->  coq/Gen/MlclRules.v   (property C14)

`_check_structural_constraint`, `_check_linking_constraint` and the two decorators inside
`add_mlcl_constraint` are matched statement by statement against the control skeleton that the
hand-written model coq/Model/Mlcl.v assumes.  Only the *holes* are translated, into the first-order
rule records of Model/Mlcl.v (LinkRules, StructRules, LoopRule/UpdRule):

  _check_linking_constraint   the `len(x) <op> k -> None` rule of each argument (normalised), the
                              check_array keywords ensure_2d / ensure_min_features, the two columns of
                              each self-pair test, the and/or and the two length tests of the guard
  _check_structural_constraint which list and which columns feed unique_indices, which list / columns
                              feed the adjacency, the matrix entries set, directed=, the while test,
                              the start node samples_to_explore[k], whether the component is mapped
                              back through unique_indices, r of combinations, which list the inner
                              loop reads and the orientations (i == pair[a] and j == pair[b]) of the
                              raising test (names resolved to columns, sorted)
  decorate_grads              per loop, in order: the list iterated, and/or and operands of the
                              membership test, and per update line (positions resolved through the
                              `last_indices.index(..)` assignment to the pair's first/second sample):
                              target row, += / -=, presence of `factor *`, the two operands of the
                              difference of prediction rows
  decorate_batch              no holes: compared literally (recorded indices = subset.tolist(), the
                              batch is X[subset]; modelled for C10 in Model/Batch.v)

Local variable names are read from the AST (renaming them changes nothing); equivalent spellings of a
length test (`len(x) > 0`, `len(x) >= 1`, `len(x) != 0`, `0 < len(x)`) give the same normalised rule;
`g[a] += e` and `g[a] = g[a] + e`, `factor * d` and `d * factor` give the same rule.  Anything else that
is not the expected node makes the translator exit non-zero WITHOUT writing: the build prints
TRANSLATOR-FAIL, the previous Gen file stays, and C14 relies on the correspondence alone.

The output is rewritten only when its text changes; then the compiled objects of the files that depend
on it (Proofs/MlclGen, Props/C14) are removed so that a failing recompilation shows up as BUILD-FAIL.
"""
import ast
import hashlib
import os
import sys

REPO = os.environ.get("VERIF_REPO", "/repo")
ROOT = os.path.dirname(os.path.dirname(os.path.abspath(__file__)))
SRC = os.path.join(REPO, "gemclus", "mlcl.py")
OUT = os.path.join(ROOT, "coq", "Gen", "MlclRules.v")
DEPENDENTS = [("Proofs", "MlclGen"), ("Props", "C14")]


class Unknown(Exception):
    pass


def fail(msg, node=None):
    where = f" (line {getattr(node, 'lineno', '?')})" if node is not None else ""
    raise Unknown(msg + where)


def need(cond, msg, node=None):
    if not cond:
        fail(msg, node)


def body_of(fn):
    b = list(fn.body)
    if b and isinstance(b[0], ast.Expr) and isinstance(b[0].value, ast.Constant) and isinstance(b[0].value.value, str):
        b = b[1:]
    return b


def lit(s, text):
    got = ast.unparse(s)
    if got != text:
        fail(f"statement differs from the modelled skeleton: expected `{text}` got `{got[:160]}`", s)


def is_name(e, name=None):
    return isinstance(e, ast.Name) and (name is None or e.id == name)


def nat_const(e, what):
    need(isinstance(e, ast.Constant) and isinstance(e.value, int) and not isinstance(e.value, bool) and 0 <= e.value <= 1000,
         f"{what}: a small non-negative integer literal was expected, got `{ast.unparse(e)}`", e)
    return e.value


def bool_const(e, what):
    need(isinstance(e, ast.Constant) and isinstance(e.value, bool), f"{what}: True/False expected, got `{ast.unparse(e)}`", e)
    return e.value


def raises_value_error(stmts, what):
    need(len(stmts) == 1 and isinstance(stmts[0], ast.Raise) and isinstance(stmts[0].exc, ast.Call)
         and is_name(stmts[0].exc.func, "ValueError") and stmts[0].cause is None,
         f"{what}: a single `raise ValueError(..)` was expected", stmts[0] if stmts else None)


# ------------------------------------------------------------------ normalised length tests
def len_test(e, what):
    """`len(V) <op> k` or `k <op> len(V)`  ->  (V, normalised ncmp as Coq text)"""
    need(isinstance(e, ast.Compare) and len(e.ops) == 1, f"{what}: a single comparison on a length was expected, got `{ast.unparse(e)}`", e)
    a, b, op = e.left, e.comparators[0], type(e.ops[0])

    def is_len(x):
        return isinstance(x, ast.Call) and is_name(x.func, "len") and len(x.args) == 1 and not x.keywords and is_name(x.args[0])
    flip = {ast.Lt: ast.Gt, ast.Gt: ast.Lt, ast.LtE: ast.GtE, ast.GtE: ast.LtE, ast.Eq: ast.Eq, ast.NotEq: ast.NotEq}
    need(op in flip, f"{what}: comparison operator not supported in `{ast.unparse(e)}`", e)
    if is_len(b) and not is_len(a):
        a, b, op = b, a, flip[op]
    need(is_len(a), f"{what}: `len(<name>)` expected in `{ast.unparse(e)}`", e)
    k = nat_const(b, what)
    var = a.args[0].id
    if op is ast.Lt:
        r = ("NLt", k)
    elif op is ast.LtE:
        r = ("NLt", k + 1)
    elif op is ast.Gt:
        r = ("NGe", k + 1)
    elif op is ast.GtE:
        r = ("NGe", k)
    elif op is ast.Eq:
        r = ("NLt", 1) if k == 0 else ("NEq", k)
    else:
        r = ("NGe", 1) if k == 0 else ("NNe", k)
    return var, f"{r[0]} {r[1]}"


def which_of(name, ml, cl, node, what):
    need(name in (ml, cl), f"{what}: `{name}` is neither the must-link nor the cannot-link list", node)
    return "WML" if name == ml else "WCL"


def sub_const(e, base, what):
    """`base[c]` -> c"""
    need(isinstance(e, ast.Subscript) and is_name(e.value, base), f"{what}: `{base}[<int>]` expected, got `{ast.unparse(e)}`", e)
    return nat_const(e.slice, what)


# ------------------------------------------------------------------ _check_structural_constraint
def tr_structural(fn):
    a = fn.args
    need(len(a.args) == 2 and not (a.vararg or a.kwarg or a.kwonlyargs or a.posonlyargs or a.defaults),
         "_check_structural_constraint: signature changed", fn)
    ml, cl = a.args[0].arg, a.args[1].arg
    b = body_of(fn)
    need(len(b) == 6, f"_check_structural_constraint: expected 6 statements, found {len(b)}", fn)
    D = {}
    # 0: unique_indices = [p[c] for p in L] + [p[c'] for p in L] (+ ...)
    s = b[0]
    need(isinstance(s, ast.Assign) and len(s.targets) == 1 and is_name(s.targets[0]), "unique indices: plain assignment expected", s)
    U = s.targets[0].id
    parts = []

    def flat(e):
        if isinstance(e, ast.BinOp) and isinstance(e.op, ast.Add):
            flat(e.left)
            flat(e.right)
        else:
            parts.append(e)
    flat(s.value)
    cols, lists = [], set()
    for c in parts:
        need(isinstance(c, ast.ListComp) and len(c.generators) == 1, "unique indices: list comprehension expected", c)
        g = c.generators[0]
        need(is_name(g.target) and is_name(g.iter) and not g.ifs and not g.is_async, "unique indices: `for p in <list>` expected", c)
        cols.append(sub_const(c.elt, g.target.id, "unique indices"))
        lists.add(g.iter.id)
    need(len(lists) == 1, "unique indices: the comprehensions read different lists", s)
    D["s_uniq_list"] = which_of(lists.pop(), ml, cl, s, "unique indices")
    D["s_uniq_cols"] = "[" + "; ".join(map(str, cols)) + "]"
    # 1: unique_indices = list(set(unique_indices))
    lit(b[1], f"{U} = list(set({U}))")
    # 2: connection_matrix = np.zeros((len(U), len(U)))
    s = b[2]
    need(isinstance(s, ast.Assign) and len(s.targets) == 1 and is_name(s.targets[0]), "adjacency: plain assignment expected", s)
    M = s.targets[0].id
    lit(s, f"{M} = np.zeros((len({U}), len({U})))")
    # 3: for pair in L: i, j = U.index(pair[a]), U.index(pair[b]); M[i, j] = M[j, i] = 1
    s = b[3]
    need(isinstance(s, ast.For) and not s.orelse and is_name(s.target) and is_name(s.iter) and len(s.body) == 2, "adjacency loop changed shape", s)
    pv = s.target.id
    D["s_edge_list"] = which_of(s.iter.id, ml, cl, s, "adjacency loop")
    s0, s1 = s.body
    need(isinstance(s0, ast.Assign) and len(s0.targets) == 1 and isinstance(s0.targets[0], ast.Tuple) and len(s0.targets[0].elts) == 2
         and all(is_name(t) for t in s0.targets[0].elts) and isinstance(s0.value, ast.Tuple) and len(s0.value.elts) == 2,
         "adjacency loop: `i, j = U.index(pair[a]), U.index(pair[b])` expected", s0)
    pi, pj = (t.id for t in s0.targets[0].elts)
    need(pi != pj, "adjacency loop: the two position names coincide", s0)
    ec = []
    for v in s0.value.elts:
        need(isinstance(v, ast.Call) and ast.unparse(v.func) == f"{U}.index" and len(v.args) == 1 and not v.keywords,
             f"adjacency loop: `{U}.index(..)` expected", v)
        ec.append(sub_const(v.args[0], pv, "adjacency loop"))
    D["s_edge_cols"] = f"({ec[0]}, {ec[1]})"
    need(isinstance(s1, ast.Assign) and isinstance(s1.value, ast.Constant) and s1.value.value == 1 and not isinstance(s1.value.value, bool),
         "adjacency loop: the entries must be set to 1", s1)
    ents = []
    for t in s1.targets:
        need(isinstance(t, ast.Subscript) and is_name(t.value, M) and isinstance(t.slice, ast.Tuple) and len(t.slice.elts) == 2
             and all(is_name(x) and x.id in (pi, pj) for x in t.slice.elts), f"adjacency loop: `{M}[i, j]` target expected", t)
        ents.append("(" + ", ".join("SI" if x.id == pi else "SJ" for x in t.slice.elts) + ")")
    D["s_edge_entries"] = "[" + "; ".join(sorted(set(ents))) + "]"
    # 4: samples_to_explore = list(range(len(U)))
    s = b[4]
    need(isinstance(s, ast.Assign) and len(s.targets) == 1 and is_name(s.targets[0]), "exploration list: plain assignment expected", s)
    TD = s.targets[0].id
    lit(s, f"{TD} = list(range(len({U})))")
    # 5: while len(TD) != 0: ...
    w = b[5]
    need(isinstance(w, ast.While) and not w.orelse, "exploration loop is not a plain while", w)
    var, D["s_loop"] = len_test(w.test, "exploration loop guard")
    need(var == TD, "exploration loop guard does not test the exploration list", w)
    wb = w.body
    need(len(wb) == 4, f"exploration loop: expected 4 statements, found {len(wb)}", w)
    #   reach = csgraph.breadth_first_order(M, TD[k], directed=.., return_predecessors=False)
    s = wb[0]
    need(isinstance(s, ast.Assign) and len(s.targets) == 1 and is_name(s.targets[0]) and isinstance(s.value, ast.Call)
         and ast.unparse(s.value.func) == "csgraph.breadth_first_order" and len(s.value.args) == 2 and is_name(s.value.args[0], M),
         "exploration loop: `reach = csgraph.breadth_first_order(matrix, start, ..)` expected", s)
    RN = s.targets[0].id
    D["s_start"] = str(sub_const(s.value.args[1], TD, "BFS start node"))
    kws = {k.arg: k.value for k in s.value.keywords}
    need(set(kws) == {"directed", "return_predecessors"}, "BFS keywords changed", s)
    D["s_directed"] = "true" if bool_const(kws["directed"], "directed=") else "false"
    need(bool_const(kws["return_predecessors"], "return_predecessors=") is False, "BFS must not return predecessors", s)
    #   for node in reach: TD.remove(node)
    s = wb[1]
    need(isinstance(s, ast.For) and is_name(s.target) and is_name(s.iter, RN) and not s.orelse and len(s.body) == 1, "removal loop changed shape", s)
    lit(s.body[0], f"{TD}.remove({s.target.id})")
    #   component = [U[node] for node in reach]    |  [node for node in reach]  |  list(reach)
    s = wb[2]
    need(isinstance(s, ast.Assign) and len(s.targets) == 1 and is_name(s.targets[0]), "component: plain assignment expected", s)
    CP = s.targets[0].id
    v = s.value
    if isinstance(v, ast.ListComp) and len(v.generators) == 1 and is_name(v.generators[0].target) and is_name(v.generators[0].iter, RN) \
            and not v.generators[0].ifs:
        nv = v.generators[0].target.id
        if ast.unparse(v.elt) == f"{U}[{nv}]":
            D["s_map_back"] = "true"
        elif ast.unparse(v.elt) == nv:
            D["s_map_back"] = "false"
        else:
            fail("component: element is neither unique_indices[node] nor node", v)
    elif ast.unparse(v) == f"list({RN})":
        D["s_map_back"] = "false"
    else:
        fail("component: comprehension over the reachable nodes expected", s)
    #   for i, j in itertools.combinations(component, r=2): for pair in L': [pi, pj = pair]; if <orientations>: raise ValueError
    s = wb[3]
    need(isinstance(s, ast.For) and not s.orelse and isinstance(s.target, ast.Tuple) and len(s.target.elts) == 2
         and all(is_name(t) for t in s.target.elts) and isinstance(s.iter, ast.Call)
         and ast.unparse(s.iter.func) == "itertools.combinations" and len(s.body) == 1, "combination loop changed shape", s)
    ci, cj = (t.id for t in s.target.elts)
    need(ci != cj, "combination loop: the two element names coincide", s)
    it = s.iter
    if len(it.args) == 2 and not it.keywords:
        need(is_name(it.args[0], CP), "combinations is not over the component", s)
        r = nat_const(it.args[1], "combinations r")
    else:
        need(len(it.args) == 1 and is_name(it.args[0], CP) and len(it.keywords) == 1 and it.keywords[0].arg == "r", "combinations(component, r=..) expected", s)
        r = nat_const(it.keywords[0].value, "combinations r")
    D["s_comb_r"] = str(r)
    inner = s.body[0]
    need(isinstance(inner, ast.For) and not inner.orelse and is_name(inner.target) and is_name(inner.iter), "cannot-link loop changed shape", inner)
    D["s_cl_list"] = which_of(inner.iter.id, ml, cl, inner, "cannot-link loop")
    qv = inner.target.id
    ib = list(inner.body)
    colenv = {}
    if len(ib) == 2:
        u = ib[0]
        need(isinstance(u, ast.Assign) and len(u.targets) == 1 and isinstance(u.targets[0], ast.Tuple) and len(u.targets[0].elts) == 2
             and all(is_name(t) for t in u.targets[0].elts) and is_name(u.value, qv), "cannot-link loop: `pair_i, pair_j = pair` expected", u)
        for c, t in enumerate(u.targets[0].elts):
            colenv[t.id] = c
        need(len(colenv) == 2, "cannot-link loop: the unpacked names coincide", u)
        ib = ib[1:]
    need(len(ib) == 1 and isinstance(ib[0], ast.If) and not ib[0].orelse, "cannot-link loop: a single raising test expected", inner)
    raises_value_error(ib[0].body, "structural contradiction")

    def side(e):
        if is_name(e) and e.id in (ci, cj) and e.id not in colenv:
            return ("elem", 0 if e.id == ci else 1)
        if is_name(e) and e.id in colenv:
            return ("col", colenv[e.id])
        if isinstance(e, ast.Subscript) and is_name(e.value, qv):
            return ("col", nat_const(e.slice, "cannot-link column"))
        fail(f"raising test: operand `{ast.unparse(e)}` is neither a component element nor a column of the pair", e)

    def conj(e):
        need(isinstance(e, ast.BoolOp) and isinstance(e.op, ast.And) and len(e.values) == 2, f"raising test: a conjunction of two equalities expected, got `{ast.unparse(e)}`", e)
        got = {}
        for c in e.values:
            need(isinstance(c, ast.Compare) and len(c.ops) == 1 and isinstance(c.ops[0], ast.Eq), f"raising test: `==` expected in `{ast.unparse(c)}`", c)
            x, y = side(c.left), side(c.comparators[0])
            if x[0] == "col":
                x, y = y, x
            need(x[0] == "elem" and y[0] == "col", f"raising test: `{ast.unparse(c)}` does not compare an element with a column", c)
            need(x[1] not in got, "raising test: the same element is compared twice in one conjunction", c)
            got[x[1]] = y[1]
        return (got[0], got[1])
    t = ib[0].test
    disj = t.values if isinstance(t, ast.BoolOp) and isinstance(t.op, ast.Or) else [t]
    D["s_orients"] = "[" + "; ".join(f"({a}, {b})" for a, b in sorted(set(conj(e) for e in disj))) + "]"
    return D, (ml, cl)


# ------------------------------------------------------------------ _check_linking_constraint
def tr_linking(fn):
    a = fn.args
    need(len(a.args) == 2 and len(a.defaults) == 2 and all(isinstance(d, ast.Constant) and d.value is None for d in a.defaults)
         and not (a.vararg or a.kwarg or a.kwonlyargs or a.posonlyargs), "_check_linking_constraint: signature changed", fn)
    ml, cl = a.args[0].arg, a.args[1].arg
    b = body_of(fn)
    need(len(b) == 5, f"_check_linking_constraint: expected 5 statements, found {len(b)}", fn)
    A = {ml: {}, cl: {}}
    for s, v in ((b[0], ml), (b[1], cl)):
        need(isinstance(s, ast.If) and not s.orelse and len(s.body) == 1, f"empty rule of {v} changed shape", s)
        lit(s.body[0], f"{v} = None")
        t = s.test
        need(isinstance(t, ast.BoolOp) and isinstance(t.op, ast.And) and len(t.values) == 2
             and ast.unparse(t.values[0]) == f"hasattr({v}, '__len__')", f"empty rule of {v}: `hasattr({v}, '__len__') and <length test>` expected", s)
        var, A[v]["a_empty"] = len_test(t.values[1], f"empty rule of {v}")
        need(var == v, f"empty rule of {v} tests another variable", s)
    for s, v in ((b[2], ml), (b[3], cl)):
        need(isinstance(s, ast.If) and ast.unparse(s.test) == f"{v} is not None" and len(s.body) == 2 and len(s.orelse) == 1,
             f"validation block of {v} changed shape", s)
        lit(s.orelse[0], f"{v} = []")
        c = s.body[0]
        need(isinstance(c, ast.Assign) and len(c.targets) == 1 and is_name(c.targets[0], v) and isinstance(c.value, ast.Call)
             and is_name(c.value.func, "check_array") and len(c.value.args) == 1 and is_name(c.value.args[0], v),
             f"validation block of {v}: `{v} = check_array({v}, ..)` expected", c)
        kws = {k.arg: k.value for k in c.value.keywords}
        need(set(kws) <= {"ensure_2d", "ensure_min_features", "dtype", "input_name"} and "dtype" in kws and is_name(kws["dtype"], "int"),
             f"validation block of {v}: unexpected check_array keywords {sorted(kws)}", c)
        if "input_name" in kws:
            need(isinstance(kws["input_name"], ast.Constant) and isinstance(kws["input_name"].value, str), "input_name must be a string literal", c)
        A[v]["a_2d"] = "true" if ("ensure_2d" not in kws or bool_const(kws["ensure_2d"], "ensure_2d=")) else "false"       # sklearn default: True
        A[v]["a_minfeat"] = str(nat_const(kws["ensure_min_features"], "ensure_min_features=") if "ensure_min_features" in kws else 1)  # sklearn default: 1
        t = s.body[1]
        need(isinstance(t, ast.If) and not t.orelse, f"self-pair test of {v} changed shape", t)
        raises_value_error(t.body, f"self-pair test of {v}")
        e = t.test
        need(isinstance(e, ast.Call) and ast.unparse(e.func) == "np.any" and len(e.args) == 1 and not e.keywords
             and isinstance(e.args[0], ast.Compare) and len(e.args[0].ops) == 1 and isinstance(e.args[0].ops[0], ast.Eq),
             f"self-pair test of {v}: `np.any({v}[:, a] == {v}[:, b])` expected", t)
        cs = []
        for x in (e.args[0].left, e.args[0].comparators[0]):
            need(isinstance(x, ast.Subscript) and is_name(x.value, v) and isinstance(x.slice, ast.Tuple) and len(x.slice.elts) == 2
                 and ast.unparse(x.slice.elts[0]) == ":", f"self-pair test of {v}: column `{v}[:, c]` expected", x)
            cs.append(nat_const(x.slice.elts[1], "self-pair column"))
        A[v]["a_self"] = f"({min(cs)}, {max(cs)})"
    g = b[4]
    need(isinstance(g, ast.If) and not g.orelse and len(g.body) == 1, "structural guard changed shape", g)
    lit(g.body[0], f"_check_structural_constraint({ml}, {cl})")
    t = g.test
    need(isinstance(t, ast.BoolOp) and len(t.values) == 2, "structural guard: two length tests joined by and/or expected", g)
    tests = dict(len_test(x, "structural guard") for x in t.values)
    need(set(tests) == {ml, cl}, "structural guard does not test both lists", g)
    D = {"lr_guard_and": "true" if isinstance(t.op, ast.And) else "false", "lr_guard_ml": tests[ml], "lr_guard_cl": tests[cl]}
    for v, nm in ((ml, "lr_ml"), (cl, "lr_cl")):
        D[nm] = "{| a_empty := %(a_empty)s; a_2d := %(a_2d)s; a_minfeat := %(a_minfeat)s; a_self := %(a_self)s |}" % A[v]
    return D


# ------------------------------------------------------------------ add_mlcl_constraint
DECORATE_BATCH = """def decorate_batch(func):

    @functools.wraps(func)
    def disguise_batch(X, affinity_matrix=None, random_state=None):
        indices = np.arange(len(X))
        for subset, affinity_batch in func(indices, affinity_matrix, random_state):
            disguise_batch.indices = subset.tolist()
            yield (X[subset], affinity_batch)
    disguise_batch.indices = []
    return disguise_batch"""


def tr_update(s, GR, YP, F, posenv):
    """gradient[A] op= factor * (y_pred[B] - y_pred[C])   ->  UpdRule text"""
    def row(e, base):
        need(isinstance(e, ast.Subscript) and is_name(e.value, base) and is_name(e.slice) and e.slice.id in posenv,
             f"update line: `{base}[<position>]` expected, got `{ast.unparse(e)}`", e)
        return posenv[e.slice.id]
    if isinstance(s, ast.AugAssign):
        tgt, op, val = row(s.target, GR), type(s.op), s.value
    else:
        need(isinstance(s, ast.Assign) and len(s.targets) == 1 and isinstance(s.value, ast.BinOp), "update line: (augmented) assignment expected", s)
        tgt, op, val = row(s.targets[0], GR), type(s.value.op), s.value.right
        need(row(s.value.left, GR) == tgt and ast.unparse(s.value.left) == ast.unparse(s.targets[0]), "update line: `g[a] = g[a] <op> ..` expected", s)
    need(op in (ast.Add, ast.Sub), "update line: += or -= expected", s)
    scaled = False
    if isinstance(val, ast.BinOp) and isinstance(val.op, ast.Mult):
        if is_name(val.left, F):
            val, scaled = val.right, True
        elif is_name(val.right, F):
            val, scaled = val.left, True
        else:
            fail("update line: product that does not involve the factor", s)
    need(isinstance(val, ast.BinOp) and isinstance(val.op, ast.Sub), f"update line: a difference of prediction rows expected, got `{ast.unparse(val)}`", s)
    lhs, rhs = row(val.left, YP), row(val.right, YP)
    return ("{| u_target := %s; u_minus := %s; u_scaled := %s; u_lhs := %s; u_rhs := %s |}"
            % (tgt, "true" if op is ast.Sub else "false", "true" if scaled else "false", lhs, rhs))


def tr_add(fn, link_args):
    names = [a.arg for a in fn.args.args]
    need(names == ["gemini_model", "must_link", "cannot_link", "factor"] and not (fn.args.vararg or fn.args.kwarg or fn.args.kwonlyargs or fn.args.posonlyargs),
         f"add_mlcl_constraint: signature changed: {names}", fn)
    MODEL, ml, cl, F = names
    b = body_of(fn)
    need(len(b) == 9, f"add_mlcl_constraint: expected 9 statements, found {len(b)}", fn)
    need(isinstance(b[0], ast.If) and ast.unparse(b[0].test) == f"not issubclass({MODEL}.__class__, DiscriminativeModel)" and not b[0].orelse,
         "add_mlcl_constraint: model class test changed", b[0])
    raises_value_error(b[0].body, "model class test")
    lit(b[1], f"_check_linking_constraint({ml}, {cl})")
    lit(b[2], f"if {ml} is None:\n    {ml} = []")
    lit(b[3], f"if {cl} is None:\n    {cl} = []")
    need(isinstance(b[4], ast.FunctionDef), "decorate_batch missing", b[4])
    lit(b[4], DECORATE_BATCH)
    lit(b[5], f"{MODEL}._batchify = decorate_batch({MODEL}._batchify)")
    dg = b[6]
    need(isinstance(dg, ast.FunctionDef) and dg.name == "decorate_grads" and [a.arg for a in dg.args.args] == ["func"] and len(dg.body) == 2,
         "decorate_grads changed shape", dg)
    ig = dg.body[0]
    need(isinstance(ig, ast.FunctionDef) and [ast.unparse(d) for d in ig.decorator_list] == ["functools.wraps(func)"]
         and len(ig.args.args) == 3 and not ig.args.defaults, "intercept_grads changed shape", ig)
    lit(dg.body[1], f"return {ig.name}")
    X, YP, GR = (a.arg for a in ig.args.args)
    ib = body_of(ig)
    need(len(ib) >= 2, "intercept_grads: too few statements", ig)
    s = ib[0]
    need(isinstance(s, ast.Assign) and len(s.targets) == 1 and is_name(s.targets[0]), "intercept_grads: the recorded indices must be read first", s)
    LI = s.targets[0].id
    lit(s, f"{LI} = {MODEL}._batchify.indices")
    lit(ib[-1], f"return func({X}, {YP}, {GR})")
    loops = []
    for lp in ib[1:-1]:
        need(isinstance(lp, ast.For) and not lp.orelse and isinstance(lp.target, ast.Tuple) and len(lp.target.elts) == 2
             and all(is_name(t) for t in lp.target.elts) and is_name(lp.iter) and len(lp.body) == 1, "constraint loop changed shape", lp)
        pi, pj = (t.id for t in lp.target.elts)
        need(pi != pj, "constraint loop: the two sample names coincide", lp)
        slot = {pi: "SI", pj: "SJ"}
        w = which_of(lp.iter.id, ml, cl, lp, "constraint loop")
        c = lp.body[0]
        need(isinstance(c, ast.If) and not c.orelse and len(c.body) >= 1, "constraint loop: a membership test around the updates expected", c)
        t = c.test
        vals, is_and = (t.values, isinstance(t.op, ast.And)) if isinstance(t, ast.BoolOp) else ([t], True)
        mem = []
        for m in vals:
            need(isinstance(m, ast.Compare) and len(m.ops) == 1 and isinstance(m.ops[0], ast.In) and is_name(m.left) and m.left.id in slot
                 and is_name(m.comparators[0], LI), f"membership test: `<sample> in {LI}` expected, got `{ast.unparse(m)}`", m)
            mem.append(slot[m.left.id])
        mem = sorted(set(mem))
        p = c.body[0]
        need(isinstance(p, ast.Assign) and len(p.targets) == 1 and isinstance(p.targets[0], ast.Tuple) and isinstance(p.value, ast.Tuple)
             and len(p.targets[0].elts) == len(p.value.elts) == 2 and all(is_name(x) for x in p.targets[0].elts),
             f"constraint loop: `idx0, idx1 = {LI}.index(i), {LI}.index(j)` expected", p)
        posenv = {}
        for tg, v in zip(p.targets[0].elts, p.value.elts):
            need(isinstance(v, ast.Call) and ast.unparse(v.func) == f"{LI}.index" and len(v.args) == 1 and not v.keywords
                 and is_name(v.args[0]) and v.args[0].id in slot, f"position lookup: `{LI}.index(<sample>)` expected, got `{ast.unparse(v)}`", v)
            posenv[tg.id] = slot[v.args[0].id]
        need(len(posenv) == 2 and not (set(posenv) & {pi, pj, LI, GR, YP, F}), "position names clash", p)
        ups = [tr_update(u, GR, YP, F, posenv) for u in c.body[1:]]
        loops.append("{| l_list := %s; l_member_and := %s; l_member := [%s];\n       l_updates := [ %s ] |}"
                     % (w, "true" if is_and else "false", "; ".join(mem), ";\n                      ".join(ups)))
    lit(b[7], f"{MODEL}._compute_grads = decorate_grads({MODEL}._compute_grads)")
    lit(b[8], f"return {MODEL}")
    return "[ " + ";\n    ".join(loops) + " ]" if loops else "[]"


TEMPLATE = """(* GENERATED by translator/tr_mlcl.py - do not edit.
   Source: gemclus/mlcl.py  sha256 {sha}
   _check_structural_constraint lines {r_struct}; _check_linking_constraint lines {r_link};
   add_mlcl_constraint lines {r_add} (decorate_batch {r_batch}, decorate_grads {r_grads})
   The holes of the control skeleton modelled in Model/Mlcl.v, as the source states them now (see the
   field comments of ArgRules / LinkRules / StructRules / LoopRule / UpdRule there).  Compared with the
   hand-written golden copy [documented_rules] in Proofs/MlclGen.v. *)
From Coq Require Import List.
From GV Require Import Model.Mlcl.
Import ListNotations.

Definition link_rules : LinkRules := {{|
  lr_ml := {lr_ml};
  lr_cl := {lr_cl};
  lr_guard_and := {lr_guard_and}; lr_guard_ml := {lr_guard_ml}; lr_guard_cl := {lr_guard_cl} |}}.

Definition struct_rules : StructRules := {{|
  s_uniq_list := {s_uniq_list}; s_uniq_cols := {s_uniq_cols};
  s_edge_list := {s_edge_list}; s_edge_cols := {s_edge_cols}; s_edge_entries := {s_edge_entries}; s_directed := {s_directed};
  s_loop := {s_loop}; s_start := {s_start}; s_map_back := {s_map_back}; s_comb_r := {s_comb_r};
  s_cl_list := {s_cl_list}; s_orients := {s_orients} |}}.

Definition grad_rules : list LoopRule :=
  {grads}.

Definition mlcl_rules : MlclRules := {{| mr_link := link_rules; mr_struct := struct_rules; mr_grads := grad_rules |}}.
"""


def translate(raw):
    mod = ast.parse(raw)
    fns = {n.name: n for n in mod.body if isinstance(n, ast.FunctionDef)}
    for nm in ("_check_structural_constraint", "_check_linking_constraint", "add_mlcl_constraint"):
        need(nm in fns and sum(1 for n in mod.body if isinstance(n, ast.FunctionDef) and n.name == nm) == 1, f"function {nm} not found exactly once")
    D, sargs = tr_structural(fns["_check_structural_constraint"])
    D.update(tr_linking(fns["_check_linking_constraint"]))
    add = fns["add_mlcl_constraint"]
    D["grads"] = tr_add(add, sargs)
    rng = lambda n: f"{n.lineno}-{n.end_lineno}"
    nested = {n.name: n for n in add.body if isinstance(n, ast.FunctionDef)}
    D.update(sha=hashlib.sha256(raw.encode()).hexdigest(), r_struct=rng(fns["_check_structural_constraint"]),
             r_link=rng(fns["_check_linking_constraint"]), r_add=rng(add), r_batch=rng(nested["decorate_batch"]), r_grads=rng(nested["decorate_grads"]))
    return TEMPLATE.format(**D)


def main():
    try:
        text = translate(open(SRC).read())
    except (Unknown, SyntaxError, OSError, KeyError) as e:
        print(f"tr_mlcl: FAIL-CLOSED: {e}")
        sys.exit(1)
    old = open(OUT).read() if os.path.exists(OUT) else None
    if old != text:
        os.makedirs(os.path.dirname(OUT), exist_ok=True)
        open(OUT, "w").write(text)
        print("tr_mlcl: wrote", OUT)
        # build.sh reports BUILD-FAIL only for a MISSING .vo: remove the compiled dependents so that a failing
        # recompilation against the new text cannot hide behind the object of the previous text
        for sub, base in DEPENDENTS:
            for ext in (".vo", ".vos", ".vok", ".glob"):
                stale = os.path.join(ROOT, "coq", sub, base + ext)
                if os.path.exists(stale):
                    os.remove(stale)
    else:
        print("tr_mlcl: unchanged", OUT)


if __name__ == "__main__":
    main()
