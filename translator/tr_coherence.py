#!/usr/bin/env python3
"""Fail-closed translator for C04: the fit-level output relations  ->  coq/Gen/CoherenceRules.v

Translated WHOLE into the expression language of coq/Model/CoherenceSyntax.v (local variables inlined, verbose
prints and docstrings dropped, the spellings of arg-max and .item() canonicalised):
  gemclus/_base_gemini.py   DiscriminativeModel.fit_predict / predict_proba / predict / score, and fit as
                            <statements before the training loop> / <iterable of the epoch loop> / <statements after it>
                            (the body of the training loop is matched literally: it is the subject of C03/C10);
  gemclus/linear/_linear_geminis.py   KernelRIM.fit / predict_proba;
  gemclus/sparse/_linear_sparse.py, _mlp_sparse.py   SparseLinearModel.fit / SparseMLPModel.fit;
  gemclus/tree/kauri.py     Kauri.fit_predict / predict / score and the statements of Kauri.fit after its main loop;
plus, for method resolution, which class of the estimator modules defines which of fit / fit_predict /
predict_proba / predict / score, and its bases.
Any AST node outside the handled set makes the translator exit non-zero WITHOUT writing (the build prints
TRANSLATOR-FAIL; the check then relies on the correspondence alone).
"""
import ast, os, sys, hashlib

REPO = os.environ.get("VERIF_REPO", "/repo")
ROOT = os.path.dirname(os.path.dirname(os.path.abspath(__file__)))
OUT = os.path.join(ROOT, "coq", "Gen", "CoherenceRules.v")
DEPENDENTS = ["Proofs/Coherence", "Props/C04"]
FILES = {
    "base": "gemclus/_base_gemini.py", "linear": "gemclus/linear/_linear_geminis.py", "mlp": "gemclus/mlp/_mlp_geminis.py",
    "sparse_linear": "gemclus/sparse/_linear_sparse.py", "sparse_mlp": "gemclus/sparse/_mlp_sparse.py",
    "categorical": "gemclus/nonparametric/_categorical_models.py", "douglas": "gemclus/tree/douglas.py", "kauri": "gemclus/tree/kauri.py",
}
COHERENCE_METHODS = ["fit", "fit_predict", "predict_proba", "predict", "score"]
GLOBAL_MODULES = {"np", "warnings"}
TRAINING_LOOP_BODY = ("for X_batch, affinity_batch in self._batchify(X, affinity, random_state):\n"
                      "    y_pred = self._infer(X_batch)\n"
                      "    _, grads = gemini(y_pred, affinity_batch, return_grad=True)\n"
                      "    grads = self._compute_grads(X_batch, y_pred, grads)\n"
                      "    self._update_weights(weights, grads)")


# The vocabulary: every callee the interpretation (coq/Model/CoherenceInterp.v) gives a meaning to.  A call outside it is
# never emitted as an opaque term: a private helper of the same class whose body is inside the vocabulary is inlined
# (statement-level calls only), anything else makes the translator fail closed.
SELF_VOCAB = {"_infer", "get_gemini", "_get_weights", "_validate_params", "_init_params", "_compute_kernel", "predict_proba", "predict", "fit"}
SUPER_VOCAB = {"fit"}
FN_VOCAB = {"check_array", "validate_data", "check_is_fitted", "check_random_state", "check_groups", "SGDOptimizer", "AdamOptimizer",
            "range", "gemini_objective"}
METH_VOCAB = {"compute_affinity", "predict"}
MAX_INLINE_DEPTH = 3


class Unknown(Exception):
    pass


def fail(msg, node=None):
    where = f" (line {getattr(node, 'lineno', '?')})" if node is not None else ""
    raise Unknown(msg + where)


# ------------------------------------------------------------------ Coq text
def q(s):
    if not isinstance(s, str) or any(ord(c) < 32 or ord(c) > 126 for c in s):
        fail(f"string {s!r} is not printable ASCII")
    return '"' + s.replace('"', '""') + '"'


def z(k):
    return f"({k})%Z"


def lst(items):
    return "[" + "; ".join(items) + "]"


# ------------------------------------------------------------------ expressions
def dotted(e):
    """np.float64 -> 'np.float64' for a global module root, else None"""
    parts = []
    while isinstance(e, ast.Attribute):
        parts.append(e.attr)
        e = e.value
    if isinstance(e, ast.Name) and e.id in GLOBAL_MODULES:
        return ".".join([e.id] + parts[::-1])
    return None


def const_int(e):
    if isinstance(e, ast.Constant) and isinstance(e.value, int) and not isinstance(e.value, bool):
        return e.value
    if isinstance(e, ast.UnaryOp) and isinstance(e.op, ast.USub) and isinstance(e.operand, ast.Constant) and isinstance(e.operand.value, int):
        return -e.operand.value
    return None


class Ctx:
    def __init__(self, args, free=()):
        self.args = set(args)        # method arguments: EVar
        self.free = set(free)        # loop-state variables allowed to stay free: EVar
        self.env = {}                # inlined locals: name -> Coq text
        self.methods = {}            # methods of the class being translated (candidates for inlining)
        self.depth = 0

    def copy(self):
        c = Ctx(self.args, self.free)
        c.env = dict(self.env)
        c.methods, c.depth = self.methods, self.depth
        return c


def tr_args(call, ctx):
    if any(isinstance(a, ast.Starred) for a in call.args) or any(k.arg is None for k in call.keywords):
        fail("star / double-star arguments", call)
    out = [tr(a, ctx) for a in call.args]
    out += [f"EKw {q(k.arg)} ({tr(k.value, ctx)})" for k in call.keywords]
    return lst(out)


def argmax_axis(call, pos_from):
    """axis of an arg-max call whose positional arguments start at pos_from; None if not of that shape"""
    pos = call.args[pos_from:]
    if len(pos) == 1 and not call.keywords:
        return const_int(pos[0])
    if not pos and len(call.keywords) == 1 and call.keywords[0].arg == "axis":
        return const_int(call.keywords[0].value)
    return None


def tr(e, ctx):
    if isinstance(e, ast.Name):
        if e.id == "self":
            return "ESelf"
        if e.id in ctx.env:
            return ctx.env[e.id]
        if e.id in ctx.args or e.id in ctx.free:
            return f"EVar {q(e.id)}"
        fail(f"name `{e.id}` is neither an argument nor an inlined local", e)
    if isinstance(e, ast.Constant):
        v = e.value
        if v is None:
            return "ENone"
        if isinstance(v, bool):
            return f"EBool {'true' if v else 'false'}"
        if isinstance(v, int):
            return f"EInt {z(v)}"
        if isinstance(v, str):
            return f"EStr {q(v)}"
        fail(f"constant {v!r} of unknown kind", e)
    if isinstance(e, ast.Attribute):
        if isinstance(e.value, ast.Name) and e.value.id == "self":
            return f"ESelfAttr {q(e.attr)}"
        d = dotted(e)
        if d is not None:
            return f"EGlobal {q(d)}"
        return f"EAttr ({tr(e.value, ctx)}) {q(e.attr)}"
    if isinstance(e, ast.Subscript):
        k = const_int(e.slice)
        if k is None:
            fail("subscript that is not a constant integer", e)
        return f"EIndex ({tr(e.value, ctx)}) {z(k)}"
    if isinstance(e, ast.BinOp) and isinstance(e.op, ast.MatMult):
        return f"EMatMul ({tr(e.left, ctx)}) ({tr(e.right, ctx)})"
    if isinstance(e, ast.Compare) and len(e.ops) == 1 and isinstance(e.ops[0], ast.Eq):
        return f"EEq ({tr(e.left, ctx)}) ({tr(e.comparators[0], ctx)})"
    if isinstance(e, ast.Call):
        f = e.func
        # canonical spellings
        if isinstance(f, ast.Attribute) and dotted(f) == "np.argmax" and len(e.args) >= 1:
            ax = argmax_axis(e, 1)
            if ax is None:
                fail("np.argmax without a constant axis", e)
            return f"EArgmax ({tr(e.args[0], ctx)}) {z(ax)}"
        if isinstance(f, ast.Attribute) and f.attr == "argmax" and dotted(f) is None:
            ax = argmax_axis(e, 0)
            if ax is None:
                fail(".argmax without a constant axis", e)
            return f"EArgmax ({tr(f.value, ctx)}) {z(ax)}"
        if isinstance(f, ast.Attribute) and f.attr == "item" and not e.args and not e.keywords and dotted(f) is None:
            return f"EItem ({tr(f.value, ctx)})"
        if isinstance(f, ast.Attribute):
            if isinstance(f.value, ast.Name) and f.value.id == "self":
                if f.attr not in SELF_VOCAB:
                    fail(f"call of self.{f.attr} is outside the vocabulary (and not an inlinable statement-level helper call)", e)
                return f"ESelfCall {q(f.attr)} {tr_args(e, ctx)}"
            if (isinstance(f.value, ast.Call) and isinstance(f.value.func, ast.Name) and f.value.func.id == "super"
                    and not f.value.args and not f.value.keywords):
                if f.attr not in SUPER_VOCAB:
                    fail(f"call of super().{f.attr} is outside the vocabulary", e)
                return f"ESuperCall {q(f.attr)} {tr_args(e, ctx)}"
            d = dotted(f)
            if d is not None:
                fail(f"call of {d} is outside the vocabulary", e)
            if f.attr not in METH_VOCAB:
                fail(f"call of the method .{f.attr} is outside the vocabulary", e)
            return f"EMeth ({tr(f.value, ctx)}) {q(f.attr)} {tr_args(e, ctx)}"
        if isinstance(f, ast.Name):
            if f.id in ctx.env or f.id in ctx.args or f.id in ctx.free:
                return f"EApply ({tr(f, ctx)}) {tr_args(e, ctx)}"
            if f.id == "super":
                fail("bare super()", e)
            if f.id not in FN_VOCAB:
                fail(f"call of {f.id} is outside the vocabulary", e)
            return f"ECall {q(f.id)} {tr_args(e, ctx)}"
        fail("call of an unsupported callee", e)
    fail(f"unknown expression node {type(e).__name__}: {ast.unparse(e)[:80]}", e)


# ------------------------------------------------------------------ statements
def is_docstring(s):
    return isinstance(s, ast.Expr) and isinstance(s.value, ast.Constant) and isinstance(s.value.value, str)


def is_verbose_print(s):
    return (isinstance(s, ast.If) and ast.unparse(s.test) == "self.verbose" and not s.orelse
            and all(isinstance(b, ast.Expr) and isinstance(b.value, ast.Call) and ast.unparse(b.value.func) == "print" for b in s.body))


def clean(stmts):
    return [s for s in stmts if not is_verbose_print(s) and not is_docstring(s)]


def helper_call(v, ctx):
    """the FunctionDef of a private helper of the same class when v is `self._helper(...)` outside the vocabulary, else None"""
    if (isinstance(v, ast.Call) and isinstance(v.func, ast.Attribute) and isinstance(v.func.value, ast.Name) and v.func.value.id == "self"
            and v.func.attr not in SELF_VOCAB and v.func.attr.startswith("_") and v.func.attr in ctx.methods):
        return ctx.methods[v.func.attr]
    return None


def inline(call, f, ctx, out):
    """inline `self._helper(args)`: its statements are appended to out, the text of its return value is returned"""
    if ctx.depth >= MAX_INLINE_DEPTH:
        fail("helper calls nested too deeply", call)
    if f.decorator_list or f.args.vararg or f.args.kwarg or f.args.kwonlyargs or f.args.posonlyargs or f.args.defaults:
        fail(f"helper {f.name}: decorators / defaults / star arguments are not handled", f)
    params = [a.arg for a in f.args.args]
    if not params or params[0] != "self" or call.keywords or any(isinstance(a, ast.Starred) for a in call.args) or len(call.args) != len(params) - 1:
        fail(f"helper {f.name} is not called with exactly its positional arguments", call)
    sub = Ctx((), ())
    sub.methods, sub.depth = ctx.methods, ctx.depth + 1
    sub.env = {p: tr(a, ctx) for p, a in zip(params[1:], call.args)}
    body = clean(f.body)
    ret = None
    if body and isinstance(body[-1], ast.Return):
        ret, body = body[-1], body[:-1]
    if any(isinstance(n, ast.Return) for s in body for n in ast.walk(s)):
        fail(f"helper {f.name} returns from the middle of its body", f)
    out += tr_stmts(body, sub)
    return tr(ret.value, sub) if (ret is not None and ret.value is not None) else "ENone"


def tr_stmts(stmts, ctx, top=True):
    """-> list of Coq cstmt texts; assignments to local names are inlined (only at the top level of a body)"""
    out = []
    for s in clean(stmts):
        if isinstance(s, ast.Assign) and len(s.targets) == 1:
            t = s.targets[0]
            if isinstance(t, ast.Name):
                if not top:
                    fail("assignment to a local inside a branch (no join of the two values is modelled)", s)
                h = helper_call(s.value, ctx)
                ctx.env[t.id] = inline(s.value, h, ctx, out) if h is not None else tr(s.value, ctx)
                continue
            if isinstance(t, ast.Attribute) and isinstance(t.value, ast.Name) and t.value.id == "self":
                out.append(f"SSetAttr {q(t.attr)} ({tr(s.value, ctx)})")
                continue
            fail("assignment target that is neither a local nor self.<attr>", s)
        if isinstance(s, ast.Expr) and isinstance(s.value, ast.Call):
            h = helper_call(s.value, ctx)
            if h is not None:
                inline(s.value, h, ctx, out)       # a helper called for its effects: its statements, the value is dropped
                continue
            out.append(f"SExpr ({tr(s.value, ctx)})")
            continue
        if isinstance(s, ast.If):
            th = tr_stmts(s.body, ctx.copy(), top=False)
            el = tr_stmts(s.orelse, ctx.copy(), top=False)
            out.append(f"SIf ({tr(s.test, ctx)}) {lst(th)} {lst(el)}")
            continue
        if isinstance(s, ast.Return) and s.value is not None:
            h = helper_call(s.value, ctx)
            val = inline(s.value, h, ctx, out) if h is not None else tr(s.value, ctx)
            out.append(f"SReturn ({val})")
            continue
        fail(f"unknown statement {type(s).__name__}: {ast.unparse(s)[:80]}", s)
    return out


# ------------------------------------------------------------------ sources
class Source:
    def __init__(self, key):
        self.key = key
        self.rel = FILES[key]
        self.text = open(os.path.join(REPO, self.rel), "rb").read()
        self.sha = hashlib.sha256(self.text).hexdigest()
        self.tree = ast.parse(self.text.decode("utf-8"))
        self.classes = [c for c in self.tree.body if isinstance(c, ast.ClassDef)]
        self.used = []

    def method(self, cls, name):
        cs = [c for c in self.classes if c.name == cls]
        if len(cs) != 1:
            fail(f"class {cls} not found exactly once in {self.rel}")
        ms = [f for f in cs[0].body if isinstance(f, ast.FunctionDef) and f.name == name]
        if len(ms) != 1:
            fail(f"method {cls}.{name} not found exactly once in {self.rel}")
        f = ms[0]
        if f.decorator_list or f.args.vararg or f.args.kwarg or f.args.kwonlyargs or f.args.posonlyargs:
            fail(f"{cls}.{name}: decorators / star arguments are not handled", f)
        self.used.append(f"{cls}.{name} lines {f.lineno}-{f.end_lineno}")
        f._class_methods = {g.name: g for g in cs[0].body if isinstance(g, ast.FunctionDef)}
        return f


def arg_names(f, want):
    names = [a.arg for a in f.args.args]
    if names != ["self"] + want:
        fail(f"signature of {f.name} is {names}, expected {['self'] + want}", f)
    return want


def whole(f, want_args):
    ctx = Ctx(arg_names(f, want_args))
    ctx.methods = f._class_methods
    return tr_stmts(f.body, ctx)


def translate():
    S = {k: Source(k) for k in FILES}
    D = []   # (name, type, text)
    base = S["base"]
    # ---- DiscriminativeModel: small methods, whole
    D.append(("base_fit_predict", "list cstmt", lst(whole(base.method("DiscriminativeModel", "fit_predict"), ["X", "y"]))))
    D.append(("base_predict_proba", "list cstmt", lst(whole(base.method("DiscriminativeModel", "predict_proba"), ["X"]))))
    D.append(("base_predict", "list cstmt", lst(whole(base.method("DiscriminativeModel", "predict"), ["X"]))))
    D.append(("base_score", "list cstmt", lst(whole(base.method("DiscriminativeModel", "score"), ["X", "y"]))))
    # ---- DiscriminativeModel.fit: statements before / after the single epoch loop, the loop's iterable
    fit = base.method("DiscriminativeModel", "fit")
    body = clean(fit.body)
    loops = [i for i, s in enumerate(body) if isinstance(s, ast.For)]
    if len(loops) != 1:
        fail("DiscriminativeModel.fit does not have exactly one top-level for loop", fit)
    lp = body[loops[0]]
    if lp.orelse or not isinstance(lp.target, ast.Name) or len(clean(lp.body)) != 1 or ast.unparse(clean(lp.body)[0]) != TRAINING_LOOP_BODY:
        fail("the epoch loop of DiscriminativeModel.fit differs from the modelled training loop", lp)
    ctx = Ctx(arg_names(fit, ["X", "y"]))
    ctx.methods = fit._class_methods
    pre = tr_stmts(body[:loops[0]], ctx)
    for need in ("X", "affinity", "random_state", "gemini", "weights"):     # the names the literal loop body reads
        if need not in ctx.env and need not in ctx.args:
            fail(f"the training loop reads `{need}` which the statements before it do not define", lp)
    if lp.target.id in ctx.env or lp.target.id in ctx.args:
        fail("the epoch counter shadows a name", lp)
    epochs = tr(lp.iter, ctx)
    post = tr_stmts(body[loops[0] + 1:], ctx)
    reads = [f"({q(nm)}, {ctx.env[nm] if nm in ctx.env else 'EVar ' + q(nm)})" for nm in ("X", "affinity", "random_state", "gemini", "weights")]
    D.append(("base_fit_pre", "list cstmt", lst(pre)))
    D.append(("base_fit_loop_reads", "list (string * cexpr)", lst(reads)))
    D.append(("base_fit_epochs", "cexpr", epochs))
    D.append(("base_fit_post", "list cstmt", lst(post)))
    # ---- KernelRIM overrides, whole
    lin = S["linear"]
    D.append(("krim_fit", "list cstmt", lst(whole(lin.method("KernelRIM", "fit"), ["X", "y"]))))
    D.append(("krim_predict_proba", "list cstmt", lst(whole(lin.method("KernelRIM", "predict_proba"), ["X"]))))
    # ---- sparse fit wrappers, whole
    D.append(("sparse_linear_fit", "list cstmt", lst(whole(S["sparse_linear"].method("SparseLinearModel", "fit"), ["X", "y"]))))
    D.append(("sparse_mlp_fit", "list cstmt", lst(whole(S["sparse_mlp"].method("SparseMLPModel", "fit"), ["X", "y"]))))
    # ---- Kauri
    kau = S["kauri"]
    D.append(("kauri_fit_predict", "list cstmt", lst(whole(kau.method("Kauri", "fit_predict"), ["X", "y"]))))
    D.append(("kauri_predict", "list cstmt", lst(whole(kau.method("Kauri", "predict"), ["X"]))))
    D.append(("kauri_score", "list cstmt", lst(whole(kau.method("Kauri", "score"), ["X", "y"]))))
    kfit = kau.method("Kauri", "fit")
    kbody = clean(kfit.body)
    whiles = [i for i, s in enumerate(kbody) if isinstance(s, ast.While)]
    if len(whiles) != 1:
        fail("Kauri.fit does not have exactly one top-level while loop", kfit)
    tail = kbody[whiles[0] + 1:]
    kctx = Ctx(arg_names(kfit, ["X", "y"]), free=("Y", "Z"))
    kctx.methods = kfit._class_methods
    # Y and Z must be the loop-state matrices created before the loop
    made = {ast.unparse(s.targets[0]) for s in kbody[:whiles[0]] if isinstance(s, ast.Assign) and len(s.targets) == 1}
    if not {"Y", "Z"} <= made:
        fail("Kauri.fit no longer creates Y and Z before its loop", kfit)
    D.append(("kauri_fit_tail", "list cstmt", lst(tr_stmts(tail, kctx))))
    # ---- method resolution: who defines what
    # canonical order (classes by name, methods by name): moving definitions around in the sources changes nothing here;
    # the order of the bases of a class is kept, it is the method-resolution order
    table = {}
    for key in FILES:
        for c in S[key].classes:
            if c.name in table:
                fail(f"class {c.name} is defined twice in the estimator modules", c)
            defined = sorted(f.name for f in c.body if isinstance(f, ast.FunctionDef) and f.name in COHERENCE_METHODS)
            bs = []
            for b in c.bases:
                if isinstance(b, ast.Name):
                    bs.append(b.id)
                else:
                    fail(f"base class expression of {c.name} is not a plain name", c)
            table[c.name] = (defined, bs)
    over = [f"({q(n)}, {lst([q(m) for m in table[n][0]])})" for n in sorted(table)]
    bases = [f"({q(n)}, {lst([q(b) for b in table[n][1]])})" for n in sorted(table)]
    D.append(("overrides", "override_table", lst(over)))
    D.append(("class_bases", "override_table", lst(bases)))
    # ---- text
    hdr = ["(* GENERATED by translator/tr_coherence.py - do not edit.",
           "   Method bodies of the fit-level output relations, translated whole (locals inlined, verbose prints dropped).",
           "   Sources:"]
    for key in FILES:
        s = S[key]
        hdr.append(f"     {s.rel} sha256 {s.sha}" + (" : " + "; ".join(s.used) if s.used else " : class table only"))
    hdr.append("*)")
    txt = "\n".join(hdr) + "\n"
    txt += "From Coq Require Import List String ZArith.\nFrom GV Require Import Model.CoherenceSyntax.\nImport ListNotations.\nLocal Open Scope string_scope.\n\n"
    for name, ty, text in D:
        txt += f"Definition {name} : {ty} :=\n  {text}.\n\n"
    return txt


def main():
    try:
        txt = translate()
    except Unknown as e:
        print(f"tr_coherence: cannot translate: {e}", file=sys.stderr)
        sys.exit(1)
    except (OSError, SyntaxError) as e:
        print(f"tr_coherence: cannot read the sources: {e}", file=sys.stderr)
        sys.exit(1)
    old = open(OUT).read() if os.path.exists(OUT) else None
    if old != txt:
        with open(OUT, "w") as f:
            f.write(txt)
        for dep in DEPENDENTS + ["Gen/CoherenceRules"]:
            for ext in (".vo", ".vos", ".vok", ".glob"):
                p = os.path.join(ROOT, "coq", dep + ext)
                if os.path.exists(p):
                    os.remove(p)
        p = os.path.join(ROOT, "build", "props", "C04.vo")
        if os.path.exists(p):
            os.remove(p)
        print("tr_coherence: wrote", OUT)


if __name__ == "__main__":
    main()
