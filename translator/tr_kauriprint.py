#!/usr/bin/env python3
"""Fail-closed mini Python-to-Gallina translator for the tree printer of KAURI:
     gemclus/tree/kauri.py :: Tree.__init__, Tree._add_child, Tree.predict, print_kauri_tree (+ print_node)
       ->  coq/Gen/KauriPrintRules.v

The four functions are translated WHOLE; the generated definitions are proved equal to the hand-written
model coq/Model/KauriPrint.v in coq/Proofs/KauriPrintGen.v, and the C19 theorems are stated about them.

Translation scheme (anything outside it aborts with a non-zero exit status WITHOUT writing; the build then
prints TRANSLATOR-FAIL and the C19 check relies on the correspondence alone):
  typed values   nat (node ids, depths, targets, counts), Z (child indices: the lists that hold -1), T (thresholds,
                 column values), option of those (the lists that hold None), python lists of those, label, tokens.
                 Coercions inserted from the types: nat -> Z  Z.of_nat;  Z -> nat  Z.to_nat (python would wrap a
                 negative index; outside the model);  v -> option  Some v;  option -> v  a bind (None where an
                 index / a printable threshold is needed is an error of the model; python prints "None").
  l[i]           `do v <- nth_error l i` (IndexError = None);  l[i] = e  `do l' <- store i e l`;
                 l += [a, b]  `l ++ [a; b]`;  n += k  `n + k`;  len  length;  max  list_max;
                 [x for x in l if x is not None]  flat_map over the Some entries
  comparisons    == < <= > >= on nat / Z by Nat.* / Z.*; on T through the single primitive `leb` (the code's <=):
                 a <= b  leb a b;  a > b  negb (leb a b);  a < b  negb (leb b a);  a >= b  leb b a;  and/or
  _add_child     straight-line state passing over the seven modelled attributes, in statement order; the statements
                 about `gains` and `categorical_nodes` must be literally the known ones and are not modelled
  predict        the vectorised mask idiom is matched as a skeleton and turned into per-row routing: guard on node,
                 leaf test, returned leaf value, the column compared, the comparison, the threshold read, and which
                 child is taken for X_left / X_right are translated; the categorical branch must be literally the
                 known (dead) one
  print_node     statement by statement in a writer/option monad: print(..) calls are matched against the three
                 line shapes ("| " * d + "Node {id}"; "| " * d, "Cluster: {c}"; "| " * d + "|=" + "{name} <= {thr}" /
                 " > ") and become tokens, the literal pieces must be exactly those (the lexer depends on them);
                 `if .. return`, `if/else` assigning one variable, `x is not None` on the names argument,
                 recursive calls (fuel = n_nodes, python has none)
  print_kauri_tree  decorator constraints, isinstance and check_is_fitted are matched literally (they select the
                 ErrParam / ErrNotFitted outcomes); the names guard and the start node are translated
"""
import ast, hashlib, os, sys

REPO = os.environ.get("VERIF_REPO", "/repo")
ROOT = os.path.dirname(os.path.dirname(os.path.abspath(__file__)))
REL = os.path.join("gemclus", "tree", "kauri.py")
SRC = os.path.join(REPO, REL)
OUT = os.path.join(ROOT, "coq", "Gen", "KauriPrintRules.v")
DEPENDENTS = [("Proofs", "KauriPrintGen"), ("Props", "C19")]


class Unknown(Exception):
    pass


def fail(msg, node=None):
    where = f" (line {getattr(node, 'lineno', '?')})" if node is not None else ""
    raise Unknown(msg + where)


# ------------------------------------------------------------------ types
NAT, ZT, TT, BOOL, LABEL = "nat", "Z", "T", "bool", "label"


def opt(t):
    return ("opt", t)


def lst(t):
    return ("list", t)


FIELDS = {  # the modelled attributes of class Tree, with the type of Model/KauriPrint.v's record
    "children_left": lst(ZT), "children_right": lst(ZT), "features": lst(opt(NAT)), "thresholds": lst(opt(TT)),
    "target": lst(NAT), "depths": lst(NAT), "n_nodes": NAT}
FIELD_ORDER = ["children_left", "children_right", "features", "thresholds", "target", "depths", "n_nodes"]
UNMODELLED = {"gains", "categorical_nodes"}
SPLIT = {"threshold": ("s_threshold s", TT), "feature": ("s_feature s", NAT),
         "left_target": ("s_left s", NAT), "right_target": ("s_right s", NAT)}


class Ctx:
    """fresh names + the binds (var, option-valued text) an expression needs before it can be used"""

    def __init__(self):
        self.k = 0
        self.binds = []

    def fresh(self, base="v"):
        self.k += 1
        return f"{base}{self.k}"

    def take(self):
        b, self.binds = self.binds, []
        return b


def paren(s):
    return s if s.replace("_", "").replace("'", "").isalnum() else f"({s})"


def coerce(txt, ty, want, ctx, node):
    if ty == want or want is None:
        return txt
    if ty == "lit":
        k = txt
        if want == NAT:
            if k < 0:
                fail("negative literal where a count / index is needed", node)
            return str(k)
        if want == ZT:
            return f"({k})%Z"
        if isinstance(want, tuple) and want[0] == "opt":
            return f"Some {paren(coerce(k, 'lit', want[1], ctx, node))}"
        fail(f"integer literal where a {want} is needed", node)
    if ty == "none":
        if isinstance(want, tuple) and want[0] == "opt":
            return "None"
        fail(f"None where a {want} is needed", node)
    if ty == NAT and want == ZT:
        return f"Z.of_nat {paren(txt)}"
    if ty == ZT and want == NAT:
        return f"Z.to_nat {paren(txt)}"
    if isinstance(want, tuple) and want[0] == "opt" and want[1] == ty:
        return f"Some {paren(txt)}"
    if isinstance(ty, tuple) and ty[0] == "opt":
        v = ctx.fresh()
        ctx.binds.append((v, txt))
        return coerce(v, ty[1], want, ctx, node)
    fail(f"cannot use a {ty} where a {want} is needed", node)


def join_int(ta, tb, node):
    for t in (ta, tb):
        if t not in ("lit", NAT, ZT):
            fail(f"integer operation on a {t}", node)
    return ZT if ZT in (ta, tb) else NAT


CMP_NAT = {ast.Eq: "Nat.eqb {a} {b}", ast.Lt: "Nat.ltb {a} {b}", ast.LtE: "Nat.leb {a} {b}",
           ast.Gt: "Nat.ltb {b} {a}", ast.GtE: "Nat.leb {b} {a}"}
CMP_Z = {ast.Eq: "Z.eqb {a} {b}", ast.Lt: "Z.ltb {a} {b}", ast.LtE: "Z.leb {a} {b}",
         ast.Gt: "Z.ltb {b} {a}", ast.GtE: "Z.leb {b} {a}"}
CMP_T = {ast.LtE: "leb {a} {b}", ast.Gt: "negb (leb {a} {b})", ast.Lt: "negb (leb {b} {a})", ast.GtE: "leb {b} {a}"}


def tr(e, env, ctx):
    """-> (coq text | int literal, type); reads that can fail are appended to ctx.binds in evaluation order"""
    key = ast.unparse(e)
    if key in env:
        return env[key]
    if isinstance(e, ast.Constant):
        if e.value is None:
            return None, "none"
        if isinstance(e.value, bool) or not isinstance(e.value, int):
            fail(f"constant {e.value!r} is not an integer / None", e)
        return e.value, "lit"
    if isinstance(e, ast.UnaryOp) and isinstance(e.op, ast.USub) and isinstance(e.operand, ast.Constant) \
            and isinstance(e.operand.value, int) and not isinstance(e.operand.value, bool):
        return -e.operand.value, "lit"
    if isinstance(e, ast.BinOp) and isinstance(e.op, ast.Add):
        a, ta = tr(e.left, env, ctx)
        b, tb = tr(e.right, env, ctx)
        ty = join_int(ta, tb, e)
        a, b = coerce(a, ta, ty, ctx, e), coerce(b, tb, ty, ctx, e)
        return (f"{paren(a)} + {paren(b)}" if ty == NAT else f"Z.add {paren(a)} {paren(b)}"), ty
    if isinstance(e, ast.Subscript):
        l, tl = tr(e.value, env, ctx)
        if not (isinstance(tl, tuple) and tl[0] == "list"):
            fail(f"subscript of something that is not a modelled list: {key}", e)
        if isinstance(e.slice, (ast.Slice, ast.Tuple)):
            fail(f"slice / tuple subscript outside the known idioms: {key}", e)
        i, ti = tr(e.slice, env, ctx)
        i = coerce(i, ti, NAT, ctx, e)
        v = ctx.fresh()
        ctx.binds.append((v, f"nth_error {paren(l)} {paren(i)}"))
        return v, tl[1]
    if isinstance(e, ast.Compare) and len(e.ops) == 1:
        a, ta = tr(e.left, env, ctx)
        b, tb = tr(e.comparators[0], env, ctx)
        op = type(e.ops[0])
        if TT in (ta, tb) or opt(TT) in (ta, tb):
            a, b = coerce(a, ta, TT, ctx, e), coerce(b, tb, TT, ctx, e)
            if op not in CMP_T:
                fail("comparison on thresholds that `leb` cannot express", e)
            return CMP_T[op].format(a=paren(a), b=paren(b)), BOOL
        if isinstance(ta, tuple) and ta[0] == "opt":
            a, ta = coerce(a, ta, ta[1], ctx, e), ta[1]
        if isinstance(tb, tuple) and tb[0] == "opt":
            b, tb = coerce(b, tb, tb[1], ctx, e), tb[1]
        ty = join_int(ta, tb, e)
        a, b = coerce(a, ta, ty, ctx, e), coerce(b, tb, ty, ctx, e)
        table = CMP_NAT if ty == NAT else CMP_Z
        if op not in table:
            fail("comparison operator not supported", e)
        return table[op].format(a=paren(a), b=paren(b)), BOOL
    if isinstance(e, ast.BoolOp):
        parts = []
        for v in e.values:
            t, ty = tr(v, env, ctx)
            if ty != BOOL:
                fail("non-boolean operand of and/or", v)
            parts.append(f"({t})")
        return (" || " if isinstance(e.op, ast.Or) else " && ").join(parts), BOOL
    if isinstance(e, ast.Call) and isinstance(e.func, ast.Name) and e.func.id in ("len", "max") and len(e.args) == 1 and not e.keywords:
        a, ta = tr(e.args[0], env, ctx)
        if not (isinstance(ta, tuple) and ta[0] == "list"):
            fail(f"{e.func.id}() of something that is not a modelled list", e)
        if e.func.id == "len":
            return f"length {paren(a)}", NAT
        if ta != lst(NAT):
            fail("max() of a list that does not hold counts", e)
        return f"list_max {paren(a)}", NAT
    if isinstance(e, ast.ListComp):
        # [x for x in L if x is not None]
        if len(e.generators) != 1:
            fail("comprehension shape", e)
        g = e.generators[0]
        if not (isinstance(g.target, ast.Name) and isinstance(e.elt, ast.Name) and e.elt.id == g.target.id and not g.is_async
                and len(g.ifs) == 1 and ast.unparse(g.ifs[0]) == f"{g.target.id} is not None"):
            fail("only `[x for x in L if x is not None]` is known", e)
        l, tl = tr(g.iter, env, ctx)
        if not (isinstance(tl, tuple) and tl[0] == "list" and isinstance(tl[1], tuple) and tl[1][0] == "opt"):
            fail("comprehension over a list that does not hold None-able entries", e)
        x = g.target.id
        return f"flat_map (fun o => match o with Some {x} => [{x}] | None => [] end) {paren(l)}", lst(tl[1][1])
    fail(f"unknown expression node {type(e).__name__}: {key}", e)


def wrap(binds, body, ind):
    pad = " " * ind
    return "".join(f"{pad}do {v} <- {t};\n" for v, t in binds) + body


def strip_doc(body):
    if body and isinstance(body[0], ast.Expr) and isinstance(body[0].value, ast.Constant) and isinstance(body[0].value.value, str):
        return body[1:]
    return body


def lit(s, text):
    if ast.unparse(s) != text:
        fail(f"statement differs from the known one: expected `{text}` got `{ast.unparse(s)[:120]}`", s)


def self_attr(e):
    if isinstance(e, ast.Attribute) and isinstance(e.value, ast.Name) and e.value.id == "self":
        return e.attr
    return None


# ------------------------------------------------------------------ Tree.__init__
def tr_init(fn):
    if [a.arg for a in fn.args.args] != ["self"]:
        fail("Tree.__init__ takes arguments", fn)
    vals, seen_un = {}, set()
    for s in strip_doc(fn.body):
        if not (isinstance(s, ast.Assign) and len(s.targets) == 1 and self_attr(s.targets[0])):
            fail("Tree.__init__: only `self.attr = value` is known", s)
        a = self_attr(s.targets[0])
        if a in UNMODELLED:
            lit(s, {"gains": "self.gains = [0]", "categorical_nodes": "self.categorical_nodes = [False]"}[a])
            seen_un.add(a)
            continue
        if a not in FIELDS or a in vals:
            fail(f"Tree.__init__: unknown or repeated attribute {a}", s)
        ctx = Ctx()
        if a == "n_nodes":
            t, ty = tr(s.value, {}, ctx)
            vals[a] = coerce(t, ty, NAT, ctx, s)
        else:
            if not isinstance(s.value, ast.List):
                fail(f"Tree.__init__: {a} is not initialised with a list display", s)
            items = []
            for el in s.value.elts:
                t, ty = tr(el, {}, ctx)
                items.append(coerce(t, ty, FIELDS[a][1], ctx, el))
            vals[a] = "[" + "; ".join(items) + "]"
        if ctx.binds:
            fail("Tree.__init__: initial value needs a read", s)
    if set(vals) != set(FIELDS) or seen_un != UNMODELLED:
        fail("Tree.__init__ does not initialise exactly the known attributes", fn)
    return "mkTree " + " ".join(paren(vals[f]) if not vals[f].startswith("[") else vals[f] for f in FIELD_ORDER)


# ------------------------------------------------------------------ Tree._add_child
def tr_add_child(fn):
    if [a.arg for a in fn.args.args] != ["self", "father", "split"] or fn.args.defaults:
        fail("signature of _add_child changed", fn)
    ver = {f: 0 for f in FIELDS}
    cur = {f: f"{f}0" for f in FIELDS}
    lines = [f"  let {f}0 := {f} t in" for f in FIELD_ORDER]
    ctx = Ctx()

    def env():
        en = {"father": ("father", NAT)}
        for f in FIELDS:
            en[f"self.{f}"] = (cur[f], FIELDS[f])
        for a, (txt, ty) in SPLIT.items():
            en[f"split.{a}"] = (txt, ty)
        return en

    def bump(f):
        ver[f] += 1
        cur[f] = f"{f}{ver[f]}"
        return cur[f]

    KNOWN_UNMODELLED = {"self.gains[father] = split.gain", "self.categorical_nodes[father] = split.is_categorical",
                        "self.gains += [0, 0]", "self.categorical_nodes += [False, False]"}
    seen_un = set()
    for s in strip_doc(fn.body):
        txt = ast.unparse(s)
        if txt in KNOWN_UNMODELLED:
            seen_un.add(txt)
            continue
        if isinstance(s, ast.Assign) and len(s.targets) == 1 and isinstance(s.targets[0], ast.Subscript) and self_attr(s.targets[0].value) in FIELDS:
            f = self_attr(s.targets[0].value)
            if f == "n_nodes":
                fail("subscript store into n_nodes", s)
            en = env()
            v, tv = tr(s.value, en, ctx)
            v = coerce(v, tv, FIELDS[f][1], ctx, s)
            i, ti = tr(s.targets[0].slice, en, ctx)
            i = coerce(i, ti, NAT, ctx, s)
            old = cur[f]
            new = bump(f)
            lines.append(wrap(ctx.take(), f"  do {new} <- store {paren(i)} {paren(v)} {old};", 2))
            continue
        if isinstance(s, ast.AugAssign) and isinstance(s.op, ast.Add) and self_attr(s.target) in FIELDS:
            f = self_attr(s.target)
            en = env()
            if f == "n_nodes":
                v, tv = tr(s.value, en, ctx)
                v = coerce(v, tv, NAT, ctx, s)
                old = cur[f]
                new = bump(f)
                lines.append(wrap(ctx.take(), f"  let {new} := {old} + {paren(v)} in", 2))
                continue
            if not isinstance(s.value, ast.List):
                fail("list extension by something that is not a list display", s)
            items = []
            for el in s.value.elts:
                t, ty = tr(el, en, ctx)
                items.append(coerce(t, ty, FIELDS[f][1], ctx, el))
            old = cur[f]
            new = bump(f)
            lines.append(wrap(ctx.take(), f"  let {new} := {old} ++ [{'; '.join(items)}] in", 2))
            continue
        fail(f"_add_child: unknown statement `{txt[:100]}`", s)
    if seen_un != KNOWN_UNMODELLED:
        fail("_add_child: the statements about gains / categorical_nodes are not the known four", fn)
    lines.append("  Some (mkTree " + " ".join(cur[f] for f in FIELD_ORDER) + ").")
    return "\n".join(lines)


# ------------------------------------------------------------------ Tree.predict (vectorised -> per row)
def tr_predict(fn):
    if [a.arg for a in fn.args.args] != ["self", "X", "node"] or len(fn.args.defaults) != 1 or ast.unparse(fn.args.defaults[0]) != "0":
        fail("signature of Tree.predict changed", fn)
    body = strip_doc(fn.body)
    if len(body) != 2:
        fail("Tree.predict: expected the range guard and the leaf test", fn)
    en = {"node": ("node", NAT)}
    for f in FIELDS:
        en[f"self.{f}"] = (f"{f} t", FIELDS[f])
    g = body[0]
    if not (isinstance(g, ast.If) and not g.orelse and len(g.body) == 1 and isinstance(g.body[0], ast.Raise)):
        fail("Tree.predict: range guard is not `if ..: raise`", g)
    ctx = Ctx()
    guard, ty = tr(g.test, en, ctx)
    if ty != BOOL or ctx.binds:
        fail("Tree.predict: range guard is not a plain test", g)
    lf = body[1]
    if not (isinstance(lf, ast.If) and len(lf.body) == 1 and isinstance(lf.body[0], ast.Return)):
        fail("Tree.predict: leaf branch is not `if ..: return ..`", lf)
    ctx = Ctx()
    leaf, ty = tr(lf.test, en, ctx)
    if ty != BOOL:
        fail("Tree.predict: leaf test is not a test", lf)
    leaf_binds = ctx.take()
    r = lf.body[0].value
    if not (isinstance(r, ast.BinOp) and isinstance(r.op, ast.Mult) and ast.unparse(r.right) == "np.ones(len(X), dtype=np.int64)"):
        fail("Tree.predict: leaf value is not `<value> * np.ones(len(X), dtype=np.int64)`", r)
    lv, ty = tr(r.left, en, ctx)
    lv = coerce(lv, ty, NAT, ctx, r)
    lv_binds = ctx.take()
    ob = lf.orelse
    if len(ob) != 6:
        fail("Tree.predict: the split branch is not the known six statements", lf)
    cat = ob[0]
    if not (isinstance(cat, ast.If) and ast.unparse(cat.test) == "self.categorical_nodes[node]" and len(cat.body) == 1 and len(cat.orelse) == 1):
        fail("Tree.predict: categorical test changed", cat)
    lit(cat.body[0], "X_left = X[:, self.features[node]] == self.thresholds")
    a = cat.orelse[0]
    if not (isinstance(a, ast.Assign) and ast.unparse(a.targets[0]) == "X_left" and isinstance(a.value, ast.Compare) and len(a.value.ops) == 1):
        fail("Tree.predict: X_left is not a single comparison", a)
    col = a.value.left
    if not (isinstance(col, ast.Subscript) and ast.unparse(col.value) == "X" and isinstance(col.slice, ast.Tuple) and len(col.slice.elts) == 2
            and ast.unparse(col.slice.elts[0]) == ":"):
        fail("Tree.predict: left operand is not a column X[:, j]", a)
    j, tj = tr(col.slice.elts[1], en, ctx)
    j = coerce(j, tj, NAT, ctx, col)
    en2 = dict(en)
    en2[ast.unparse(col)] = (f"x {paren(j)}", TT)
    cmp_txt, ty = tr(a.value, en2, ctx)
    if ty != BOOL:
        fail("Tree.predict: comparison", a)
    cmp_binds = ctx.take()
    lit(ob[1], "X_right = ~X_left")
    lit(ob[2], "predictions = np.zeros(len(X), dtype=np.int64)")
    lit(ob[5], "return predictions")
    child = {}
    for s in ob[3:5]:
        ok = (isinstance(s, ast.Assign) and len(s.targets) == 1 and isinstance(s.targets[0], ast.Subscript)
              and ast.unparse(s.targets[0].value) == "predictions" and isinstance(s.targets[0].slice, ast.Name)
              and s.targets[0].slice.id in ("X_left", "X_right") and isinstance(s.value, ast.Call)
              and ast.unparse(s.value.func) == "self.predict" and len(s.value.args) == 2 and not s.value.keywords
              and ast.unparse(s.value.args[0]) == f"X[{s.targets[0].slice.id}]")
        if not ok:
            fail("Tree.predict: mask assignment is not `predictions[M] = self.predict(X[M], child)`", s)
        m = s.targets[0].slice.id
        if m in child:
            fail("Tree.predict: the same mask is assigned twice", s)
        c, tc = tr(s.value.args[1], en, ctx)
        c = coerce(c, tc, NAT, ctx, s)
        child[m] = (ctx.take(), c)
    out = []
    out.append(f"    if {guard} then None else")
    out.append(wrap(leaf_binds, f"    if {leaf} then", 4))
    out.append(wrap(lv_binds, f"      Some {paren(lv)}", 6))
    out.append("    else")
    out.append(wrap(cmp_binds, f"      if {cmp_txt} then", 6))
    out.append(wrap(child["X_left"][0], f"        gen_predict_node leb fuel' t x {paren(child['X_left'][1])}", 8))
    out.append("      else")
    out.append(wrap(child["X_right"][0], f"        gen_predict_node leb fuel' t x {paren(child['X_right'][1])}", 8))
    return "\n".join(out), ast.unparse(fn.args.defaults[0])


# ------------------------------------------------------------------ print_kauri_tree / print_node
def fmt_parts(js, node):
    """f-string -> list of ('s', text) / ('e', expr)"""
    if isinstance(js, ast.Constant) and isinstance(js.value, str):
        return [("s", js.value)]
    if not isinstance(js, ast.JoinedStr):
        fail("print argument is not a string / f-string", node)
    parts = []
    for v in js.values:
        if isinstance(v, ast.Constant) and isinstance(v.value, str):
            parts.append(("s", v.value))
        elif isinstance(v, ast.FormattedValue) and v.conversion == -1 and v.format_spec is None:
            parts.append(("e", v.value))
        else:
            fail("f-string piece with a conversion or a format specification", node)
    return parts


def tr_print(call, en, ctx):
    """print(..) -> token text (reads go to ctx.binds)"""
    kws = {k.arg: ast.unparse(k.value) for k in call.keywords}
    if not call.args:
        fail("empty print", call)
    p = call.args[0]
    if not (isinstance(p, ast.BinOp) and isinstance(p.op, ast.Mult) and isinstance(p.left, ast.Constant) and p.left.value == "| "):
        fail("print: first argument is not the depth prefix '| ' * depth", call)
    d, td = tr(p.right, en, ctx)
    d = coerce(d, td, NAT, ctx, call)
    rest = [fmt_parts(a, call) for a in call.args[1:]]
    shape = [[k if k == "e" else v for k, v in a] for a in rest]
    if shape == [["Node ", "e"]] and kws == {"sep": "''"}:
        e, te = tr(rest[0][1][1], en, ctx)
        return f"TNode {paren(d)} {paren(coerce(e, te, NAT, ctx, call))}"
    if shape == [["Cluster: ", "e"]] and kws == {}:
        e, te = tr(rest[0][1][1], en, ctx)
        return f"TCluster {paren(d)} {paren(coerce(e, te, NAT, ctx, call))}"
    if len(shape) == 2 and shape[0] == ["|="] and len(shape[1]) == 3 and shape[1][0] == "e" and shape[1][2] == "e" \
            and shape[1][1] in (" <= ", " > ") and kws == {"sep": "''"}:
        nm, tn = tr(rest[1][0][1], en, ctx)
        if tn != LABEL:
            fail("rule line: the name is not a label", call)
        th, tt = tr(rest[1][2][1], en, ctx)
        th = coerce(th, tt, TT, ctx, call)
        return f"TRule {paren(d)} {paren(nm)} {paren(th)} {'LE' if shape[1][1] == ' <= ' else 'GT'}"
    fail("print call is not one of the three known line shapes: " + ast.unparse(call)[:100], call)


def tr_label(e, en, ctx):
    """value of feature_name: feature_names[feature] or f"X[:, {feature}]" """
    if isinstance(e, ast.JoinedStr):
        parts = fmt_parts(e, e)
        if [k if k == "e" else v for k, v in parts] != ["X[:, ", "e", "]"]:
            fail("default label is not f\"X[:, {feature}]\"", e)
        f, tf = tr(parts[1][1], en, ctx)
        return f"LIdx {paren(coerce(f, tf, NAT, ctx, e))}"
    if isinstance(e, ast.Subscript):
        v, tv = tr(e, en, ctx)
        if tv != "N":
            fail("label is not an entry of the names list", e)
        return f"LName {v}"
    fail("unknown label expression", e)


def tr_block(stmts, en, ind, k_end="Some []"):
    """statements of print_node -> text of type option (list token)"""
    pad = " " * ind
    if not stmts:
        return pad + k_end
    s, rest = stmts[0], stmts[1:]
    ctx = Ctx()
    if isinstance(s, ast.Return):
        if s.value is not None:
            fail("print_node returns a value", s)
        return pad + k_end
    if isinstance(s, ast.Assign) and len(s.targets) == 1 and isinstance(s.targets[0], ast.Name):
        name = s.targets[0].id
        if isinstance(s.value, ast.Subscript):
            v, tv = tr(s.value, en, ctx)
            binds = ctx.take()
            if binds[-1][0] != v:
                fail("internal: read not last", s)
            binds[-1] = (name, binds[-1][1])
            en2 = dict(en)
            en2[name] = (name, tv)
            return wrap(binds, tr_block(rest, en2, ind), ind)
        if isinstance(s.value, ast.Name) and s.value.id in en:       # alias of a local
            en2 = dict(en)
            en2[name] = en[s.value.id]
            return tr_block(rest, en2, ind)
        fail("print_node: assignment of something that is not a list read", s)
    if isinstance(s, ast.Expr) and isinstance(s.value, ast.Call) and ast.unparse(s.value.func) == "print":
        tok = tr_print(s.value, en, ctx)
        return wrap(ctx.take(), f"{pad}emit ({tok}) (\n{tr_block(rest, en, ind)})", ind)
    if isinstance(s, ast.Expr) and isinstance(s.value, ast.Call) and ast.unparse(s.value.func) == "print_node":
        if len(s.value.args) != 1 or s.value.keywords:
            fail("recursive call shape", s)
        a, ta = tr(s.value.args[0], en, ctx)
        a = coerce(a, ta, NAT, ctx, s)
        return wrap(ctx.take(), f"{pad}emit_all (gen_render_node fuel' t names {paren(a)}) (\n{tr_block(rest, en, ind)})", ind)
    if isinstance(s, ast.If) and not s.orelse and s.body and isinstance(s.body[-1], ast.Return):
        c, tc = tr(s.test, en, ctx)
        if tc != BOOL:
            fail("test expected", s)
        return wrap(ctx.take(), f"{pad}if {c} then (\n{tr_block(s.body, en, ind + 2)})\n{pad}else (\n{tr_block(rest, en, ind)})", ind)
    if isinstance(s, ast.If) and len(s.body) == 1 and len(s.orelse) == 1:
        # if <names> is not None: v = A  else: v = B
        a, b = s.body[0], s.orelse[0]
        ok = all(isinstance(x, ast.Assign) and len(x.targets) == 1 and isinstance(x.targets[0], ast.Name) for x in (a, b))
        if not ok or a.targets[0].id != b.targets[0].id:
            fail("if/else does not assign one variable in both branches", s)
        name = a.targets[0].id
        t = ast.unparse(s.test)
        var = None
        for cand, (txt, ty) in en.items():
            if isinstance(ty, tuple) and ty[0] == "opt" and t == f"{cand} is not None":
                var, vtxt, vty, pos = cand, txt, ty[1], True
            elif isinstance(ty, tuple) and ty[0] == "opt" and t == f"{cand} is None":
                var, vtxt, vty, pos = cand, txt, ty[1], False
        if var is None:
            fail("if/else test is not `<optional argument> is [not] None`", s)
        en_some = dict(en)
        en_some[var] = (var, vty)
        c1, c2 = Ctx(), Ctx()
        c2.k = 100
        la = tr_label(a.value, en_some if pos else en, c1)
        lb = tr_label(b.value, en if pos else en_some, c2)
        some_txt, none_txt = (la, lb) if pos else (lb, la)
        some_b, none_b = (c1.take(), c2.take()) if pos else (c2.take(), c1.take())
        en2 = dict(en)
        en2[name] = (name, LABEL)
        body = (f"{pad}do {name} <- (match {vtxt} with\n"
                f"{pad}  | Some {var} =>\n{wrap(some_b, f'{pad}    Some ({some_txt})', ind + 4)}\n"
                f"{pad}  | None =>\n{wrap(none_b, f'{pad}    Some ({none_txt})', ind + 4)}\n{pad}  end);\n")
        return body + tr_block(rest, en2, ind)
    fail(f"print_node: unknown statement `{ast.unparse(s)[:100]}`", s)


def tr_print_kauri_tree(fn):
    if [a.arg for a in fn.args.args] != ["kauri_tree", "feature_names"] or [ast.unparse(d) for d in fn.args.defaults] != ["None"]:
        fail("signature of print_kauri_tree changed", fn)
    if [ast.unparse(d) for d in fn.decorator_list] != ["constraint_params({'kauri_tree': [Kauri], 'feature_names': ['array-like', None]})"]:
        fail("decorator constraints of print_kauri_tree changed", fn)
    body = strip_doc(fn.body)
    if len(body) != 5:
        fail("print_kauri_tree: expected isinstance guard, check_is_fitted, names guard, print_node, print_node(0)", fn)
    g = body[0]
    if not (isinstance(g, ast.If) and ast.unparse(g.test) == "not isinstance(kauri_tree, Kauri)" and not g.orelse
            and len(g.body) == 1 and isinstance(g.body[0], ast.Raise) and ast.unparse(g.body[0].exc.func) == "ValueError"):
        fail("isinstance guard changed", g)
    lit(body[1], "check_is_fitted(kauri_tree)")
    ng = body[2]
    if not (isinstance(ng, ast.If) and ast.unparse(ng.test) == "feature_names is not None" and not ng.orelse and len(ng.body) == 2):
        fail("names guard block changed shape", ng)
    uf, rj = ng.body
    if not (isinstance(uf, ast.Assign) and ast.unparse(uf.targets[0]) == "used_features"):
        fail("names guard: used_features is not assigned first", uf)
    en = {f"kauri_tree.tree_.{f}": (f"{f} t", FIELDS[f]) for f in FIELDS}
    ctx = Ctx()
    used, tu = tr(uf.value, en, ctx)
    if tu != lst(NAT) or ctx.binds:
        fail("used_features is not a list of feature indices", uf)
    if not (isinstance(rj, ast.If) and not rj.orelse and len(rj.body) == 1 and isinstance(rj.body[0], ast.Raise)
            and ast.unparse(rj.body[0].exc.func) == "ValueError"):
        fail("names guard does not raise ValueError", rj)
    en_g = dict(en)
    en_g["used_features"] = ("used_features", lst(NAT))
    en_g["feature_names"] = ("feature_names", lst("N"))
    test, tt = tr(rj.test, en_g, ctx)
    if tt != BOOL or ctx.binds:
        fail("names guard is not a plain test", rj)
    pn = body[3]
    if not (isinstance(pn, ast.FunctionDef) and pn.name == "print_node" and [a.arg for a in pn.args.args] == ["node_id"]
            and not pn.args.defaults and not pn.decorator_list):
        fail("print_node changed shape", pn)
    en_p = dict(en)
    en_p["node_id"] = ("node_id", NAT)
    en_p["feature_names"] = ("names", opt(lst("N")))
    node_body = tr_block(strip_doc(pn.body), en_p, 4)
    st = body[4]
    if not (isinstance(st, ast.Expr) and isinstance(st.value, ast.Call) and ast.unparse(st.value.func) == "print_node"
            and len(st.value.args) == 1 and not st.value.keywords):
        fail("print_kauri_tree does not end with print_node(<start>)", st)
    start, ts = tr(st.value.args[0], {}, ctx)
    start = coerce(start, ts, NAT, ctx, st)
    return used, test, node_body, start, pn


TEMPLATE = """(* GENERATED by translator/tr_kauriprint.py - do not edit.
   Source: {rel}  sha256 {sha}
{ranges}
   Whole-function translation (see the translator's docstring for the scheme): list reads are nth_error binds,
   stores are `store`, printed lines are tokens, python's recursion gets fuel.  T = thresholds / column values
   with the code's `<=` as `leb`, N = user feature names.  Compared with the hand-written Model/KauriPrint.v in
   Proofs/KauriPrintGen.v; the C19 theorems are stated about these definitions. *)
From Coq Require Import List Arith ZArith Bool.
From GV Require Import Model.KauriPrint.
Import ListNotations.

Section Gen.
Context {{T N : Type}}.

(* Tree.__init__ *)
Definition gen_empty_tree : tree T := {init}.

(* Tree._add_child(self, father, split) : every modelled attribute after the call, in statement order *)
Definition gen_add_child (t : tree T) (father : nat) (s : split T) : option (tree T) :=
{add_child}

(* Tree.predict(self, X, node={pdef}) for one row x of X *)
Fixpoint gen_predict_node (leb : T -> T -> bool) (fuel : nat) (t : tree T) (x : nat -> T) (node : nat) : option nat :=
  match fuel with
  | O => None
  | S fuel' =>
{predict}
  end.
Definition gen_predict (leb : T -> T -> bool) (t : tree T) (x : nat -> T) : option nat :=
  gen_predict_node leb (n_nodes t) t x {pdef}.

(* print_kauri_tree: used_features = ... ; if <test>: raise ValueError *)
Definition gen_used_features (t : tree T) : list nat :=
  {used}.
Definition gen_names_guard_rejects (t : tree T) (feature_names : list N) : bool :=
  let used_features := gen_used_features t in
  {guard}.

(* def print_node(node_id) : the printed lines as tokens *)
Fixpoint gen_render_node (fuel : nat) (t : tree T) (names : option (list N)) (node_id : nat) : option (list (token T N)) :=
  match fuel with
  | O => None
  | S fuel' =>
{node}
  end.
(* print_node({start}) *)
Definition gen_render (t : tree T) (names : option (list N)) : option (list (token T N)) :=
  gen_render_node (n_nodes t) t names {start}.

(* print_kauri_tree(kauri_tree, feature_names=None): @constraint_params, isinstance, check_is_fitted, names guard, print_node *)
Definition gen_print_kauri_tree (o : obj T) (na : names_arg N) : outcome T N :=
  match o with
  | Foreign => ErrParam
  | Unfitted => match na with NBad => ErrParam | _ => ErrNotFitted end
  | Fitted t =>
    match na with
    | NBad => ErrParam
    | NAbsent => match gen_render t None with Some toks => Printed toks | None => ErrIndex end
    | NList feature_names =>
      if gen_names_guard_rejects t feature_names then ErrNames
      else match gen_render t (Some feature_names) with Some toks => Printed toks | None => ErrIndex end
    end
  end.
End Gen.
"""


def translate():
    raw = open(SRC, "rb").read()
    mod = ast.parse(raw.decode())
    cls = [n for n in mod.body if isinstance(n, ast.ClassDef) and n.name == "Tree"]
    pk = [n for n in mod.body if isinstance(n, ast.FunctionDef) and n.name == "print_kauri_tree"]
    if len(cls) != 1 or len(pk) != 1:
        fail("class Tree / print_kauri_tree not found exactly once")
    meth = {n.name: n for n in cls[0].body if isinstance(n, ast.FunctionDef)}
    for m in ("__init__", "_add_child", "predict"):
        if m not in meth:
            fail(f"Tree.{m} not found")
    if cls[0].bases or cls[0].decorator_list:
        fail("class Tree has bases / decorators")
    for n in ("__init__", "_add_child", "predict"):
        if meth[n].decorator_list:
            fail(f"Tree.{n} is decorated")
    init = tr_init(meth["__init__"])
    addc = tr_add_child(meth["_add_child"])
    pred, pdef = tr_predict(meth["predict"])
    used, guard, node, start, pn = tr_print_kauri_tree(pk[0])
    rng = lambda n: f"{n.lineno}-{n.end_lineno}"
    ranges = "\n".join([f"   Tree.__init__ lines {rng(meth['__init__'])}", f"   Tree._add_child lines {rng(meth['_add_child'])}",
                        f"   Tree.predict lines {rng(meth['predict'])}", f"   print_kauri_tree lines {rng(pk[0])} (print_node {rng(pn)})"])
    return TEMPLATE.format(rel=REL, sha=hashlib.sha256(raw).hexdigest(), ranges=ranges, init=init, add_child=addc,
                           predict=pred, pdef=pdef, used=used, guard=guard, node=node, start=start)


def main():
    try:
        text = translate()
    except (Unknown, SyntaxError, OSError) as e:
        print(f"tr_kauriprint: FAIL-CLOSED: {e}")
        sys.exit(1)
    except Exception as e:  # noqa  anything unexpected is a failure to translate, never a partial output
        print(f"tr_kauriprint: FAIL-CLOSED: {type(e).__name__}: {e}")
        sys.exit(1)
    old = open(OUT).read() if os.path.exists(OUT) else None
    if old != text:
        os.makedirs(os.path.dirname(OUT), exist_ok=True)
        open(OUT, "w").write(text)
        print("tr_kauriprint: wrote", OUT)
        # build.sh reports BUILD-FAIL only for a MISSING .vo: remove the compiled dependents so that a failing
        # re-compilation against the new text cannot hide behind the stale objects of the previous text
        for sub, name in DEPENDENTS:
            for ext in (".vo", ".vos", ".vok", ".glob"):
                stale = os.path.join(ROOT, "coq", sub, name + ext)
                if os.path.exists(stale):
                    os.remove(stale)
    else:
        print("tr_kauriprint: unchanged")


if __name__ == "__main__":
    main()
