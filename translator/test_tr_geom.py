#!/usr/bin/env python3
"""Self-test of translator/tr_geom.py WITHOUT Coq (not run by the build).

`tr_geom.py --python` prints the symbolic terms it puts into coq/Gen/Geom.v as plain Python functions
(IEEE doubles, the same left-fold `bsum`, the same nclip / nmax, `==` for neqb / Nat.eqb).  They are
evaluated here on random inputs and compared with the real `MMDGEMINI.evaluate`: score (return_grad=False),
score and gradient (return_grad=True), both values of `ovo`; positive semi-definite kernels (linear, rbf),
indefinite symmetric kernels, negated PSD kernels (every squared distance clamped by np.maximum(., 0)),
non-symmetric matrices, integer-valued kernels; entries of y_pred outside [eps, 1 - eps] (clipped, masked
gradient), exact 0 / 1 entries; zero distances (duplicated columns of y_pred for one-vs-one, a constant
column / K = 1 / n = 1 for one-vs-all: `Lambda[delta == 0] = 0`, `gradient[:, delta_mask] = 0`); n = 1,
K = 1, n = K.

    /venv/bin/python translator/test_tr_geom.py [cases] [seed]
    /venv/bin/python translator/test_tr_geom.py --python       # only print the generated Python text

Exit status 0 when the maximum relative discrepancy |a - b| / (1 + |b|) is below 1e-8, 1 otherwise.
What is under the square root is a difference of sums (a + c - 2 b, -2 w_kk' + w_k'k' + w_kk): when it is
non-zero but smaller than 1e-7 of the magnitude of its terms, its sign / the test `delta == 0` is decided by
rounding (numpy sums pairwise / through BLAS, the terms left to right); such cases are counted and skipped.
"""
import os
import subprocess
import sys

HERE = os.path.dirname(os.path.abspath(__file__))
REPO = os.environ.get("VERIF_REPO", "/repo")
sys.path.insert(0, REPO)

import numpy as np  # noqa: E402


def generated_text():
    r = subprocess.run([sys.executable, os.path.join(HERE, "tr_geom.py"), "--python"], capture_output=True, text=True,
                       env=dict(os.environ, VERIF_REPO=REPO))
    if r.returncode != 0:
        print("translator failed closed:", r.stderr.strip())
        sys.exit(2)
    return r.stdout


def gen_Y(rng, n, K, eps, style):
    if style == 0:                                  # softmax rows (interior unless eps is large)
        z = rng.normal(size=(n, K)) * rng.choice([0.5, 2.0, 6.0])
        Y = np.exp(z - z.max(1, keepdims=True))
        Y /= Y.sum(1, keepdims=True)
    elif style == 1:                                # one-hot-ish rows: exact 0 / 1 entries
        Y = np.zeros((n, K))
        Y[np.arange(n), rng.integers(0, K, size=n)] = 1.0
        Y = np.where(rng.random((n, K)) < 0.3, rng.random((n, K)), Y)
    elif style == 2:                                # arbitrary values, some outside [0, 1]
        Y = rng.uniform(-0.2, 1.2, size=(n, K))
    else:                                           # entries sitting exactly on / next to the bounds
        Y = rng.uniform(0.0, 1.0, size=(n, K))
        m = rng.random((n, K))
        Y = np.where(m < 0.2, eps, Y)
        Y = np.where((m >= 0.2) & (m < 0.4), 1 - eps, Y)
        Y = np.where((m >= 0.4) & (m < 0.5), np.nextafter(eps, 1.0), Y)
    return Y


def gen_A(rng, n, kind):
    X = rng.normal(size=(n, int(rng.integers(1, 4))))
    if kind == "linear":
        return X @ X.T
    if kind == "rbf":
        d = ((X[:, None, :] - X[None, :, :]) ** 2).sum(-1)
        return np.exp(-d / X.shape[1])
    if kind == "indefinite":
        M = rng.normal(size=(n, n))
        return (M + M.T) / 2
    if kind == "negated":
        return -(X @ X.T) - 0.1 * np.eye(n)
    if kind == "nonsymmetric":
        return rng.normal(size=(n, n))
    if kind == "integer":
        M = rng.integers(-2, 4, size=(n, n)).astype(float)
        return M + M.T
    raise ValueError(kind)


def under_the_root(Y, A, eps, ovo):
    """the quantities whose square root is taken, with the magnitude of their terms (test-side recomputation, used only
    to recognise near-degenerate cases)"""
    P = np.clip(Y, eps, 1 - eps)
    N = P.shape[0]
    nk = A / N ** 2
    al = P / P.mean(0, keepdims=True)
    ga = nk @ al
    if ovo:
        om = al.T @ ga
        d = np.diag(om)
        q = -2 * om + d[None, :] + d[:, None]
        mag = 2 * np.abs(om) + np.abs(d)[None, :] + np.abs(d)[:, None]
        off = ~np.eye(len(om), dtype=bool)
        return q[off], mag[off]
    a, b, c = (al * ga).sum(0), ga.sum(0), nk.sum()
    return a + c - 2 * b, np.abs(a) + abs(c) + 2 * np.abs(b)


def main():
    if sys.argv[1:] == ["--python"]:
        sys.stdout.write(generated_text())
        return 0
    cases = int(sys.argv[1]) if len(sys.argv) > 1 else 120
    seed = int(sys.argv[2]) if len(sys.argv) > 2 else 20261001
    ns = {}
    exec(compile(generated_text(), "<tr_geom --python>", "exec"), ns)
    from gemclus.gemini import MMDGEMINI
    rng = np.random.default_rng(seed)
    worst = {}
    counts = {"cases": 0, "entries": 0, "clipped_entries": 0, "near_degenerate_skipped": 0, "clamped_roots": 0,
              "zero_distances_ova": 0, "zero_distances_ovo_offdiag": 0, "masked_gradient_columns_ova": 0}
    kinds = ["linear", "rbf", "indefinite", "negated", "nonsymmetric", "integer"]
    by_kind = {k: 0 for k in kinds}
    bad = []

    def rel(a, b):
        return abs(a - b) / (1.0 + abs(b))

    for c in range(cases):
        n = int(rng.choice([1, 2, 3, 4, 5, 6, 8]))
        K = int(rng.choice([1, 2, 3, 4, 5]))
        if c % 7 == 0:
            K = n
        eps = float(rng.choice([1e-12, 1e-3, 0.05, 0.2]))
        kind = kinds[c % len(kinds)]
        Y = gen_Y(rng, n, K, eps, (c // len(kinds)) % 4)
        A = gen_A(rng, n, kind)
        special = c % 5
        if special == 1 and K >= 2:                 # duplicated columns: a zero one-vs-one distance off the diagonal
            Y[:, K - 1] = Y[:, 0]
        if special == 2:                            # a constant column: alpha = 1 there; exact sums (n a power of two,
            n = int(rng.choice([1, 2, 4, 8]))       # small integer kernel) make the one-vs-all distance exactly 0
            Y = gen_Y(rng, n, K, eps, 0)
            Y[:, 0] = 0.5
            A = gen_A(rng, n, "integer")
        Yf = lambda i, k, Y=Y: float(Y[i, k])
        Af = lambda i, j, A=A: float(A[i, j])
        for ovo in (False, True):
            suffix = "ovo" if ovo else "ova"
            key = f"mmd_{suffix}"
            obj = MMDGEMINI(ovo=ovo, kernel="precomputed", epsilon=eps)
            with np.errstate(all="ignore"):
                s_ref = float(obj.evaluate(Y.copy(), A.copy(), return_grad=False))
                s2_ref, g_ref = obj.evaluate(Y.copy(), A.copy(), return_grad=True)
                q, mag = under_the_root(Y, A, eps, ovo)
            if np.any((q != 0) & (np.abs(q) < 1e-7 * (mag + 1e-300))):
                counts["near_degenerate_skipped"] += 1
                continue
            if not (np.all(np.isfinite(g_ref)) and np.isfinite(s_ref)):
                bad.append((key, "non-finite reference", n, K, eps, kind))
                continue
            s = ns[f"gen_mmd_score_{suffix}"](eps, n, K, Yf, Af)
            s2 = ns[f"gen_mmd_gscore_{suffix}"](eps, n, K, Yf, Af)
            gfun = ns[f"gen_mmd_grad_{suffix}"]
            g = np.array([[gfun(eps, n, K, Yf, Af, i, k) for k in range(K)] for i in range(n)])
            ds = max(rel(s, s_ref), rel(s2, float(s2_ref)))
            dg = float(np.max(np.abs(g - g_ref) / (1.0 + np.abs(g_ref)))) if g.size else 0.0
            worst[key] = max(worst.get(key, 0.0), ds, dg)
            counts["cases"] += 1
            by_kind[kind] += 1
            counts["entries"] += n * K
            counts["clamped_roots"] += int((q < 0).sum())
            if ovo:
                counts["zero_distances_ovo_offdiag"] += int((q == 0).sum())
            else:
                counts["zero_distances_ova"] += int((q <= 0).sum())
                counts["masked_gradient_columns_ova"] += int(np.sum(np.all(g_ref == 0, axis=0) & (q <= 0)))
            clipped = ~((Y > eps) & (Y < 1 - eps))
            counts["clipped_entries"] += int(clipped.sum())
            if np.any(g[clipped] != 0.0):
                bad.append((key, "non-zero generated gradient on a clipped entry", n, K, eps, kind))
            if not np.all(np.isfinite(g)) or not np.isfinite(s):
                bad.append((key, "non-finite generated value", n, K, eps, kind))
            elif max(ds, dg) > 1e-8:
                bad.append((key, f"discrepancy score {ds:.3e} grad {dg:.3e}", n, K, eps, kind, Y.tolist(), A.tolist()))
    for k in sorted(worst):
        print(f"{k:8s} max relative discrepancy {worst[k]:.3e}")
    print("counts:", counts)
    print("cases per kernel kind:", by_kind)
    print("MAX DISCREPANCY", f"{max(worst.values()):.3e}")
    for b in bad[:10]:
        print("BAD", b)
    return 1 if bad else 0


if __name__ == "__main__":
    sys.exit(main())
