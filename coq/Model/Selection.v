(* C06 — model of feature selection in the sparse estimators.
   Sources: gemclus/sparse/_linear_sparse.py (SparseLinearModel: get_selection, _n_selected_features,
   _group_lasso_penalty, _update_weights, fit), gemclus/sparse/_mlp_sparse.py (SparseMLPModel: same methods on
   W_skip_ / W1_), gemclus/sparse/_base_sparse.py::check_groups, DiscriminativeModel.fit's training loop,
   sklearn.neural_network._stochastic_optimizers (the `learning_rate` attribute that _update_weights reads).
   Matrices are total functions nat -> nat -> T with explicit dimensions, as in Model/Forward.v.
   The proximal operators themselves are C05's (Model/Prox.v); here they are *arguments* (oracles) of
   update_weights, exactly like the optimiser step.  No proofs in this file. *)
From Coq Require Import List Bool Arith.
From Coq Require String.
From GV Require Import Common.Num Model.Forward.
Import ListNotations.

Section Selection.
Context {T : Type} (o : NumOps T).
Local Notation mat := (nat -> nat -> T).

(* np.linalg.norm(W, axis=1, ord=2)[j] = sqrt(add.reduce(W[j] * W[j])) *)
Definition row_norm (K : nat) (W : mat) (j : nat) : T :=
  nsqrt o (bsum o K (fun k => nmul o (W j k) (W j k))).
(* the test `norm != 0` of _n_selected_features; np.nonzero uses the same test *)
Definition selected (K : nat) (W : mat) (j : nat) : bool := negb (neqb o (row_norm K W j) (n0 o)).
(* get_selection:  np.nonzero(np.linalg.norm(self.W_, axis=1, ord=2))[0]   (W_skip_ for the MLP)
   = the increasing list of row indices whose norm is non-zero *)
Definition selection (d K : nat) (W : mat) : list nat := filter (selected K W) (seq 0 d).
(* _n_selected_features:  (np.linalg.norm(self.W_, axis=1, ord=2) != 0).sum() *)
Fixpoint n_selected (d K : nat) (W : mat) : nat :=
  match d with O => 0 | S m => n_selected m K W + (if selected K W m then 1 else 0) end.
(* _group_lasso_penalty:  np.linalg.norm(self.W_, axis=1, ord=2).sum() *)
Definition group_lasso_penalty (d K : nat) (W : mat) : T := bsum o d (row_norm K W).

(* ---- numpy vocabulary of the one-line methods, used by the regenerated definitions of Gen/SelectionRules.v ---- *)
(* np.linalg.norm(A, axis=1, ord=2) of an (r x ncols) matrix: one value per row *)
Definition np_norm_axis1 (ncols : nat) (A : mat) : nat -> T :=
  fun j => nsqrt o (bsum o ncols (fun k => nmul o (A j k) (A j k))).
(* np.linalg.norm(A, axis=0, ord=2) of an (nrows x c) matrix: one value per column *)
Definition np_norm_axis0 (nrows : nat) (A : mat) : nat -> T :=
  fun k => nsqrt o (bsum o nrows (fun j => nmul o (A j k) (A j k))).
(* v != 0, v > 0, v >= 0, v == 0 : element-wise tests against the literal 0 *)
Definition np_ne0 (v : nat -> T) : nat -> bool := fun j => negb (neqb o (v j) (n0 o)).
Definition np_gt0 (v : nat -> T) : nat -> bool := fun j => nltb o (n0 o) (v j).
Definition np_ge0 (v : nat -> T) : nat -> bool := fun j => nleb o (n0 o) (v j).
Definition np_eq0 (v : nat -> T) : nat -> bool := fun j => neqb o (v j) (n0 o).
(* np.nonzero(v)[0] of a vector of length n *)
Definition np_nonzero0 (n : nat) (v : nat -> T) : list nat := filter (np_ne0 v) (seq 0 n).
(* (<boolean vector of length n>).sum() *)
Fixpoint np_count (n : nat) (b : nat -> bool) : nat :=
  match n with O => 0 | S m => np_count m b + (if b m then 1 else 0) end.
(* (<vector of length n>).sum() *)
Definition np_sum (n : nat) (v : nat -> T) : T := bsum o n v.

(* ---- the learning rate _update_weights reads: self.optimiser_.learning_rate, *after* update_params ---- *)
Fixpoint npow (x : T) (t : nat) : T := match t with O => n1 o | S m => nmul o x (npow x m) end.
(* AdamOptimizer._get_updates: self.t += 1; ...
   self.learning_rate = self.learning_rate_init * np.sqrt(1 - self.beta_2**self.t) / (1 - self.beta_1**self.t)
   (t = number of update_params calls so far, this one included) *)
Definition adam_lr (lr0 b1 b2 : T) (t : nat) : T :=
  ndiv o (nmul o lr0 (nsqrt o (nsub o (n1 o) (npow b2 t)))) (nsub o (n1 o) (npow b1 t)).
(* SGDOptimizer(weights, learning_rate) with the default 'constant' schedule: learning_rate = learning_rate_init
   (fit with solver='sgd', and every path step: `clf.optimiser_ = SGDOptimizer(weights, clf.learning_rate)`) *)
Definition sgd_lr (lr0 : T) (t : nat) : T := lr0.
(* self.alpha * self.optimiser_.learning_rate *)
Definition prox_threshold (alpha lr : T) : T := nmul o alpha lr.

(* weights = [W_, b_] *)
Record lin_params := { lW : mat; lb : nat -> T }.
(* weights = [W1_, W2_, W_skip_, b1_, b2_] *)
Record mlp_params := { mW1 : mat; mW2 : mat; mWskip : mat; mb1 : nat -> T; mb2 : nat -> T }.

Section Update.
Context {St : Type}.
(* SparseLinearModel._update_weights(weights, gradients):
     self.optimiser_.update_params(weights, gradients)            -- in place: weights and optimiser state
     thr = self.alpha * self.optimiser_.learning_rate              -- the rate of the state *after* the step
     new_W = linear_prox_grad(self.W_, thr)                        if self.groups_ is None
           = group_linear_prox_grad(self.groups_, self.W_, thr)    otherwise
     np.copyto(self.W_, new_W)                                     -- b_ keeps the optimiser's value *)
Definition update_weights_linear
    (opt_step : St -> lin_params -> lin_params -> St * lin_params) (opt_lr : St -> T)
    (prox : mat -> T -> mat) (gprox : list (list nat) -> mat -> T -> mat)
    (groups_ : option (list (list nat))) (alpha : T) (s : St) (w g : lin_params) : St * lin_params :=
  let sw := opt_step s w g in
  let thr := prox_threshold alpha (opt_lr (fst sw)) in
  let W' := match groups_ with
            | None => prox (lW (snd sw)) thr
            | Some gs => gprox gs (lW (snd sw)) thr
            end in
  (fst sw, {| lW := W'; lb := lb (snd sw) |}).

(* SparseMLPModel._update_weights: same, with
     new_W_skip, new_W1 = mlp_prox_grad(self.W_skip_, self.W1_, thr, self.M)
                        = group_mlp_prox_grad(self.groups_, self.W_skip_, self.W1_, thr, self.M)
     np.copyto(self.W_skip_, new_W_skip); np.copyto(self.W1_, new_W1)   -- W2_, b1_, b2_ keep the optimiser's value *)
Definition update_weights_mlp
    (opt_step : St -> mlp_params -> mlp_params -> St * mlp_params) (opt_lr : St -> T)
    (prox : mat -> mat -> T -> T -> mat * mat) (gprox : list (list nat) -> mat -> mat -> T -> T -> mat * mat)
    (groups_ : option (list (list nat))) (alpha M : T) (s : St) (w g : mlp_params) : St * mlp_params :=
  let sw := opt_step s w g in
  let thr := prox_threshold alpha (opt_lr (fst sw)) in
  let r := match groups_ with
           | None => prox (mWskip (snd sw)) (mW1 (snd sw)) thr M
           | Some gs => gprox gs (mWskip (snd sw)) (mW1 (snd sw)) thr M
           end in
  (fst sw, {| mW1 := snd r; mW2 := mW2 (snd sw); mWskip := fst r; mb1 := mb1 (snd sw); mb2 := mb2 (snd sw) |}).

(* DiscriminativeModel.fit / _run_path inner loops: `steps` successive calls of _update_weights, the gradient of
   call number m being some function of m (epoch, batch, affinity: abstracted) and of the current weights *)
Fixpoint train {P : Type} (upd : St -> P -> P -> St * P) (grad : nat -> P -> P) (steps : nat) (s : St) (w : P) : St * P :=
  match steps with
  | O => (s, w)
  | S m => let sw := train upd grad m s w in upd (fst sw) (snd sw) (grad m (snd sw))
  end.
End Update.
End Selection.

(* ---- groups_ = check_groups(self.groups, X.shape[1])  (gemclus/sparse/_base_sparse.py), non-negative indices ----
   (negative indices are rejected by `min(all_indices) < 0`; they are outside this nat model and belong to C16) *)
Definition mem (i : nat) (l : list nat) : bool := existsb (Nat.eqb i) l.
(* set(l) as the list of last occurrences; only its length and membership are used *)
Fixpoint dedup (l : list nat) : list nat :=
  match l with [] => [] | x :: r => if mem x r then dedup r else x :: dedup r end.
(* set(a) != set(b) *)
Definition set_eqb (a b : list nat) : bool := forallb (fun x => mem x b) a && forallb (fun x => mem x a) b.
(* groups + [[i] for i in range(n_features_in) if i not in all_indices] *)
Definition complete_groups (groups : list (list nat)) (d : nat) : list (list nat) :=
  groups ++ map (fun i => [i]) (filter (fun i => negb (mem i (concat groups))) (seq 0 d)).
Definition check_groups (groups : list (list nat)) (d : nat) : option (list (list nat)) :=
  let all := concat groups in                                       (* for g in groups: all_indices.extend(list(g)) *)
  (* if len(all_indices) > 0 and (min(all_indices) < 0 or max(all_indices) >= n_features_in): raise ValueError *)
  if existsb (fun i => d <=? i) all then None
  else if length all =? d then
    (* if set(all_indices) != set(range(n_features_in)): raise ValueError ; return groups *)
    if set_eqb all (seq 0 d) then Some groups else None
  else
    (* if len(set(all_indices)) != len(all_indices): raise ValueError ; return completed groups *)
    if negb (length (dedup all) =? length all) then None
    else Some (complete_groups groups d).
(* fit: self.groups_ = check_groups(self.groups, X.shape[1]);  `if groups is not None ... else: return None`.
   Outer None = ValueError. *)
Definition fit_groups (groups : option (list (list nat))) (d : nat) : option (option (list (list nat))) :=
  match groups with
  | None => Some None
  | Some gs => match check_groups gs d with None => None | Some r => Some (Some r) end
  end.

(* ---- the sparse fit as the regenerated rules describe it (Gen/SelectionRules.v): which calls in which order, which
   hyper-parameter goes to check_groups together with which entry of X.shape, which attribute receives the result ---- *)
Record fit_rules := {
  fr_steps : list String.string;        (* the statements of fit, in order *)
  fr_groups_source : String.string;     (* check_groups(self.<source>, ...) *)
  fr_shape_axis : nat;           (* ... X.shape[<axis>]) *)
  fr_groups_target : String.string;     (* self.<target> = ... *)
  fr_min_samples : String.string        (* validate_data(..., ensure_min_samples=self.<attr>) *)
}.
(* the value written to the target attribute (outer None = ValueError), given the hyper-parameters that hold group
   lists (read by name) and the shape of X *)
Definition fit_groups_with (r : fit_rules) (hp : String.string -> option (list (list nat))) (shape : nat -> nat)
  : option (option (list (list nat))) :=
  fit_groups (hp (fr_groups_source r)) (shape (fr_shape_axis r)).
(* EXTRACT: row_norm selected selection n_selected group_lasso_penalty npow adam_lr sgd_lr prox_threshold lin_params mlp_params update_weights_linear update_weights_mlp train check_groups complete_groups fit_groups *)
