(* C07 — model of the regularisation path: gemclus/sparse/_base_sparse.py::_path/_run_path (with the line of
   compute_val_score that forms the weighted penalty) and the `path` wrappers of
   sparse/_linear_sparse.py / sparse/_mlp_sparse.py (restore_best_weights, dynamic).
   The training itself (fit, the epochs, the GEMINI) is an abstract ORACLE: function arguments that
   give, per outer step and per epoch, what the code observes of the estimator.  The scalar decision
   rules (argument defaults, early-stopping test, best-score update, keep test, alpha update) are a
   record [PathRules] whose value [Gen/PathRules.v::path_rules] is regenerated from the AST of _path.
   A score is [option T]: None = NaN, every comparison with it is false (IEEE).  No proofs in this file. *)
From Coq Require Import List Bool Arith ZArith.
From GV Require Import Common.Num.
Import ListNotations.

Section PathModel.
Context {T : Type} (o : NumOps T).

(* ---- IEEE-like lifting of arithmetic and comparisons to possibly-NaN numbers ---- *)
Definition olift2 (f : T -> T -> T) (a b : option T) : option T :=
  match a, b with Some x, Some y => Some (f x y) | _, _ => None end.
Definition ocmp (f : T -> T -> bool) (a b : option T) : bool :=
  match a, b with Some x, Some y => f x y | _, _ => false end.
Definition oadd := olift2 (nadd o).
Definition osub := olift2 (nsub o).
Definition omul := olift2 (nmul o).
Definition odiv := olift2 (ndiv o).
Definition oltb := ocmp (nltb o).
Definition oleb := ocmp (nleb o).
Definition oeqb := ocmp (neqb o).
Definition ogtb (a b : option T) : bool := oltb b a.
Definition ogeb (a b : option T) : bool := oleb b a.
Definition ngtb (a b : T) : bool := nltb o b a.
Definition ngeb (a b : T) : bool := nleb o b a.
(* np.isnan *)
Definition oisnan (a : option T) : bool := match a with None => true | Some _ => false end.

(* ---- the scalar rules of _run_path (instantiated by Gen/PathRules.v) ---- *)
Record PathRules := {
  (* def _run_path(clf, X, y=None, alpha_multiplier=1.05, min_features=2, keep_threshold=0.9,
               early_stopping_factor=0.99, max_patience=10)  — the documented defaults *)
  r_sig_mult : T; r_sig_minf : Z; r_sig_keep : T; r_sig_esf : T; r_sig_patience : Z;
  (* if alpha_multiplier <= 1: warn; alpha_multiplier = 1.05 *)
  r_mult_bad : T -> bool; r_mult_default : T;
  (* if keep_threshold < 0 or keep_threshold > 1: warn; keep_threshold = 0.9 *)
  r_keep_bad : T -> bool; r_keep_default : T;
  (* if min_features <= 0: warn; min_features = 2   elif min_features >= X.shape[1]: warn *)
  r_minf_bad : Z -> bool; r_minf_default : Z; r_minf_warn : Z -> nat -> bool;
  (* iteration_gemini_score > (2 - esf) * validation_gemini_score or iteration_l1 < esf * validation_l1
     arguments: score, validation score, l1, validation l1, early_stopping_factor *)
  r_improve : option T -> option T -> T -> T -> T -> bool;
  (* alpha *= alpha_multiplier            arguments: alpha, multiplier *)
  r_alpha_next : T -> T -> T;
  (* iteration_gemini_score >= best_gemini_score and clf._n_selected_features() == X.shape[1]
     arguments: score, best, selected count, d *)
  r_best_update : option T -> option T -> nat -> nat -> bool;
  (* iteration_gemini_score >= keep_threshold * best_gemini_score     arguments: score, keep, best *)
  r_keep_test : option T -> T -> option T -> bool
}.
Context (R : PathRules).

(* ---- what the code observes of the estimator ---- *)
(* one call of compute_val_score / _group_lasso_penalty / _n_selected_features on the current weights:
   GEMINI score (None = NaN), unweighted group-lasso penalty, number of selected features *)
Record Obs := { ob_score : option T; ob_pen : T; ob_nsel : nat }.
Record Oracle := {
  (* after clf.set_params(alpha=0); clf.fit(X, y) *)
  or_init : Obs;
  (* start of outer step t, after clf.alpha = alpha: compute_val_score -> (score, unweighted penalty) *)
  or_val : nat -> T -> option T * T;
  (* outer step t run with alpha: state after epoch i (0-based) of that step *)
  or_epoch : nat -> T -> nat -> Obs
}.

(* arguments of _path/_run_path; a_alpha = clf.alpha on entry, a_max_iter = clf.max_iter, a_d = X.shape[1] *)
Record Args := { a_alpha : T; a_mult : T; a_minf : Z; a_keep : T; a_esf : T; a_patience : Z;
                 a_max_iter : nat; a_d : nat }.

(* the four `if` blocks at the top of _run_path *)
Definition eff_mult (a : Args) : T := if r_mult_bad R (a_mult a) then r_mult_default R else a_mult a.
Definition eff_keep (a : Args) : T := if r_keep_bad R (a_keep a) then r_keep_default R else a_keep a.
Definition eff_minf (a : Args) : Z := if r_minf_bad R (a_minf a) then r_minf_default R else a_minf a.
Record Warn := { w_mult : bool; w_keep : bool; w_minf : bool; w_minf_ge_d : bool }.
Definition arg_warnings (a : Args) : Warn :=
  {| w_mult := r_mult_bad R (a_mult a); w_keep := r_keep_bad R (a_keep a); w_minf := r_minf_bad R (a_minf a);
     w_minf_ge_d := if r_minf_bad R (a_minf a) then false else r_minf_warn R (a_minf a) (a_d a) |}.

Section Run.
Context (a : Args) (orc : Oracle).

(* compute_val_score: validation_l1 = clf._group_lasso_penalty() * clf.alpha *)
Definition weighted (pen alpha : T) : T := nmul o pen alpha.

(* patience = 0; i = 0
   while i < clf.max_iter and patience < max_patience:      [rem = clf.max_iter - i]
       <one epoch>; iteration_gemini_score, iteration_l1 = compute_val_score(...)
       if <improve>: validation_l1 = iteration_l1; validation_gemini_score = iteration_gemini_score; patience = 0
       else: patience += 1
       if np.isnan(iteration_gemini_score): warn; patience = max_patience
       i += 1
   result: (i, the observation after the last epoch run — None when the body never ran) *)
Fixpoint inner (rem t : nat) (alpha : T) (i : nat) (pat : Z) (vs : option T) (vl1 : T) (last : option Obs)
  : nat * option Obs :=
  match rem with
  | O => (i, last)
  | S r =>
    if Z.ltb pat (a_patience a) then
      let ob := or_epoch orc t alpha i in
      let l1 := weighted (ob_pen ob) alpha in
      let imp := r_improve R (ob_score ob) vs l1 vl1 (a_esf a) in
      let pat1 := if imp then 0%Z else (pat + 1)%Z in
      let pat2 := if oisnan (ob_score ob) then a_patience a else pat1 in
      inner r t alpha (S i) pat2 (if imp then ob_score ob else vs) (if imp then l1 else vl1) (Some ob)
    else (i, last)
  end.

(* the locals of _run_path that live across outer steps *)
Record St := {
  s_t : nat;                (* number of completed outer steps *)
  s_alpha : T;              (* alpha *)
  s_nsel : nat;             (* clf._n_selected_features() of the current weights *)
  s_best : option T;        (* best_gemini_score *)
  s_bidx : option nat;      (* which weights best_weights holds: None = initial fit, Some t = after step t *)
  s_alphas : list T; s_nfeat : list nat; s_gem : list T; s_pens : list T;   (* the four histories *)
  s_epochs : list nat       (* epochs run in each step entered (not returned by the code; traced) *)
}.

Inductive Res :=
| Returned (st : St) (nan : bool)   (* normal return; nan = the loop was left by `break` on a NaN score *)
| Unbound (st : St)                 (* inner loop body never ran: np.isnan(iteration_gemini_score) -> UnboundLocalError *)
| OutOfFuel (st : St).              (* the outer loop was still running when the fuel ran out *)

(* while clf._n_selected_features() > min_features: ... *)
Fixpoint outer (fuel : nat) (st : St) : Res :=
  if Z.ltb (eff_minf a) (Z.of_nat (s_nsel st)) then
    match fuel with
    | O => OutOfFuel st
    | S f =>
      let alpha := s_alpha st in                                   (* clf.alpha = alpha *)
      let vv := or_val orc (s_t st) alpha in                       (* compute_val_score *)
      match inner (a_max_iter a) (s_t st) alpha 0 0%Z (fst vv) (weighted (snd vv) alpha) None with
      | (_, None) => Unbound st
      | (iters, Some ob) =>
        match ob_score ob with
        | None =>                                                  (* if np.isnan(...): break *)
          Returned {| s_t := s_t st; s_alpha := alpha; s_nsel := ob_nsel ob; s_best := s_best st; s_bidx := s_bidx st;
                      s_alphas := s_alphas st; s_nfeat := s_nfeat st; s_gem := s_gem st; s_pens := s_pens st;
                      s_epochs := s_epochs st ++ [iters] |} true
        | Some g =>
          (* best_gemini_score update, then the keep test against the updated value *)
          let best' := if r_best_update R (Some g) (s_best st) (ob_nsel ob) (a_d a) then Some g else s_best st in
          outer f {| s_t := S (s_t st);
                     s_alpha := r_alpha_next R alpha (eff_mult a);           (* alpha *= alpha_multiplier *)
                     s_nsel := ob_nsel ob;
                     s_best := best';
                     s_bidx := if r_keep_test R (Some g) (eff_keep a) best' then Some (s_t st) else s_bidx st;
                     s_alphas := s_alphas st ++ [alpha];                     (* alphas.append(alpha) *)
                     s_nfeat := s_nfeat st ++ [ob_nsel ob];                  (* n_features.append(...) *)
                     s_gem := s_gem st ++ [g];                               (* geminis.append(...) *)
                     s_pens := s_pens st ++ [ob_pen ob];                     (* group_lasso_penalties.append(...) *)
                     s_epochs := s_epochs st ++ [iters] |}
        end
      end
    end
  else Returned st false.

(* alpha = clf.alpha; fit with alpha 0; best_gemini_score = initial validation score;
   best_weights = copy of the initial weights; empty histories *)
Definition init_state : St :=
  {| s_t := 0; s_alpha := a_alpha a; s_nsel := ob_nsel (or_init orc); s_best := ob_score (or_init orc);
     s_bidx := None; s_alphas := []; s_nfeat := []; s_gem := []; s_pens := []; s_epochs := [] |}.

Definition path (fuel : nat) : Res := outer fuel init_state.

(* _path: initial_alpha = clf.alpha; try: return _run_path(...) finally: clf.alpha = initial_alpha
   value of clf.alpha when control leaves _path (return or exception); for OutOfFuel: the value while
   the loop is still running (the last `clf.alpha = alpha`) *)
Definition alpha_after (r : Res) : T :=
  match r with Returned _ _ => a_alpha a | Unbound _ => a_alpha a | OutOfFuel st => s_alpha st end.
End Run.

(* ---- the `path` wrappers (SparseLinearModel.path / SparseMLPModel.path) ---- *)
(* if restore_best_weights: if not self.dynamic: np.copyto(weights, best_weights) else: warn *)
Definition wrapper_restores (restore dynamic : bool) : bool := restore && negb dynamic.
Definition wrapper_warn_restore_dynamic (restore dynamic : bool) : bool := restore && dynamic.
(* if y is not None and self.dynamic: warn *)
Definition wrapper_warn_dynamic_precomputed (has_y dynamic : bool) : bool := has_y && dynamic.
(* which weights the estimator holds after path(): Some idx = those of best_weights (idx as s_bidx),
   None = whatever the last epoch left *)
Definition weights_after (restore dynamic : bool) (st : St) : option (option nat) :=
  if wrapper_restores restore dynamic then Some (s_bidx st) else None.
End PathModel.
Arguments PathRules T : clear implicits.
Arguments Obs T : clear implicits.
Arguments Oracle T : clear implicits.
Arguments Args T : clear implicits.
Arguments St T : clear implicits.
Arguments Res T : clear implicits.
(* EXTRACT: path alpha_after arg_warnings eff_mult eff_keep eff_minf weights_after wrapper_warn_restore_dynamic wrapper_warn_dynamic_precomputed *)
