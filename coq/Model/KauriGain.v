(* C08 — executable model of the KAURI split search and of the objective it is supposed to increase.
   Sources: gemclus/tree/_utils.pyx (kernel_stock, gemini_objective, compute_all_splits, find_best_split)
            gemclus/tree/kauri.py   (Kauri.fit: how a chosen split is applied to Z and Y).
   Generic over the number system [NumOps T] (R for the theorems, OCaml floats for the correspondence).
   Two layers live here:
     * the SPECIFICATION side: [sigma], [term], [objective], [apply_split], [gain], [candidates], [best_spec]
       (brute-force recomputation of the objective for every admissible candidate);
     * the AS-IS side: [compute_all_splits] / [find_best] transcribe the incremental scan and the gain formulas
       exactly as written, including the two known defects; [fix7]/[fix8] = true selects the repaired text
       (F7: double-star gain reads omega[k, feature_id] and misses a factor 2; F8: `elif left_switch >=
       second_gain_right`).  [find_best_asis] = both flags false.
   No proofs in this file. *)
From Coq Require Import List Bool Arith.
From GV Require Import Common.Num.
Import ListNotations.

Fixpoint set_nth {A : Type} (j : nat) (x : A) (l : list A) : list A :=
  match l, j with
  | [], _ => []
  | _ :: r, O => x :: r
  | y :: r, S j' => y :: set_nth j' x r
  end.

Section KauriGain.
Context {T : Type} (o : NumOps T).
Local Notation "a +! b" := (nadd o a b) (at level 50, left associativity).
Local Notation "a -! b" := (nsub o a b) (at level 50, left associativity).
Local Notation "a *! b" := (nmul o a b) (at level 40, left associativity).
Local Notation "a /! b" := (ndiv o a b) (at level 40, left associativity).
Local Notation F := (nofnat o).
Local Notation one := (n1 o).
Local Notation two := (n2 o).

(* ------------------------------------------------------------------ specification side *)

(* _utils.pyx::kernel_stock:  tmp += kernel[indices_a[i], indices_b[j]]  over all i, j *)
Definition sigma (kap : nat -> nat -> T) (a b : list nat) : T :=
  lsum o (map (fun i => lsum o (map (fun j => kap i j) b)) a).

(* one summand of gemini_objective:  kernel_stock(kernel, indices) / len(indices); np.unique never yields an
   empty cluster, so an empty member list contributes nothing *)
Definition term (kap : nat -> nat -> T) (C : list nat) : T :=
  match C with [] => n0 o | _ => sigma kap C C /! F (length C) end.

(* samples of cluster k: the leaves j with Y[k, j] = 1, each leaf being the samples i with Z[j, i] = 1 *)
Fixpoint members (cls : list nat) (lvs : list (list nat)) (k : nat) : list nat :=
  match cls, lvs with
  | c :: cs, l :: ls => (if c =? k then l else []) ++ members cs ls k
  | _, _ => []
  end.

(* gemini_objective(labels, kernel) = sum_k sigma(C_k, C_k) / |C_k| ; Y has K_max rows *)
Definition obj_upto (kap : nat -> nat -> T) (cls : list nat) (lvs : list (list nat)) (K : nat) : T :=
  lsum o (map (fun k => term kap (members cls lvs k)) (seq 0 K)).

(* the arguments of find_best_split: kernel, X, leaves_to_explore, Y, Z, n_clusters, K_max, n_leaves,
   min_leaf, feature_subset.  Z is kept as the list of leaves (ascending sample indices, np.nonzero(Z[j])),
   Y as the leaf -> cluster map (np.argmax(Y[:, j])). *)
Record kstate : Type := {
  ks_kernel : nat -> nat -> T;
  ks_X : nat -> nat -> T;
  ks_leaves : list (list nat);
  ks_cl : list nat;
  ks_nc : nat;
  ks_kmax : nat;
  ks_minleaf : nat;
  ks_explore : list nat;
  ks_feats : list nat
}.

(* a candidate = Split(leaf, feature, threshold, left_target, right_target) *)
Record cand : Type := { c_leaf : nat; c_feat : nat; c_thr : T; c_left : nat; c_right : nat }.

Definition objective (st : kstate) : T :=
  obj_upto (ks_kernel st) (ks_cl st) (ks_leaves st) (ks_kmax st).

(* kauri.py: left_indices = leaf_indices[X[leaf_indices, feature] <= threshold]; right = the others *)
Definition left_part (st : kstate) (j f : nat) (t : T) : list nat :=
  filter (fun i => nleb o (ks_X st i f) t) (nth j (ks_leaves st) []).
Definition right_part (st : kstate) (j f : nat) (t : T) : list nat :=
  filter (fun i => negb (nleb o (ks_X st i f) t)) (nth j (ks_leaves st) []).

(* kauri.py, "Update our knowledge given the split": Z[leaf, right] = 0; Z[n_leaves, right] = 1;
   Y[k, leaf] = 0; Y[left_target, leaf] = 1; Y[right_target, n_leaves] = 1; n_clusters += 2 / 1 / 0.
   (ks_explore of the next state is the business of the fit loop, property C09; it is left unchanged here.) *)
Definition apply_split (st : kstate) (c : cand) : kstate :=
  let j := c_leaf c in
  let L := left_part st j (c_feat c) (c_thr c) in
  let R := right_part st j (c_feat c) (c_thr c) in
  let nc := ks_nc st in
  {| ks_kernel := ks_kernel st; ks_X := ks_X st;
     ks_leaves := set_nth j L (ks_leaves st) ++ [R];
     ks_cl := set_nth j (c_left c) (ks_cl st) ++ [c_right c];
     ks_nc := if (nc <=? c_left c) && (nc <=? c_right c) then S (S nc)
              else if (nc <=? c_left c) || (nc <=? c_right c) then S nc else nc;
     ks_kmax := ks_kmax st; ks_minleaf := ks_minleaf st; ks_explore := ks_explore st; ks_feats := ks_feats st |}.

(* the real increase of the objective obtained by applying the candidate *)
Definition gain (st : kstate) (c : cand) : T := objective (apply_split st c) -! objective st.

Definition csize (st : kstate) (k : nat) : nat := length (members (ks_cl st) (ks_leaves st) k).

(* both children keep at least min_samples_leaf samples (and at least one) *)
Definition split_ok (st : kstate) (j f : nat) (t : T) : bool :=
  (Nat.max 1 (ks_minleaf st) <=? length (left_part st j f t)) &&
  (Nat.max 1 (ks_minleaf st) <=? length (right_part st j f t)).

(* admissible (left_target, right_target) pairs for leaf j whose cluster is k:
   star (a new cluster for one side), double star (two new clusters; the old cluster must keep something),
   switch (one side joins another existing cluster), reallocation (both sides join two distinct other
   clusters; the old cluster must keep something) *)
Definition target_pairs (st : kstate) (j : nat) : list (nat * nat) :=
  let k := nth j (ks_cl st) 0 in
  let nc := ks_nc st in
  let nl := length (nth j (ks_leaves st) []) in
  let others := negb (nl =? csize st k) in
  (if nc <? ks_kmax st then [(nc, k); (k, nc)] else []) ++
  (if (S nc <? ks_kmax st) && others then [(nc, S nc)] else []) ++
  (if 2 <=? nc then flat_map (fun k' => if k' =? k then [] else [(k', k); (k, k')]) (seq 0 nc) else []) ++
  (if (3 <=? nc) && others
   then flat_map (fun a => flat_map (fun b => if (a =? k) || (b =? k) || (a =? b) then [] else [(a, b)])
                                    (seq 0 nc)) (seq 0 nc)
   else []).

(* every data value of the leaf is a possible threshold (X <= t goes left); values that leave a side
   too small are rejected by split_ok; equal values give the same candidate twice, which is harmless *)
Definition candidates (st : kstate) : list cand :=
  flat_map (fun j =>
    flat_map (fun f =>
      flat_map (fun i =>
        let t := ks_X st i f in
        if split_ok st j f t
        then map (fun ab => {| c_leaf := j; c_feat := f; c_thr := t; c_left := fst ab; c_right := snd ab |})
                 (target_pairs st j)
        else [])
        (nth j (ks_leaves st) []))
      (ks_feats st))
    (ks_explore st).

(* arg-max by brute force: keeps the first maximiser *)
Definition argmax_step {A : Type} (f : A -> T) (acc : T * A) (x : A) : T * A :=
  let gx := f x in if nltb o (fst acc) gx then (gx, x) else acc.
Definition argmax_from {A : Type} (f : A -> T) (first : A) (rest : list A) : T * A :=
  fold_left (argmax_step f) rest (f first, first).

Definition null_cand : cand := {| c_leaf := 0; c_feat := 0; c_thr := n0 o; c_left := 0; c_right := 0 |}.
Definition best_spec_pair (st : kstate) : T * cand :=
  match candidates st with
  | [] => (n0 o, null_cand)
  | c :: r => argmax_from (gain st) c r
  end.
Definition best_spec (st : kstate) : cand := snd (best_spec_pair st).

(* a fit history: candidates applied one after the other, and the true gains met on the way *)
Fixpoint run_splits (st : kstate) (cs : list cand) : kstate :=
  match cs with [] => st | c :: r => run_splits (apply_split st c) r end.
Fixpoint gains_along (st : kstate) (cs : list cand) : list T :=
  match cs with [] => [] | c :: r => gain st c :: gains_along (apply_split st c) r end.

(* ------------------------------------------------------------------ as-is side *)

(* Split object: gain plus (leaf, feature, threshold, left_target, right_target); the initial
   Split(0, -1, -1, -1, -1, 0, False) is {gain 0; nothing set} *)
Record split : Type := { sp_gain : T; sp_cand : option cand }.
Definition split0 : split := {| sp_gain := n0 o; sp_cand := None |}.
Definition set_split (g : T) (leaf feat : nat) (thr : T) (a b : nat) : split :=
  {| sp_gain := g; sp_cand := Some {| c_leaf := leaf; c_feat := feat; c_thr := thr; c_left := a; c_right := b |} |}.

(* -np.inf is None *)
Definition ge_opt (x : T) (y : option T) : bool := match y with None => true | Some v => nleb o v x end.
Definition gt_opt (x y : option T) : bool :=
  match x, y with None, _ => false | Some _, None => true | Some a, Some b => nltb o b a end.
Definition add_opt (x y : option T) : option T :=
  match x, y with Some a, Some b => Some (a +! b) | _, _ => None end.
Definition eq_optnat (x y : option nat) : bool :=
  match x, y with None, None => true | Some a, Some b => a =? b | _, _ => false end.

(* top_gain_x, top_k_x, second_gain_x, second_k_x *)
Record track : Type := { top_g : option T; top_k : option nat; sec_g : option T; sec_k : option nat }.
Definition track0 : track := {| top_g := None; top_k := None; sec_g := None; sec_k := None |}.

(* if g >= top: top, second = g, top   elif t >= second: second = g      (t is the value tested by the elif) *)
Definition upd_track (tr : track) (g t : T) (k' : nat) : track :=
  if ge_opt g (top_g tr)
  then {| top_g := Some g; top_k := Some k'; sec_g := top_g tr; sec_k := top_k tr |}
  else if ge_opt t (sec_g tr)
       then {| top_g := top_g tr; top_k := top_k tr; sec_g := Some g; sec_k := Some k' |}
       else tr.

(* the two switch formulas of the loop body, as written *)
Definition left_switch_f (sl_square gkk gpp slc_k slc_p : T) (cs_k cs_p left_size : nat) : T :=
  let dk := cs_k - left_size in
  let dp := cs_p + left_size in
  let s := sl_square *! (one /! F dp +! one /! F dk) in
  let s := s +! gkk *! (one /! F dk -! one /! F cs_k) in
  let s := s -! two *! slc_k /! F dk in
  let s := s +! gpp *! (one /! F dp -! one /! F cs_p) in
  s +! two *! slc_p /! F dp.

(* left_star / right_star, as written (x_square, sigma(x, C_k), size of x) *)
Definition star_f (x_square gkk xc_k : T) (cs_k x_size : nat) : T :=
  let d := cs_k - x_size in
  let s := x_square *! (one /! F x_size +! one /! F d) +! gkk *! (one /! F d -! one /! F cs_k) in
  s -! two *! xc_k /! F d.

(* the double-star gain; fix7 = false is the text of the .pyx *)
Definition double_star_f (fix7 : bool) (sl_square sr_square leaf_square gkk slc_k src_k omega_k_feat : T)
           (cs_k n_leaf split_size : nat) : T :=
  let d := cs_k - n_leaf in
  let leaf_star := leaf_square *! (one /! F n_leaf +! one /! F d) +! gkk *! (one /! F d -! one /! F cs_k) in
  let leaf_star := leaf_star -! two *! (if fix7 then slc_k +! src_k else omega_k_feat) /! F d in
  let d2 := n_leaf - split_size in
  let split_star := sl_square *! (one /! F split_size +! one /! F d2) +! leaf_square *! (one /! F d2 -! one /! F n_leaf) in
  let sl_sr := (leaf_square -! sl_square -! sr_square) /! two in
  let split_star := split_star -! (if fix7 then two *! (sl_square +! sl_sr) else sl_square +! sl_sr) /! F d2 in
  split_star +! leaf_star.

Definition corrective_f (sl_square sr_square leaf_square gkk slc_k src_k : T) (cs_k n_leaf split_size : nat) : T :=
  let leaf_cluster := slc_k +! src_k in
  let c := (gkk +! leaf_square -! two *! leaf_cluster) /! F (cs_k - n_leaf) in
  let c := c +! gkk /! F cs_k in
  let c := c -! (gkk +! sl_square -! two *! slc_k) /! F (cs_k - split_size) in
  c -! (gkk +! sr_square -! two *! src_k) /! F (cs_k - n_leaf + split_size).

(* the `if` tests of compute_all_splits, named so that Proofs/KauriGain.v can tie each of them to the test
   regenerated from the .pyx (Gen/KauriFormulas.v) *)
Definition g_double_star (nc kmax n_leaf cs_k : nat) : bool := (nc <? kmax - 1) && negb (n_leaf =? cs_k).
Definition g_star (nc kmax : nat) : bool := nc <? kmax.
Definition g_switch (nc : nat) : bool := 2 <=? nc.
Definition g_realloc (nc n_leaf cs_k : nat) : bool := (3 <=? nc) && negb (n_leaf =? cs_k).
(* x > best_split.gain ; x >= best_split.gain ; a > b *)
Definition t_gt (x y : T) : bool := nltb o y x.
Definition t_ge (x y : T) : bool := nleb o y x.

(* "Choose the best pair of top switches": (refurbish, k_left, k_right) *)
Definition pair_select (tl tr : track) : option T * option nat * option nat :=
  if negb (eq_optnat (top_k tl) (top_k tr))
  then (add_opt (top_g tl) (top_g tr), top_k tl, top_k tr)
  else if gt_opt (add_opt (top_g tl) (sec_g tr)) (add_opt (top_g tr) (sec_g tl))
       then (add_opt (top_g tl) (sec_g tr), top_k tl, sec_k tr)
       else (add_opt (top_g tr) (sec_g tl), sec_k tl, top_k tr).

(* one iteration of `for k_prime in range(n_clusters)` : (best, left track, right track) *)
Definition switch_step (fix8 : bool) (sl_square sr_square : T) (slc src : nat -> T) (cs : nat -> nat)
           (gamma : nat -> nat -> T) (n_leaf k leaf_id split_size feat : nat) (thr : T)
           (acc : split * track * track) (k' : nat) : split * track * track :=
  let '(best, tl, tr) := acc in
  if k =? k' then acc else
  let left_switch := left_switch_f sl_square (gamma k k) (gamma k' k') (slc k) (slc k') (cs k) (cs k') split_size in
  let right_switch := left_switch_f sr_square (gamma k k) (gamma k' k') (src k) (src k') (cs k) (cs k') (n_leaf - split_size) in
  let tl' := upd_track tl left_switch left_switch k' in
  let tr' := upd_track tr right_switch (if fix8 then right_switch else left_switch) k' in
  let best' :=
    if t_ge left_switch (sp_gain best) || t_ge right_switch (sp_gain best)
    then if t_gt left_switch right_switch
         then set_split left_switch leaf_id feat thr k' k
         else set_split right_switch leaf_id feat thr k k'
    else best in
  (best', tl', tr').

(* _utils.pyx::compute_all_splits *)
Definition compute_all_splits (fix7 fix8 : bool) (best : split) (sl_square sr_square leaf_square : T)
           (slc src : nat -> T) (cs : nat -> nat) (gamma omega : nat -> nat -> T)
           (n_leaf nc kmax k leaf_id split_size feat : nat) (thr : T) : split :=
  (* double star *)
  let best :=
    if g_double_star nc kmax n_leaf (cs k) then
      let g := double_star_f fix7 sl_square sr_square leaf_square (gamma k k) (slc k) (src k) (omega k feat)
                             (cs k) n_leaf split_size in
      if t_gt g (sp_gain best) then set_split g leaf_id feat thr nc (S nc) else best
    else best in
  (* single star *)
  let best :=
    if g_star nc kmax then
      let left_star := star_f sl_square (gamma k k) (slc k) (cs k) split_size in
      let right_star := star_f sr_square (gamma k k) (src k) (cs k) (n_leaf - split_size) in
      if t_gt left_star (sp_gain best) || t_gt right_star (sp_gain best)
      then if t_gt left_star right_star
           then set_split left_star leaf_id feat thr nc k
           else set_split right_star leaf_id feat thr k nc
      else best
    else best in
  (* switch and reallocation *)
  if g_switch nc then
    let '(best, tl, tr) :=
      fold_left (switch_step fix8 sl_square sr_square slc src cs gamma n_leaf k leaf_id split_size feat thr)
                (seq 0 nc) (best, track0, track0) in
    if g_realloc nc n_leaf (cs k) then
      let corr := corrective_f sl_square sr_square leaf_square (gamma k k) (slc k) (src k) (cs k) n_leaf split_size in
      match pair_select tl tr with
      | (Some r, Some a, Some b) =>
          if t_gt (r +! corr) (sp_gain best) then set_split (r +! corr) leaf_id feat thr a b else best
      | _ => best
      end
    else best
  else best.

(* np.argsort(subset_X): insertion sort, stable (numpy uses insertion sort below 16 elements) *)
Fixpoint insert_by (key : nat -> T) (x : nat) (l : list nat) : list nat :=
  match l with
  | [] => [x]
  | y :: r => if nleb o (key x) (key y) then x :: y :: r else y :: insert_by key x r
  end.
Definition sort_by (key : nat -> T) (l : list nat) : list nat := fold_right (insert_by key) [] l.

Definition vadd (a b : list T) : list T := map (fun p => fst p +! snd p) (combine a b).
Definition vsub (a b : list T) : list T := map (fun p => fst p -! snd p) (combine a b).
Definition vget (a : list T) (k : nat) : T := nth k a (n0 o).

(* Lambda = Z @ kernel ; omega = Y @ Lambda ; gamma = omega @ Z.T @ Y.T ; cluster_sizes = Y @ Z.sum(1) *)
Definition Lambda_of (st : kstate) (j i : nat) : T :=
  lsum o (map (fun i' => ks_kernel st i' i) (nth j (ks_leaves st) [])).
Definition omega_of (st : kstate) (c i : nat) : T :=
  lsum o (map (fun i' => ks_kernel st i' i) (members (ks_cl st) (ks_leaves st) c)).
Definition gamma_of (st : kstate) (c c' : nat) : T :=
  lsum o (map (fun i => omega_of st c i) (members (ks_cl st) (ks_leaves st) c')).

(* `for l_split in range(n_leaf - 1)`: pre = nu[:l_split], x = nu[l_split], rest' = nu[l_split+1:].
   The loop maintains sl_square, sr_square, sl_clusters, sr_clusters incrementally and hands them to [visit]
   (the min_leaf / equal-value tests followed by compute_all_splits, see [scan_visit]). *)
Fixpoint scan_gen {B : Type} (kap omega : nat -> nat -> T) (nc : nat)
         (visit : B -> list nat -> nat -> list nat -> T -> T -> list T -> list T -> B)
         (pre rest : list nat) (sl_square sr_square : T) (slc src : list T) (acc : B) : B :=
  match rest with
  | x :: ((_ :: _) as rest') =>
      let alpha := lsum o (map (fun z => kap x z) pre) in
      let beta := lsum o (map (fun z => kap x z) rest') in
      let sl_square := sl_square +! (two *! alpha +! kap x x) in
      let sr_square := sr_square -! (two *! beta +! kap x x) in
      let col := map (fun a => omega a x) (seq 0 nc) in
      let slc := vadd slc col in
      let src := vsub src col in
      let acc := visit acc pre x rest' sl_square sr_square slc src in
      scan_gen kap omega nc visit (pre ++ [x]) rest' sl_square sr_square slc src acc
  | _ => acc
  end.

(* what happens at one split position once the stocks are known *)
Definition scan_visit (fix7 fix8 : bool) (st : kstate) (gamma omega : nat -> nat -> T) (j k f n_leaf : nat)
           (leaf_square : T) (best : split) (pre : list nat) (x : nat) (rest' : list nat)
           (sl_square sr_square : T) (slc src : list T) : split :=
  let l_split := length pre in
  let y := hd 0 rest' in
  if (S l_split <? ks_minleaf st) || (n_leaf <? l_split + ks_minleaf st + 1) then best
  else if neqb o (ks_X st x f) (ks_X st y f) then best
  else compute_all_splits fix7 fix8 best sl_square sr_square leaf_square (vget slc) (vget src)
                          (csize st) gamma omega n_leaf (ks_nc st) (ks_kmax st) k j (S l_split) f (ks_X st x f).

(* _utils.pyx::find_best_split *)
Definition find_best (fix7 fix8 : bool) (st : kstate) : split :=
  let gamma := gamma_of st in
  let omega := omega_of st in
  fold_left (fun best j =>
    let leaf := nth j (ks_leaves st) [] in
    let k := nth j (ks_cl st) 0 in
    let n_leaf := length leaf in
    fold_left (fun best f =>
      let nu := sort_by (fun i => ks_X st i f) leaf in
      let leaf_square := lsum o (map (fun i => Lambda_of st j i) leaf) in
      let src0 := map (fun c => lsum o (map (fun i => omega c i) leaf)) (seq 0 (ks_nc st)) in
      let slc0 := map (fun _ => n0 o) (seq 0 (ks_nc st)) in
      scan_gen (ks_kernel st) omega (ks_nc st) (scan_visit fix7 fix8 st gamma omega j k f n_leaf leaf_square)
               [] nu (n0 o) leaf_square slc0 src0 best)
      (ks_feats st) best)
    (ks_explore st) split0.

Definition find_best_asis (st : kstate) : split := find_best false false st.
Definition find_best_fixed (st : kstate) : split := find_best true true st.

(* kauri.py::Kauri.fit, the greedy loop seen from the split search:
     while last_gain > 0 and n_leaves < max_leaves and len(leaves_to_explore) != 0:
         best_split = find_best_split(...); last_gain = best_split.gain
         if last_gain > 0: <apply the split, update the leaves to explore, draw the next feature subset>
   [next st c] is the state of the following iteration (apply_split plus the structural bookkeeping of property
   C09: which leaves stay explorable, which features are drawn); the loop is only about WHY it stops. *)
Inductive stop_reason : Type := StopNoGain | StopMaxLeaves | StopNoLeaf | OutOfFuel.
Fixpoint fit_loop (fix7 fix8 : bool) (fuel max_leaves : nat) (next : kstate -> cand -> kstate) (st : kstate)
  : kstate * stop_reason :=
  match fuel with
  | O => (st, OutOfFuel)
  | S fu =>
      if negb (length (ks_leaves st) <? max_leaves) then (st, StopMaxLeaves)
      else match ks_explore st with
           | [] => (st, StopNoLeaf)
           | _ :: _ =>
               let r := find_best fix7 fix8 st in
               if nltb o (n0 o) (sp_gain r)
               then match sp_cand r with
                    | Some c => fit_loop fix7 fix8 fu max_leaves next (next st c)
                    | None => (st, StopNoGain)
                    end
               else (st, StopNoGain)
           end
  end.

End KauriGain.
(* EXTRACT: kstate cand split sigma term members objective apply_split gain csize candidates best_spec_pair best_spec find_best find_best_asis find_best_fixed compute_all_splits pair_select upd_track run_splits gains_along left_part right_part target_pairs *)
