(* C10 — model of DiscriminativeModel._batchify, the categorical override, the mlcl decoration of
   _batchify and the sequential blocks of sparse._base_sparse.compute_val_score.
   Source: gemclus/_base_gemini.py::_batchify, nonparametric/_categorical_models.py::_batchify,
   mlcl.py::decorate_batch, sparse/_base_sparse.py::compute_val_score.  No proofs in this file. *)
From Coq Require Import List Arith.
Import ListNotations.

(* while j < len(X): idx = all_indices[j:j+bs]; ...; j += bs   (bs >= 1 by parameter validation) *)
Fixpoint chunks_fuel (fuel bs : nat) (l : list nat) : list (list nat) :=
  match fuel with
  | O => []
  | S f => match l with [] => [] | _ => firstn bs l :: chunks_fuel f bs (skipn bs l) end
  end.
Definition batches (bs : nat) (perm : list nat) : list (list nat) := chunks_fuel (length perm) bs perm.

(* batch_size = len(X) if self.batch_size is None else self.batch_size *)
Definition eff_bs (n : nat) (bs : option nat) : nat := match bs with None => n | Some b => b end.

(* affinity_matrix[batch_indices][:, batch_indices] *)
Definition block {T} (A : nat -> nat -> T) (idx : list nat) : nat -> nat -> T :=
  fun a b => A (nth a idx 0) (nth b idx 0).
(* X[batch_indices] : rows of the batch *)
Definition rows {T} (X : nat -> T) (idx : list nat) : list T := map X idx.

(* one epoch of a (plain) batched model: the list of (row indices, affinity block index list) *)
Definition epoch (n : nat) (bs : option nat) (perm : list nat) : list (list nat) :=
  batches (eff_bs n bs) perm.

(* CategoricalModel._batchify: yield X, affinity_matrix  (always the full data, identity order) *)
Definition cat_epoch (n : nat) : list (list nat) := [seq 0 n].

(* mlcl.decorate_batch: func is called on indices = arange(n); subset = indices[batch_indices];
   records subset as the true indices and yields X[subset] with the untouched affinity block *)
Definition decorated_epoch (n : nat) (bs : option nat) (perm : list nat) : list (list nat * list nat) :=
  map (fun b => let subset := map (fun i => nth i (seq 0 n) 0) b in (subset, b)) (epoch n bs perm).

(* compute_val_score: X[j:j+bs], y[j:j+bs][:, j:j+bs] for j = 0, bs, 2bs, ... *)
Definition val_blocks (n bs : nat) : list (list nat) := batches bs (seq 0 n).

(* fit: for i in range(max_iter): for batch in _batchify(...): one optimiser step *)
Definition fit_steps (max_iter n : nat) (bs : option nat) (perms : nat -> list nat) : nat :=
  list_sum (map (fun e => length (epoch n bs (perms e))) (seq 0 max_iter)).
(* EXTRACT: batches epoch decorated_epoch val_blocks cat_epoch eff_bs *)
