(* C10 — model of DiscriminativeModel._batchify, the categorical override, the mlcl decoration of
   _batchify, the sequential blocks / weighting of sparse._base_sparse.compute_val_score and the loop
   structure of DiscriminativeModel.fit and of the training loop of sparse._base_sparse._run_path.
   Source: gemclus/_base_gemini.py::_batchify/fit, nonparametric/_categorical_models.py::_batchify,
   mlcl.py::decorate_batch, sparse/_base_sparse.py::compute_val_score/_run_path.

   Two layers.
   (1) REFERENCE model (specification level): a consuming-list chunking [batches]; the theorems of
       Proofs/Batch.v are proved about it and the driver commands c10.batches/epoch/... run it.
   (2) CODE model: follows the index arithmetic of the source (start index j, slice [lo, hi) with Python's
       clipping, the step, the loop guard, the None default, which index array selects rows / affinity rows /
       affinity columns, which arrays a training step reads, the weighting of the validation score).  Every
       such scalar decision is a field of a rules record whose value Gen/BatchRules.v is REGENERATED from the
       Python AST by translator/tr_batch.py.  Proofs/BatchGen.v proves that under the regenerated rules the
       code model returns exactly the reference model's batches.
   Loops of the code model take fuel and return None when it runs out (the theorems exclude it).
   No proofs in this file. *)
From Coq Require Import List Arith ZArith Bool.
Import ListNotations.

(* ====================================================================================== *)
(* (1) reference model                                                                     *)
(* ====================================================================================== *)

(* while j < len(X): idx = all_indices[j:j+bs]; ...; j += bs   (bs >= 1 by parameter validation) *)
Fixpoint chunks_fuel (fuel bs : nat) (l : list nat) : list (list nat) :=
  match fuel with
  | O => []
  | S f => match l with [] => [] | _ => firstn bs l :: chunks_fuel f bs (skipn bs l) end
  end.
Definition batches (bs : nat) (perm : list nat) : list (list nat) := chunks_fuel (length perm) bs perm.

(* batch_size = len(X) if self.batch_size is None else self.batch_size *)
Definition eff_bs (n : nat) (bs : option nat) : nat := match bs with None => n | Some b => b end.

(* affinity_matrix[batch_indices][:, batch_indices] *)
Definition block {T} (A : nat -> nat -> T) (idx : list nat) : nat -> nat -> T :=
  fun a b => A (nth a idx 0) (nth b idx 0).
(* X[batch_indices] : rows of the batch *)
Definition rows {T} (X : nat -> T) (idx : list nat) : list T := map X idx.

(* one epoch of a (plain) batched model: the list of (row indices, affinity block index list) *)
Definition epoch (n : nat) (bs : option nat) (perm : list nat) : list (list nat) :=
  batches (eff_bs n bs) perm.

(* CategoricalModel._batchify: yield X, affinity_matrix  (always the full data, identity order) *)
Definition cat_epoch (n : nat) : list (list nat) := [seq 0 n].

(* mlcl.decorate_batch: func is called on indices = arange(n); subset = indices[batch_indices];
   records subset as the true indices and yields X[subset] with the untouched affinity block *)
Definition decorated_epoch (n : nat) (bs : option nat) (perm : list nat) : list (list nat * list nat) :=
  map (fun b => let subset := map (fun i => nth i (seq 0 n) 0) b in (subset, b)) (epoch n bs perm).

(* compute_val_score: X[j:j+bs], y[j:j+bs][:, j:j+bs] for j = 0, bs, 2bs, ... *)
Definition val_blocks (n bs : nat) : list (list nat) := batches bs (seq 0 n).

(* fit: for i in range(max_iter): for batch in _batchify(...): one optimiser step *)
Definition fit_steps (max_iter n : nat) (bs : option nat) (perms : nat -> list nat) : nat :=
  list_sum (map (fun e => length (epoch n bs (perms e))) (seq 0 max_iter)).

(* ====================================================================================== *)
(* (2) code model                                                                          *)
(* ====================================================================================== *)

(* ---- Python / numpy primitives the rules are written with ---- *)
(* l[lo:hi] for Python ints lo, hi (step 1): a negative bound counts from the end, then both are clipped
   to [0, len]; an empty or reversed range gives [] *)
Definition py_clip (len i : Z) : Z := if (i <? 0)%Z then Z.max 0 (i + len) else Z.min i len.
Definition py_slice {A} (lo hi : Z) (l : list A) : list A :=
  let len := Z.of_nat (length l) in
  let a := py_clip len lo in
  let b := py_clip len hi in
  firstn (Z.to_nat (b - a)) (skipn (Z.to_nat a) l).
(* np.sort of an index array (insertion sort: only the result matters) *)
Fixpoint insert_sorted (x : nat) (l : list nat) : list nat :=
  match l with [] => [x] | y :: r => if x <=? y then x :: l else y :: insert_sorted x r end.
Definition isort (l : list nat) : list nat := fold_right insert_sorted [] l.
(* M[rows][:, cols] *)
Definition block2 {T} (A : nat -> nat -> T) (ri ci : list nat) : nat -> nat -> T :=
  fun a b => A (nth a ri 0) (nth b ci 0).

(* while <guard j n>: yield j; j = <step j bs>    -> the successive values of j *)
Fixpoint j_loop (guard : Z -> Z -> bool) (step : Z -> Z -> Z) (fuel : nat) (n bs j : Z) : option (list Z) :=
  match fuel with
  | O => None
  | S f => if guard j n then option_map (cons j) (j_loop guard step f n bs (step j bs)) else Some []
  end.

(* ---- DiscriminativeModel._batchify ---- *)
Record BatchRules := {
  (* all_indices = random_state.permutation(<e>)                          argument: len(X) *)
  r_perm_len : Z -> Z;
  (* batch_size = len(X) if self.batch_size is None else self.batch_size   arguments: len(X), self.batch_size *)
  r_bs : Z -> option Z -> Z;
  (* j = <e> *)
  r_start : Z;
  (* while <test>:                                                         arguments: j, len(X) *)
  r_guard : Z -> Z -> bool;
  (* batch_indices = all_indices[<lo>:<hi>]                                arguments: j, batch_size *)
  r_lo : Z -> Z -> Z;
  r_hi : Z -> Z -> Z;
  (* X_batch = X[<idx>]                                                    argument: batch_indices *)
  r_rows : list nat -> list nat;
  (* affinity_batch = affinity_matrix[<idx>][:, <idx>]                     argument: batch_indices *)
  r_aff_rows : list nat -> list nat;
  r_aff_cols : list nat -> list nat;
  (* j = <e>  at the end of the loop body                                  arguments: j, batch_size *)
  r_step : Z -> Z -> Z
}.

(* what one `yield X_batch, affinity_batch` delivers, as index lists into the full data:
   (rows of X, (rows of the affinity, columns of the affinity)).  With affinity_matrix = None the second
   component is None in the code (a literal branch of the skeleton); the index lists then describe nothing. *)
Definition Yield := (list nat * (list nat * list nat))%type.

(* ---- mlcl.decorate_batch: the holes ---- *)
Record DecoRules := {
  (* indices = np.arange(<e>)                                              argument: len(X) *)
  d_arange : Z -> Z;
  (* disguise_batch.indices = <idx>.tolist()                               argument: subset *)
  d_recorded : list nat -> list nat;
  (* yield X[<idx>], affinity_batch                                        argument: subset *)
  d_rows : list nat -> list nat
}.

(* ---- the training loop of fit / _run_path: the holes ---- *)
(* which array a call reads: the batch's (X_batch / affinity_batch) or the full one (X / affinity) *)
Inductive Src := SrcBatch | SrcAll.
Record StepRules := {
  (* y_pred = self._infer(<X_batch>) *)
  s_infer_x : Src;
  (* _, grads = gemini(y_pred, <affinity_batch>, return_grad=True) *)
  s_gemini_aff : Src;
  (* grads = self._compute_grads(<X_batch>, y_pred, grads) *)
  s_grads_x : Src
}.
(* how the epoch loop consumes the generator: `for .. in self._batchify(..)` advances it one batch per step (lazy);
   `batches = list(self._batchify(..)); for .. in batches` exhausts it before the first step (eager) *)
Inductive Iter := IterLazy | IterEager.
Record FitRules := {
  (* for i in range(<e>):                                                  argument: self.max_iter *)
  f_epochs : Z -> Z;
  (* for X_batch, affinity_batch in <self._batchify(..) | list(self._batchify(..))> *)
  f_iter : Iter;
  (* self.n_iter_ = <e>                                                    argument: self.max_iter *)
  f_n_iter : Z -> Z;
  f_step : StepRules
}.

Section Code.
Context (B : BatchRules).

(* the batches of index arrays `batch_indices`, in loop order.  P is numpy's permutation oracle:
   P m = random_state.permutation(m) *)
Definition code_index_batches (n : nat) (bs : option nat) (P : Z -> list nat) : option (list (list nat)) :=
  let nz := Z.of_nat n in
  let all_indices := P (r_perm_len B nz) in
  let batch_size := r_bs B nz (option_map Z.of_nat bs) in
  option_map (map (fun j => py_slice (r_lo B j batch_size) (r_hi B j batch_size) all_indices))
             (j_loop (r_guard B) (r_step B) (S n) nz batch_size (r_start B)).

Definition yield_of (b : list nat) : Yield := (r_rows B b, (r_aff_rows B b, r_aff_cols B b)).

(* one call of _batchify(X, affinity_matrix, random_state) with len(X) = n *)
Definition code_batchify (n : nat) (bs : option nat) (P : Z -> list nat) : option (list Yield) :=
  option_map (map yield_of) (code_index_batches n bs P).

(* ---- mlcl.decorate_batch ---- *)
Context (D : DecoRules).
(* func(indices, affinity_matrix, random_state): the undecorated _batchify receives `indices` as its X, so
   its len(X) is len(indices) and its X_batch is indices[...] (nth's default 0 stands for numpy's IndexError;
   under the regenerated rules every index is in range).  Result per batch:
   (recorded true indices, (rows of X yielded, affinity block rows/columns)) *)
Definition code_decorated (n : nat) (bs : option nat) (P : Z -> list nat)
  : option (list (list nat * (list nat * (list nat * list nat)))) :=
  let indices := seq 0 (Z.to_nat (d_arange D (Z.of_nat n))) in
  option_map (map (fun y : Yield =>
                     let subset := map (fun i => nth i indices 0) (fst y) in
                     (d_recorded D subset, (d_rows D subset, snd y))))
             (code_batchify (length indices) bs P).

(* the decoration records each batch's true indices on `_batchify.indices` WHEN THE GENERATOR YIELDS IT; the decorated
   _compute_grads reads that attribute.  What it holds while step k of an epoch runs: the record of batch k if the
   generator is advanced lazily, the record of the LAST batch if it was exhausted up front.
   Result per step: (indices visible to _compute_grads, rows of the X_batch of that step) *)
Definition visible_indices (it : Iter) (recs : list (list nat)) (k : nat) : list nat :=
  match it with IterLazy => nth k recs [] | IterEager => last recs [] end.
Definition code_decorated_visible (F : FitRules) (n : nat) (bs : option nat) (P : Z -> list nat)
  : option (list (list nat * list nat)) :=
  option_map (fun Y => map (fun k => (visible_indices (f_iter F) (map fst Y) k,
                                      fst (snd (nth k Y ([], ([], ([], [])))))))
                           (seq 0 (length Y)))
             (code_decorated n bs P).

(* ---- the training loop of fit / _run_path ---- *)
(* (rows _infer sees, ((rows, columns) of the affinity the GEMINI sees, rows _compute_grads sees)) *)
Definition Reads := (list nat * ((list nat * list nat) * list nat))%type.
Definition src_rows (s : Src) (n : nat) (y : Yield) : list nat :=
  match s with SrcBatch => fst y | SrcAll => seq 0 n end.
Definition src_aff (s : Src) (n : nat) (y : Yield) : list nat * list nat :=
  match s with SrcBatch => snd y | SrcAll => (seq 0 n, seq 0 n) end.
Definition step_reads (S : StepRules) (n : nat) (y : Yield) : Reads :=
  (src_rows (s_infer_x S) n y, (src_aff (s_gemini_aff S) n y, src_rows (s_grads_x S) n y)).

Fixpoint code_epochs (E : nat -> option (list Yield)) (epochs : list nat) : option (list Yield) :=
  match epochs with
  | [] => Some []
  | e :: r => match E e, code_epochs E r with Some y, Some z => Some (y ++ z) | _, _ => None end
  end.
(* range(k) for a Python int k: empty when k <= 0 *)
Definition py_range (k : Z) : list nat := seq 0 (Z.to_nat k).

(* fit: the sequence of optimiser steps, each with what it reads.  P e = the permutation oracle of epoch e *)
Definition code_fit_trace (F : FitRules) (max_iter n : nat) (bs : option nat) (P : nat -> Z -> list nat)
  : option (list Reads) :=
  option_map (map (step_reads (f_step F) n))
             (code_epochs (fun e => code_batchify n bs (P e)) (py_range (f_epochs F (Z.of_nat max_iter)))).
Definition code_n_iter (F : FitRules) (max_iter : Z) : Z := f_n_iter F max_iter.
(* one epoch of the inner training loop of _run_path *)
Definition code_path_epoch (S : StepRules) (n : nat) (bs : option nat) (P : Z -> list nat) : option (list Reads) :=
  option_map (map (step_reads S n)) (code_batchify n bs P).
End Code.

(* ---- sparse._base_sparse.compute_val_score ---- *)
Section Val.
Context {T : Type}.
Record ValRules := {
  (* validation_gemini = <e> *)
  v_init : T;
  (* j = <e> ; while <test>: ... ; j = <e>                  arguments as in BatchRules *)
  v_start : Z;
  v_guard : Z -> Z -> bool;
  v_step : Z -> Z -> Z;
  (* X_batch = X[<lo>:<hi>]                                 arguments: j, batch_size *)
  v_x_lo : Z -> Z -> Z;  v_x_hi : Z -> Z -> Z;
  (* affinity = y[<lo>:<hi>][:, <lo>:<hi>]                  arguments: j, batch_size *)
  v_yr_lo : Z -> Z -> Z; v_yr_hi : Z -> Z -> Z;
  v_yc_lo : Z -> Z -> Z; v_yc_hi : Z -> Z -> Z;
  (* validation_gemini = validation_gemini + gemini_objective(y_pred, affinity) * len(X_batch)
     arguments: validation_gemini, the score of the block, len(X_batch), len(X) *)
  v_acc : T -> T -> nat -> nat -> T;
  (* validation_gemini = validation_gemini / len(X)         arguments: validation_gemini, len(X) *)
  v_norm : T -> nat -> T;
  (* _run_path: batch_size = clf.batch_size if it is not None else len(X)   arguments: len(X), clf.batch_size *)
  v_path_bs : Z -> option Z -> Z
}.
Context (V : ValRules).

(* the blocks of one validation pass: (rows of X_batch, (rows, columns) of y) *)
Definition code_val_blocks (n : nat) (bs : Z) : option (list Yield) :=
  let all := seq 0 n in
  option_map (map (fun j => (py_slice (v_x_lo V j bs) (v_x_hi V j bs) all,
                             (py_slice (v_yr_lo V j bs) (v_yr_hi V j bs) all,
                              py_slice (v_yc_lo V j bs) (v_yc_hi V j bs) all))))
             (j_loop (v_guard V) (v_step V) (S n) (Z.of_nat n) bs (v_start V)).

(* g rows yrows ycols = gemini_objective(clf.predict_proba(X[rows]), affinity of the block): an oracle.
   (with y = None the affinity is computed from X_batch alone: g then ignores its last two arguments).
   len(X) = 0 makes the code raise ZeroDivisionError; the model's x/0 is whatever the number system says: the theorems
   require 1 <= n. *)
Definition code_val_score (n : nat) (bs : Z) (g : list nat -> list nat -> list nat -> T) : option T :=
  match code_val_blocks n bs with
  | None => None
  | Some blocks =>
      Some (v_norm V (fold_left (fun acc (y : Yield) =>
                                   v_acc V acc (g (fst y) (fst (snd y)) (snd (snd y))) (length (fst y)) n)
                                blocks (v_init V)) n)
  end.
(* the validation score as _run_path calls it: batch_size from clf.batch_size / len(X) *)
Definition code_path_val_score (n : nat) (bs : option nat) (g : list nat -> list nat -> list nat -> T) : option T :=
  code_val_score n (v_path_bs V (Z.of_nat n) (option_map Z.of_nat bs)) g.
End Val.
(* EXTRACT: batches epoch decorated_epoch val_blocks cat_epoch eff_bs code_index_batches code_batchify code_decorated code_decorated_visible code_fit_trace code_n_iter code_path_epoch code_val_blocks code_val_score code_path_val_score *)
