(* C15 — model of the Douglas soft-binning tree (gemclus/tree/douglas.py): `_leaf_binning`,
   `_merge_leaf`, `_infer`, the feature-mask handling of `_init_params`, `find_active_points`.
   Generic over the number system (NumOps T); one data row is a total function nat -> T, the
   parameter `cut_points_list_` is a list of (feature index, cut points).  No proofs in this file. *)
From Coq Require Import List Bool Arith.
From GV Require Import Common.Num Model.Forward.
Import ListNotations.

Section Douglas.
Context {T : Type} (o : NumOps T).

(* douglas.py::_leaf_binning   order = np.argsort(cut_points); sorted_cut_points = cut_points[order]
   (the values of a sort do not depend on how ties are broken; insertion sort, stable) *)
Fixpoint insert (x : T) (l : list T) : list T :=
  match l with
  | [] => [x]
  | h :: t => if nleb o x h then x :: h :: t else h :: insert x t
  end.
Fixpoint sort_cuts (l : list T) : list T :=
  match l with [] => [] | x :: r => insert x (sort_cuts r) end.

(* the permutation `order` itself (second return value of _leaf_binning, used by the backward pass):
   stable argsort = numpy's result for the small arrays concerned (insertion sort below 16 items) *)
Fixpoint insert_p (x : nat * T) (l : list (nat * T)) : list (nat * T) :=
  match l with
  | [] => [x]
  | h :: t => if nleb o (snd x) (snd h) then x :: h :: t else h :: insert_p x t
  end.
Fixpoint sort_pairs (l : list (nat * T)) : list (nat * T) :=
  match l with [] => [] | x :: r => insert_p x (sort_pairs r) end.
Definition argsort_pairs (cuts : list T) : list (nat * T) :=
  sort_pairs (combine (seq 0 (length cuts)) cuts).
Definition argsort (cuts : list T) : list nat := map fst (argsort_pairs cuts).

(* b = np.cumsum(np.concatenate([np.zeros(1), -sorted_cut_points])) : b_0 = 0, b_j = b_(j-1) + (-s_j) *)
Fixpoint cumbias (acc : T) (s : list T) : list T :=
  match s with
  | [] => [acc]
  | c :: r => acc :: cumbias (nadd o acc (nneg o c)) r
  end.
Definition bias (cuts : list T) : list T := cumbias (n0 o) (sort_cuts cuts).

(* W = linspace(1, n+1, n+1) = 1, 2, ..., n+1 ;  logits = X @ W + b  (X is the n x 1 column of one feature) *)
Fixpoint logits_from (j : nat) (x : T) (bs : list T) : list T :=
  match bs with
  | [] => []
  | b :: r => nadd o (nmul o x (nofnat o (S j))) b :: logits_from (S j) x r
  end.
Definition bin_logits (x : T) (cuts : list T) : list T := logits_from 0 x (bias cuts).

(* softmax(logits / self.temperature)  — sklearn.utils.extmath.softmax on one row (Forward.softmax_row) *)
Definition softmax_list (l : list T) : list T :=
  let K := length l in map (softmax_row o K (fun j => nth j l (n0 o))) (seq 0 K).
Definition bins (temp x : T) (cuts : list T) : list T :=
  softmax_list (map (fun l => ndiv o l temp) (bin_logits x cuts)).

(* douglas.py::_merge_leaf   einsum("ij,ik->ijk").reshape(n, -1): entry j*len(l2)+k is l1[j]*l2[k] *)
Definition merge (l1 l2 : list T) : list T :=
  flat_map (fun a => map (fun b => nmul o a b) l2) l1.

(* douglas.py::_infer   all_binnings = [binning(X[:, f], cuts) for (f, cuts) in cut_points_list_] *)
Definition all_bins (temp : T) (cpl : list (nat * list T)) (x : nat -> T) : list (list T) :=
  map (fun fc => bins temp (x (fst fc)) (snd fc)) cpl.
(* leaf = reduce(self._merge_leaf, all_binnings): left fold seeded with the first binning;
   reduce of an empty sequence raises TypeError (no used feature) -> None *)
Definition leaf_of_bins (bs : list (list T)) : option (list T) :=
  match bs with [] => None | b :: r => Some (fold_left merge r b) end.
Definition leaf (temp : T) (cpl : list (nat * list T)) (x : nat -> T) : option (list T) :=
  leaf_of_bins (all_bins temp cpl x).
(* y_pred = leaf @ self.leaf_scores_ ; return softmax(y_pred) *)
Definition leaf_logits (lf : list T) (S : nat -> nat -> T) (k : nat) : T :=
  bsum o (length lf) (fun l => nmul o (nth l lf (n0 o)) (S l k)).
Definition infer_row (temp : T) (cpl : list (nat * list T)) (K : nat) (S : nat -> nat -> T)
  (x : nat -> T) : option (nat -> T) :=
  option_map (fun lf => softmax_row o K (leaf_logits lf S)) (leaf temp cpl x).
Definition infer (temp : T) (cpl : list (nat * list T)) (K : nat) (S : nat -> nat -> T)
  (X : nat -> nat -> T) (i : nat) : option (nat -> T) := infer_row temp cpl K S (X i).

(* douglas.py::_init_params   feature_mask None -> every feature; else len(mask) must be d (ValueError ->
   None), a mask without any true entry is rejected (`not np.any(mask)`: ValueError -> None) and
   cut_points_list_ = [(i, normal(n_cuts)) for i in range(d) if feature_mask[i]].
   The normal draws are an oracle: draw j = the j-th vector drawn. *)
Definition used_features (d : nat) (mask : option (list bool)) : option (list nat) :=
  match mask with
  | None => Some (seq 0 d)
  | Some m => if length m =? d
              then if existsb (fun b => b) m then Some (filter (fun i => nth i m false) (seq 0 d)) else None
              else None
  end.
Definition init_cuts (d : nat) (mask : option (list bool)) (draw : nat -> list T) : option (list (nat * list T)) :=
  option_map (fun u => combine u (map draw (seq 0 (length u)))) (used_features d mask).
(* num_leaf = int((self.n_cuts + 1) ** len(self.cut_points_list_)) : rows of leaf_scores_ *)
Definition num_leaf (n_cuts : nat) (cpl : list (nat * list T)) : nat := Nat.pow (S n_cuts) (length cpl).

(* douglas.py::find_active_points (after check_array: at least one row and one column)
     if X.shape[1] <= max(f for f, _ in cut_points_list_): raise ValueError     (max of nothing: ValueError too)
     for (f, cuts) in cut_points_list_: feature = X[:, f]       (IndexError when f >= X.shape[1]: excluded by the guard)
        if np.any((cuts > feature.min()) & (cuts < feature.max())): active += [f]            *)
Fixpoint py_max_nat (l : list nat) : option nat :=
  match l with [] => None | a :: r => match py_max_nat r with None => Some a | Some m => Some (Nat.max a m) end end.
Fixpoint colmin (n : nat) (col : nat -> T) : T :=
  match n with O => n0 o | S O => col O | S m => nmin o (colmin m col) (col m) end.
Fixpoint colmax (n : nat) (col : nat -> T) : T :=
  match n with O => n0 o | S O => col O | S m => nmax o (colmax m col) (col m) end.
Definition active_feature (nrows : nat) (X : nat -> nat -> T) (fc : nat * list T) : bool :=
  let col := fun i => X i (fst fc) in
  let mn := colmin nrows col in let mx := colmax nrows col in
  existsb (fun c => nltb o mn c && nltb o c mx) (snd fc).
Inductive fap_result := FapValueError | FapIndexError | FapOk (l : list nat).
Definition find_active_points (nrows ncols : nat) (X : nat -> nat -> T) (cpl : list (nat * list T)) : fap_result :=
  if (nrows =? 0) || (ncols =? 0) then FapValueError
  else match py_max_nat (map fst cpl) with
       | None => FapValueError
       | Some mx =>
         if ncols <=? mx then FapValueError
         else if forallb (fun fc => fst fc <? ncols) cpl
              then FapOk (map fst (filter (active_feature nrows X) cpl))
              else FapIndexError
       end.
End Douglas.
(* ---- numpy / Python vocabulary of the regenerated definitions (Gen/DouglasRules.v, written by
   translator/tr_douglas.py from the AST of douglas.py).  The generated file is straight Gallina over
   these named list operations; Proofs/DouglasGen.v proves every generated definition equal to the
   hand-written model above, for every number system.  No proofs here. ---- *)
Fixpoint zip_with {A B C : Type} (f : A -> B -> C) (a : list A) (b : list B) : list C :=
  match a, b with x :: a', y :: b' => f x y :: zip_with f a' b' | _, _ => [] end.
(* reduce(f, l) without initial value: left fold seeded with the first item; TypeError (None) when empty *)
Definition py_reduce {A : Type} (f : A -> A -> A) (l : list A) : option A :=
  match l with [] => None | b :: r => Some (fold_left f r b) end.
Section NumpyVocabulary.
Context {T : Type} (o : NumOps T).
(* np.linspace(start, start + num - 1, num, dtype=float64): unit step (the translator checks stop - start = num - 1) *)
Definition np_linspace_unit (start num : nat) : list T := map (fun j => nofnat o (start + j)) (seq 0 num).
Definition np_argsort (v : list T) : list nat := argsort o v.
(* v[idx] with an integer index array *)
Definition np_take (v : list T) (idx : list nat) : list T := map (fun i => nth i v (n0 o)) idx.
Definition np_zeros (k : nat) : list T := repeat (n0 o) k.
(* np.cumsum: r_0 = v_0, r_j = r_(j-1) + v_j *)
Fixpoint cumsum_from (acc : T) (l : list T) : list T :=
  match l with [] => [acc] | c :: r => acc :: cumsum_from (nadd o acc c) r end.
Definition np_cumsum (l : list T) : list T := match l with [] => [] | a :: r => cumsum_from a r end.
(* sklearn.utils.extmath.softmax on one row given as a list / as a function with its length *)
Definition sk_softmax (l : list T) : list T := softmax_list o l.
Definition sk_softmax_fn (K : nat) (z : nat -> T) : nat -> T := softmax_row o K z.
(* v @ M for a vector v (list) and a matrix M with len(v) rows *)
Definition np_vecmat (v : list T) (M : nat -> nat -> T) : nat -> T := leaf_logits o v M.
(* column.min() / column.max() over the nrows entries of a column *)
Definition np_min (nrows : nat) (col : nat -> T) : T := colmin o nrows col.
Definition np_max (nrows : nat) (col : nat -> T) : T := colmax o nrows col.
Definition np_any (l : list bool) : bool := existsb (fun b => b) l.
(* sklearn check_array (defaults): at least one sample and one feature, else ValueError *)
Definition sk_check_array_rejects (nrows ncols : nat) : bool := (nrows =? 0) || (ncols =? 0).
(* X[:, f] for every f of idx: IndexError unless all f < X.shape[1] *)
Definition np_columns_ok (ncols : nat) (idx : list nat) : bool := forallb (fun f => f <? ncols) idx.
(* [(i, random_state.normal(size)) for i in idxs]: the j-th tuple built receives the j-th draw *)
Definition py_comp_draw (idxs : list nat) (draw : nat -> list T) : list (nat * list T) :=
  combine idxs (map draw (seq 0 (length idxs))).
End NumpyVocabulary.
(* EXTRACT: sort_cuts argsort bias bin_logits bins merge leaf infer_row infer used_features init_cuts num_leaf find_active_points *)
