(* C04 — the tiny expression / statement language into which translator/tr_coherence.py translates the
   small method bodies of gemclus/_base_gemini.py (fit tail, fit_predict, predict_proba, predict, score),
   KernelRIM's and the sparse models' overrides and the tail of Kauri.fit / Kauri.predict / Kauri.score.
   Syntax only (the regenerated terms live in Gen/CoherenceRules.v, their interpretation in
   Model/Coherence.v).  Local variables are inlined by the translator, so a body is a list of attribute
   writes, expression statements, ifs and a return.  No proofs in this file. *)
From Coq Require Import List String ZArith.
Import ListNotations.

Inductive cexpr :=
| EVar (x : string)                               (* an argument of the method (or a loop-state variable of Kauri.fit) *)
| ESelf                                           (* self *)
| ESelfAttr (a : string)                          (* self.a *)
| ESelfCall (m : string) (args : list cexpr)      (* self.m(args) *)
| ESuperCall (m : string) (args : list cexpr)     (* super().m(args) *)
| ECall (f : string) (args : list cexpr)          (* f(args), f a (dotted) global name: check_array, SGDOptimizer, ... *)
| EMeth (obj : cexpr) (m : string) (args : list cexpr)   (* obj.m(args) *)
| EApply (f : cexpr) (args : list cexpr)          (* f(args), f an object: gemini(y_pred, K) *)
| EAttr (obj : cexpr) (a : string)                (* obj.a *)
| EIndex (obj : cexpr) (k : Z)                    (* obj[k] *)
| EArgmax (x : cexpr) (axis : Z)                  (* np.argmax(x, axis=k) = np.argmax(x, k) = x.argmax(k) = x.argmax(axis=k) *)
| EItem (x : cexpr)                               (* x.item() *)
| EMatMul (a b : cexpr)                           (* a @ b *)
| EEq (a b : cexpr)                               (* a == b *)
| EKw (k : string) (e : cexpr)                    (* keyword argument k=e inside an argument list *)
| EGlobal (name : string)                         (* a dotted global used as a value: np.float64 *)
| EStr (s : string) | EInt (z : Z) | EBool (b : bool) | ENone.

Inductive cstmt :=
| SSetAttr (a : string) (e : cexpr)               (* self.a = e *)
| SExpr (e : cexpr)                               (* e   (a call for its effect) *)
| SIf (c : cexpr) (th el : list cstmt)
| SReturn (e : cexpr).

(* which of the coherence-relevant methods a class defines itself *)
Definition override_table := list (string * list string).
