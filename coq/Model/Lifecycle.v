(* C12 — estimator life cycle: attribute data-flow events, the interpreter that inlines calls, the
   decision procedures over a flow, and the abstract operational model of an estimator object.
   The event table itself (one body per method of every estimator class) is regenerated from the
   sources into Gen/AttrFlow.v by translator/tr_attrflow.py.  No proofs in this file. *)
From Coq Require Import List String Ascii Bool Arith.
Import ListNotations.
Open Scope string_scope.

(* ------------------------------------------------------------------------------------------ syntax *)
(* One event per access to the estimator object (`self`, or `clf` in sparse/_base_sparse.py), in
   evaluation order.  Meaning of each constructor: header of translator/tr_attrflow.py. *)
Inductive event : Type :=
| Read (a : string)                 (* self.a loaded *)
| Save (a : string)                 (* v = self.a, v a local that is bound exactly once *)
| Write (a : string)                (* self.a = e; self.set_params(a=e); validate_data(self, ..) for n_features_in_ *)
| Restore (a : string)              (* self.a = v with the v of a Save a *)
| Mut (a : string)                  (* in-place change of the object held in self.a (np.copyto, item store, update_params) *)
| ReadParams                        (* self._validate_params() / self.get_params(): every constructor parameter is read *)
| CheckFitted                       (* check_is_fitted(self): is there an attribute ending in "_" *)
| Call (m : string) (pos : list (option bool)) (kw : list (string * option bool))
| CallAt (owner m : string) (pos : list (option bool)) (kw : list (string * option bool))
| IfFlag (p : string) (v : bool) (body : events)   (* if p: / if not p:  on a parameter with a boolean default *)
| Branch (a b : events)             (* if/else, conditional expression, short-circuit operand *)
| Loop (body : events)              (* for / while / comprehension / function given to map, reduce *)
| Finally (body fin : events)       (* try: body finally: fin *)
| Stuck (why : string)              (* unresolved call or inlining fuel exhausted: rejected by every decision procedure *)
with events : Type :=
| ENil
| ECons (e : event) (r : events).

Fixpoint evs (l : list event) : events := match l with [] => ENil | e :: r => ECons e (evs r) end.
Fixpoint eapp (x y : events) : events := match x with ENil => y | ECons e r => ECons e (eapp r y) end.

(* a method definition: name, defining class (or "module"), positional parameter names after
   self, parameters with a boolean default (flags), body *)
Record method := mk_method_ { m_name : string; m_owner : string; m_params : list string;
                              m_flags : list (string * bool); m_body : events }.
Definition mk_method n o ps fl (b : list event) : method := mk_method_ n o ps fl (evs b).
(* a class: name, concrete?, MRO inside gemclus, constructor argument names (= get_params keys),
   stores of the constructor chain (attribute, Some arg if `self.attr = arg` unmodified), methods in
   MRO order (first match = the method Python resolves), then the module functions *)
Record klass := mk_klass { k_name : string; k_concrete : bool; k_mro : list string; k_args : list string;
                           k_stores : list (string * option string); k_methods : list method }.

(* ------------------------------------------------------------------------------------------ helpers *)
Definition mem (a : string) (l : list string) : bool := existsb (String.eqb a) l.
Definition inter (x y : list string) : list string := filter (fun a => mem a y) x.
Definition subset (x y : list string) : bool := forallb (fun a => mem a y) x.
Fixpoint last_is_us (s : string) : bool :=
  match s with EmptyString => false | String c EmptyString => Ascii.eqb c "_" | String _ r => last_is_us r end.
Definition first_is_us (s : string) : bool := match s with String c _ => Ascii.eqb c "_" | EmptyString => false end.
(* naming convention of fitted state: trailing underscore, or leading underscore for caches (_leaf) *)
Definition fitted_name (a : string) : bool := last_is_us a || first_is_us a.

Definition find_method (k : klass) (m : string) : option method :=
  find (fun x => String.eqb (m_name x) m) (k_methods k).
Definition find_method_at (k : klass) (o m : string) : option method :=
  find (fun x => String.eqb (m_name x) m && String.eqb (m_owner x) o) (k_methods k).
Definition find_class (t : list klass) (c : string) : option klass := find (fun k => String.eqb (k_name k) c) t.

(* hyper-parameter part of the object: every attribute the constructor chain stores *)
Definition hps (k : klass) : list string := map fst (k_stores k).

(* ------------------------------------------------------------------------------------------ flags *)
Definition env := list (string * bool).
Fixpoint env_get (e : env) (p : string) : option bool :=
  match e with [] => None | (q, b) :: r => if String.eqb q p then Some b else env_get r p end.
Definition env_del (e : env) (p : string) : env := filter (fun x => negb (String.eqb (fst x) p)) e.
Definition is_flag (fl : list (string * bool)) (p : string) : bool := existsb (fun x => String.eqb (fst x) p) fl.
(* a constant argument fixes the flag, any other argument makes it unknown *)
Definition bind_one (fl : list (string * bool)) (e : env) (p : string) (v : option bool) : env :=
  if is_flag fl p then match v with Some b => (p, b) :: env_del e p | None => env_del e p end else e.
Fixpoint bind_pos (fl : list (string * bool)) (e : env) (ps : list string) (vs : list (option bool)) : env :=
  match ps, vs with p :: ps', v :: vs' => bind_pos fl (bind_one fl e p v) ps' vs' | _, _ => e end.
Definition bind_kw (fl : list (string * bool)) (e : env) (kw : list (string * option bool)) : env :=
  fold_left (fun e x => bind_one fl e (fst x) (snd x)) kw e.
Definition call_env (mt : method) (pos : list (option bool)) (kw : list (string * option bool)) : env :=
  bind_kw (m_flags mt) (bind_pos (m_flags mt) (m_flags mt) (m_params mt) pos) kw.

(* ------------------------------------------------------------------------------------------ inlining *)
(* self.m(..) resolves in the object's class k; super().m / C.m(self, ..) resolve to the definition
   the translator computed; nested self-calls keep resolving in k.  Flags are evaluated. *)
Fixpoint inl (fuel : nat) (k : klass) (en : env) (body : events) {struct fuel} : events :=
  match fuel with
  | O => ECons (Stuck "fuel") ENil
  | S f =>
    (fix go (es : events) : events :=
       match es with
       | ENil => ENil
       | ECons ev r =>
         eapp (match ev with
               | Call m pos kw =>
                 match find_method k m with
                 | Some mt => inl f k (call_env mt pos kw) (m_body mt)
                 | None => ECons (Stuck m) ENil
                 end
               | CallAt o m pos kw =>
                 match find_method_at k o m with
                 | Some mt => inl f k (call_env mt pos kw) (m_body mt)
                 | None => ECons (Stuck m) ENil
                 end
               | IfFlag p v b =>
                 match env_get en p with
                 | Some x => if Bool.eqb x v then go b else ENil
                 | None => ECons (Branch (go b) ENil) ENil
                 end
               | Branch a b => ECons (Branch (go a) (go b)) ENil
               | Loop b => ECons (Loop (go b)) ENil
               | Finally b fn => ECons (Finally (go b) (go fn)) ENil
               | x => ECons x ENil
               end) (go r)
       end) body
  end.

Definition flow_fuel : nat := 24.
(* the flattened (call-free) event tree of a public call k.m(...): the caller's boolean arguments are
   unknown (path(restore_best_weights=...)), those of the inner calls are evaluated *)
Definition flow (k : klass) (m : string) : events :=
  match find_method k m with
  | Some mt => inl flow_fuel k [] (m_body mt)
  | None => ECons (Stuck m) ENil
  end.

Definition public_ops : list string := ["fit"; "fit_predict"; "predict"; "predict_proba"; "score"; "path"].

(* ------------------------------------------------------------------------------------------ analyses *)
(* every attribute stored or mutated anywhere in the tree *)
Fixpoint wr1 (e : event) : list string :=
  match e with
  | Write a | Restore a | Mut a => [a]
  | IfFlag _ _ b => wrs b
  | Branch a b => wrs a ++ wrs b
  | Loop b => wrs b
  | Finally b f => wrs b ++ wrs f
  | _ => []
  end
with wrs (es : events) : list string := match es with ENil => [] | ECons e r => wr1 e ++ wrs r end.

(* every attribute mentioned *)
Fixpoint at1 (e : event) : list string :=
  match e with
  | Read a | Save a | Write a | Restore a | Mut a => [a]
  | IfFlag _ _ b => ats b
  | Branch a b => ats a ++ ats b
  | Loop b => ats b
  | Finally b f => ats b ++ ats f
  | _ => []
  end
with ats (es : events) : list string := match es with ENil => [] | ECons e r => at1 e ++ ats r end.

(* no Call / CallAt / IfFlag / Stuck left *)
Fixpoint clean1 (e : event) : bool :=
  match e with
  | Call _ _ _ | CallAt _ _ _ _ | IfFlag _ _ _ | Stuck _ => false
  | Branch a b => clean a && clean b
  | Loop b => clean b
  | Finally b f => clean b && clean f
  | _ => true
  end
with clean (es : events) : bool := match es with ENil => true | ECons e r => clean1 e && clean r end.

(* Must-written analysis.  W = attributes certainly (re)written since the call started.  A load of a
   non-hyper-parameter attribute that is not in W is a stale read (its value, or its very existence,
   comes from an earlier call): None.  Otherwise Some W' with W' the set after the events.
   check_is_fitted looks for any attribute with a trailing underscore: its answer is independent of
   earlier calls as soon as all such attributes the class can hold (dm) have been rewritten. *)
Fixpoint check1 (hp dm : list string) (e : event) (W : list string) {struct e} : option (list string) :=
  match e with
  | Read a | Save a | Mut a => if mem a hp || mem a W then Some W else None
  | Write a | Restore a => Some (a :: W)
  | ReadParams => Some W
  | CheckFitted => if forallb (fun a => mem a hp || mem a W) (filter last_is_us dm) then Some W else None
  | Branch a b => match check hp dm a W, check hp dm b W with Some Wa, Some Wb => Some (inter Wa Wb) | _, _ => None end
  | Loop b => match check hp dm b W with Some _ => Some W | None => None end
  | Finally b f =>
    match check hp dm b W with
    | Some Wb => match check hp dm f W with Some _ => check hp dm f Wb | None => None end
    | None => None
    end
  | Call _ _ _ | CallAt _ _ _ _ | IfFlag _ _ _ | Stuck _ => None
  end
with check (hp dm : list string) (es : events) (W : list string) {struct es} : option (list string) :=
  match es with
  | ENil => Some W
  | ECons e r => match check1 hp dm e W with Some W' => check hp dm r W' | None => None end
  end.

(* inside a protected region only the saved hyper-parameter a may be re-bound *)
Fixpoint only1 (hp : list string) (a : string) (e : event) : bool :=
  match e with
  | Write x => negb (mem x hp) || String.eqb x a
  | Mut x | Restore x => negb (mem x hp)
  | Save x => negb (String.eqb x a)
  | Branch p q => only hp a p && only hp a q
  | Loop b => only hp a b
  | Finally b f => only hp a b && only hp a f
  | Call _ _ _ | CallAt _ _ _ _ | IfFlag _ _ _ | Stuck _ => false
  | _ => true
  end
with only (hp : list string) (a : string) (es : events) : bool :=
  match es with ENil => true | ECons e r => only1 hp a e && only hp a r end.

(* Hyper-parameters are unchanged after the events, also when an exception interrupts them: no store
   to a hyper-parameter, except inside  v = self.a; try: ... finally: self.a = v  where only a is
   re-bound (sv = the attribute saved by the immediately preceding event). *)
Definition saved_by (e : event) : option string := match e with Save a => Some a | _ => None end.
Fixpoint pres1 (hp : list string) (e : event) : bool :=
  match e with
  | Write a | Mut a | Restore a => negb (mem a hp)
  | Branch a b => presS hp None a && presS hp None b
  | Loop b => presS hp None b
  | Finally b f => presS hp None b && presS hp None f
  | Call _ _ _ | CallAt _ _ _ _ | IfFlag _ _ _ | Stuck _ => false
  | _ => true
  end
with presS (hp : list string) (sv : option string) (es : events) : bool :=
  match es with
  | ENil => true
  | ECons e r =>
    (match sv, e with
     | Some a, Finally b (ECons (Restore a') ENil) => (String.eqb a a' && only hp a b) || pres1 hp e
     | _, _ => pres1 hp e
     end) && presS hp (saved_by e) r
  end.
Definition pres (hp : list string) (es : events) : bool := presS hp None es.

(* ------------------------------------------------------------------------------------------ per-class facts *)
Definition fit_flow (k : klass) : events := flow k "fit".
(* fitted attributes any public call may store *)
Definition dom (k : klass) : list string :=
  filter (fun a => negb (mem a (hps k))) (flat_map (fun m => wrs (flow k m)) public_ops).
Definition has_method (k : klass) (m : string) : bool := match find_method k m with Some _ => true | None => false end.

(* along fit every fitted attribute is written before it is read *)
Definition no_stale_read (k : klass) : bool :=
  clean (fit_flow k) && match check (hps k) (dom k) (fit_flow k) [] with Some _ => true | None => false end.
Definition fit_must (k : klass) : list string :=
  match check (hps k) (dom k) (fit_flow k) [] with Some W => W | None => [] end.
(* every fitted attribute that any public call can leave behind is rewritten by every complete fit *)
Definition fit_overwrites_all (k : klass) : bool := subset (dom k) (fit_must k).
(* fit stores into no hyper-parameter *)
Definition no_hyperparam_write (k : klass) : bool := forallb (fun a => negb (mem a (hps k))) (wrs (fit_flow k)).
(* predict / predict_proba / score (flags as at their call sites: _infer(retain=False)) store nothing at all *)
Definition predict_methods_write_nothing (k : klass) : bool :=
  forallb (fun m => match wrs (flow k m) with [] => true | _ => false end) ["predict"; "predict_proba"; "score"].
(* path: present only on the sparse classes; hyper-parameters are restored, history independent *)
Definition path_restores_params (k : klass) : bool := negb (has_method k "path") || pres (hps k) (flow k "path").
Definition path_must (k : klass) : list string :=
  match check (hps k) (dom k) (flow k "path") [] with Some W => W | None => [] end.
Definition path_no_stale_read (k : klass) : bool :=
  negb (has_method k "path") ||
  (clean (flow k "path") && match check (hps k) (dom k) (flow k "path") [] with Some W => subset (dom k) W | None => false end).
(* the flows of the public methods a class has are fully resolved *)
Definition resolved (k : klass) : bool := forallb (fun m => negb (has_method k m) || clean (flow k m)) public_ops.
(* every attribute is a hyper-parameter or follows the fitted naming convention, never both *)
Definition classified (k : klass) : bool :=
  forallb (fun a => negb (fitted_name a)) (hps k) &&
  forallb (fun m => forallb (fun a => mem a (hps k) || fitted_name a) (ats (flow k m))) public_ops.
(* every constructor argument is stored exactly once, under its own name, unmodified *)
Fixpoint nodupb (l : list string) : bool := match l with [] => true | a :: r => negb (mem a r) && nodupb r end.
Definition store_of (k : klass) (a : string) : list (string * option string) :=
  filter (fun s => String.eqb (fst s) a) (k_stores k).
Definition stores_ok (k : klass) : bool :=
  nodupb (k_args k) &&
  forallb (fun a => match store_of k a with
                    | [(_, Some src)] => String.eqb src a
                    | _ => false end) (k_args k) &&
  forallb (fun s => match snd s with Some p => mem p (k_args k) | None => true end) (k_stores k).

Definition all_facts (k : klass) : bool :=
  no_stale_read k && fit_overwrites_all k && no_hyperparam_write k && predict_methods_write_nothing k &&
  path_restores_params k && path_no_stale_read k && resolved k && classified k && stores_ok k.

(* ------------------------------------------------------------------------------------------ constructor / get_params / set_params / clone *)
Section Params.
Context {V : Type}.
Definition dict := string -> option V.
Definition upd (d : dict) (a : string) (v : option V) : dict := fun b => if String.eqb b a then v else d b.
Definition empty : dict := fun _ => None.

(* __init__: the stores of the constructor chain in order; cv = the constants / parent defaults *)
Definition construct (k : klass) (cv : string -> V) (args : string -> V) : dict :=
  fold_left (fun d s => upd d (fst s) (Some (match snd s with Some p => args p | None => cv (fst s) end)))
            (k_stores k) empty.
(* BaseEstimator.get_params(deep=False): getattr(self, name) for the constructor argument names *)
Definition get_params (k : klass) (d : dict) : list (string * option V) := map (fun a => (a, d a)) (k_args k).
(* BaseEstimator.set_params: setattr for valid names (an invalid name raises; modelled as ignored) *)
Definition set_params (k : klass) (kv : list (string * V)) (d : dict) : dict :=
  fold_left (fun s x => if mem (fst x) (k_args k) then upd s (fst x) (Some (snd x)) else s) kv d.
(* sklearn.base.clone: the class called with the keywords of get_params *)
Definition args_of (l : list (string * option V)) (dflt : V) : string -> V :=
  fun a => match find (fun x => String.eqb (fst x) a) l with Some (_, Some v) => v | _ => dflt end.
Definition clone (k : klass) (cv : string -> V) (dflt : V) (d : dict) : dict :=
  construct k cv (args_of (get_params k d) dflt).
(* a fresh object carrying the hyper-parameter part of d and no fitted attribute *)
Definition fresh (k : klass) (d : dict) : dict := fun a => if mem a (hps k) then d a else None.

(* ------------------------------------------------------------------------------------------ abstract execution *)
(* The primitive steps are uninterpreted: what a store writes, which branch is taken, how often a
   loop runs and where an exception is raised are arbitrary functions of the program point and of
   everything the call has observed of the object so far (its arguments - data, affinity, seed - are
   part of the interpretation).  Theorems quantify over all interpretations. *)
Inductive obsv := OV (v : option V) | OB (b : bool).
Record interp := { i_write : nat -> list obsv -> V;
                   i_mut : nat -> list obsv -> option V -> V;
                   i_choose : nat -> list obsv -> bool;
                   i_iters : nat -> list obsv -> nat;
                   i_abort : nat -> list obsv -> bool }.
Record cfg := mk_cfg { c_at : dict; c_saved : dict; c_obs : list obsv; c_pc : nat; c_ab : bool }.
Definition start (d : dict) : cfg := mk_cfg d empty [] 0 false.
Definition tick (c : cfg) : cfg := mk_cfg (c_at c) (c_saved c) (c_obs c) (S (c_pc c)) (c_ab c).
Definition observe (c : cfg) (o : list obsv) : cfg := mk_cfg (c_at c) (c_saved c) (o ++ c_obs c) (S (c_pc c)) (c_ab c).
Definition store (c : cfg) (a : string) (v : option V) : cfg := mk_cfg (upd (c_at c) a v) (c_saved c) (c_obs c) (S (c_pc c)) (c_ab c).
Definition save (c : cfg) (a : string) : cfg :=
  mk_cfg (c_at c) (upd (c_saved c) a (c_at c a)) (OV (c_at c a) :: c_obs c) (S (c_pc c)) (c_ab c).
Definition set_ab (c : cfg) (b : bool) : cfg := mk_cfg (c_at c) (c_saved c) (c_obs c) (c_pc c) b.
Definition is_some (o : option V) : bool := match o with Some _ => true | None => false end.

Fixpoint exec1 (I : interp) (hp dm : list string) (e : event) (c : cfg) {struct e} : cfg :=
  if c_ab c then c else
  match e with
  | Restore a => store c a (c_saved c a)                 (* a plain store of a local cannot raise *)
  | _ =>
    if i_abort I (c_pc c) (c_obs c) then set_ab c true else
    match e with
    | Read a => observe c [OV (c_at c a)]
    | Save a => save c a
    | Write a => store c a (Some (i_write I (c_pc c) (c_obs c)))
    | Restore a => c
    | Mut a => store c a (Some (i_mut I (c_pc c) (c_obs c) (c_at c a)))
    | ReadParams => observe c (map (fun a => OV (c_at c a)) hp)
    | CheckFitted => observe c [OB (existsb (fun a => is_some (c_at c a)) (filter last_is_us dm))]
    | Branch a b => if i_choose I (c_pc c) (c_obs c) then execs I hp dm a (tick c) else execs I hp dm b (tick c)
    | Loop b => Nat.iter (i_iters I (c_pc c) (c_obs c)) (execs I hp dm b) (tick c)
    | Finally b f =>
      let c1 := execs I hp dm b (tick c) in
      let c2 := execs I hp dm f (set_ab c1 false) in
      set_ab c2 (c_ab c1 || c_ab c2)
    | Call _ _ _ | CallAt _ _ _ _ | IfFlag _ _ _ | Stuck _ => set_ab c true
    end
  end
with execs (I : interp) (hp dm : list string) (es : events) (c : cfg) {struct es} : cfg :=
  match es with ENil => c | ECons e r => execs I hp dm r (exec1 I hp dm e c) end.

(* a public call k.m(data d): result object and "an exception was raised" *)
Definition call (I : string -> nat -> interp) (k : klass) (m : string) (d : nat) (o : dict) : dict * bool :=
  let c := execs (I m d) (hps k) (dom k) (flow k m) (start o) in (c_at c, c_ab c).

Inductive op :=
| OFit (d : nat) | OFitPredict (d : nat) | OPredict (d : nat) | OPredictProba (d : nat) | OScore (d : nat)
| OPath (d : nat) | OSetParams (kv : list (string * V)) | OClone.
Definition apply_op (I : string -> nat -> interp) (k : klass) (o : op) (s : dict) : dict :=
  match o with
  | OFit d => fst (call I k "fit" d s)
  | OFitPredict d => fst (call I k "fit_predict" d s)
  | OPredict d => fst (call I k "predict" d s)
  | OPredictProba d => fst (call I k "predict_proba" d s)
  | OScore d => fst (call I k "score" d s)
  | OPath d => fst (call I k "path" d s)
  | OSetParams kv => set_params k kv s
  | OClone => fresh k s
  end.
Definition run (I : string -> nat -> interp) (k : klass) (h : list op) (s : dict) : dict :=
  fold_left (fun s o => apply_op I k o s) h s.
End Params.
Arguments dict V : clear implicits.
Arguments interp V : clear implicits.
Arguments cfg V : clear implicits.
Arguments op V : clear implicits.
Arguments obsv V : clear implicits.

(* ------------------------------------------------------------------------------------------ what the correspondence runs *)
(* bookkeeping along a real history: attributes that certainly exist / may exist after each call *)
Inductive hop := HCall (m : string) (raised : bool) | HSetParams | HClone.
Record tstate := mk_t { t_must : list string; t_may : list string }.
(* (the call can hit a missing/stale attribute, state afterwards) *)
Definition track_step (k : klass) (t : tstate) (h : hop) : bool * tstate :=
  match h with
  | HClone => (false, mk_t [] [])
  | HSetParams => (false, t)
  | HCall m raised =>
    let fl := flow k m in
    match check (hps k) (dom k) fl (t_must t) with
    | Some W => (negb (clean fl), mk_t (if raised then t_must t else W) (wrs fl ++ t_may t))
    | None => (true, mk_t (t_must t) (wrs fl ++ t_may t))
    end
  end.
Fixpoint track (k : klass) (t : tstate) (hs : list hop) : list (bool * tstate) :=
  match hs with [] => [] | h :: r => let x := track_step k t h in x :: track k (snd x) r end.
(* EXTRACT: event evs mk_method mk_klass find_class hps flow dom fit_must path_must all_facts no_stale_read fit_overwrites_all no_hyperparam_write predict_methods_write_nothing path_restores_params path_no_stale_read resolved classified stores_ok has_method track wrs public_ops *)
