(* C03 — executable model of the backward passes (`_compute_grads`) of every gradient-trained model
   family, of the penalty terms of RIM / KernelRIM, of the must-link / cannot-link decoration as it is
   composed with `_compute_grads`, and of one training step of `fit`.
   Sources: gemclus/linear/_linear_geminis.py (LinearModel._compute_grads, RIM._update_weights,
            KernelRIM._compute_grads), gemclus/mlp/_mlp_geminis.py (MLPModel._compute_grads),
            gemclus/sparse/_mlp_sparse.py (SparseMLPModel._compute_grads; SparseLinearModel inherits
            LinearModel's), gemclus/nonparametric/_categorical_models.py, gemclus/tree/douglas.py
            (Douglas._compute_grads), gemclus/mlcl.py (decorate_grads, modelled in Model/Mlcl.v),
            gemclus/_base_gemini.py::fit (the loop body).
   The forward passes are those of Model/Forward.v.  Matrices are total functions nat -> nat -> T with
   explicit dimensions; a gradient has the type of the parameters it belongs to, in the order of
   `_get_weights`.  Every direction carries the final negation of the code ("negative sign to force the
   optimiser to maximise").  No proofs in this file. *)
From Coq Require Import List Bool Arith.
From GV Require Import Common.Num Model.Forward Model.Mlcl.
Import ListNotations.

Section Backprop.
Context {T : Type} (o : NumOps T).
Local Notation sum := (bsum o).
Local Notation Mat := (nat -> nat -> T).
Local Notation Vec := (nat -> T).

(* -W_grad, -b_grad : unary minus (0 - x: differs from IEEE negation only in the sign of a zero) *)
Definition mneg (M : Mat) : Mat := fun i k => nneg o (M i k).
Definition vneg (v : Vec) : Vec := fun k => nneg o (v k).

(* tau_hat_grad = y_pred * (gradient - (y_pred * gradient).sum(1, keepdims=True))     shape n x K
   (first line of every _compute_grads: back-propagation through the softmax) *)
Definition tau_hat (K : nat) (Y G : Mat) : Mat :=
  fun i k => nmul o (Y i k) (nsub o (G i k) (sum K (fun c => nmul o (Y i c) (G i c)))).
(* A.T @ B  for A : n x p and B : n x q   (X.T @ tau_hat_grad, self.H_.T @ tau_hat_grad, ...) *)
Definition tmatmul (n : nat) (A B : Mat) : Mat := fun j k => sum n (fun i => nmul o (A i j) (B i k)).
(* A.sum(0, keepdims=True) *)
Definition colsum (n : nat) (A : Mat) : Vec := fun k => sum n (fun i => A i k).

(* ------------------------------------------------------------------ LinearModel (also sparse linear) *)
(* _get_weights: [W_, b_] *)
Record LinP := { lW : Mat; lb : Vec }.
(* LinearModel._compute_grads(X, y_pred, gradient):
     W_grad = X.T @ tau_hat_grad ; b_grad = tau_hat_grad.sum(0, keepdims=True) ; return [-W_grad, -b_grad] *)
Definition linear_compute_grads (n K : nat) (X Y G : Mat) : LinP :=
  let tau := tau_hat K Y G in
  {| lW := mneg (tmatmul n X tau); lb := vneg (colsum n tau) |}.
Definition linear_infer_p (d K : nat) (p : LinP) (X : Mat) : Mat := linear_infer o d K (lW p) (lb p) X.
(* fit: y_pred = self._infer(X_batch); _, grads = gemini(y_pred, ...); grads = self._compute_grads(X_batch, y_pred, grads) *)
Definition linear_step_grads (n d K : nat) (p : LinP) (X G : Mat) : LinP :=
  linear_compute_grads n K X (linear_infer_p d K p X) G.

(* RIM._update_weights(weights, gradients): gradients[0] += self.reg * 2 * self.W_  (then update_params) *)
Definition rim_update_grads (reg : T) (p g : LinP) : LinP :=
  {| lW := fun j k => nadd o (lW g j k) (nmul o (nmul o reg (n2 o)) (lW p j k)); lb := lb g |}.
Definition rim_step_grads (n d K : nat) (reg : T) (p : LinP) (X G : Mat) : LinP :=
  rim_update_grads reg p (linear_step_grads n d K p X G).

(* KernelRIM._compute_grads(X, y_pred, gradient)   (X = the batch's rows of the training kernel, nt columns)
     base_grads = super()._compute_grads(X, y_pred, gradient)
     base_grads[0] += 2 * self.reg * np.dot(self.training_kernel_, self.W_)       full nt x nt kernel *)
Definition kernel_rim_compute_grads (n nt K : nat) (reg : T) (Kt : Mat) (p : LinP) (X Y G : Mat) : LinP :=
  let base := linear_compute_grads n K X Y G in
  {| lW := fun j k => nadd o (lW base j k) (nmul o (nmul o (n2 o) reg) (matmul o nt Kt (lW p) j k));
     lb := lb base |}.
Definition kernel_rim_step_grads (n nt K : nat) (reg : T) (Kt : Mat) (p : LinP) (X G : Mat) : LinP :=
  kernel_rim_compute_grads n nt K reg Kt p X (linear_infer_p nt K p X) G.

(* ------------------------------------------------------------------ MLPModel *)
(* _get_weights: [W1_, W2_, b1_, b2_] *)
Record MlpP := { mW1 : Mat; mW2 : Mat; mb1 : Vec; mb2 : Vec }.
(* self.H_ > 0 as a 0/1 factor *)
Definition relu_mask (H : Mat) : Mat := fun i j => if nltb o (n0 o) (H i j) then n1 o else n0 o.
(* backprop_grad = tau_hat_grad @ self.W2_.T ; backprop_grad *= self.H_ > 0             shape n x h *)
Definition mlp_backprop (K : nat) (tau W2 H : Mat) : Mat :=
  fun i j => nmul o (sum K (fun k => nmul o (tau i k) (W2 j k))) (relu_mask H i j).
(* MLPModel._compute_grads(X, y_pred, gradient) with the retained self.H_ and the current self.W2_:
     W2_grad = self.H_.T @ tau_hat_grad ; b2_grad = tau_hat_grad.sum(0)
     W1_grad = X.T @ backprop_grad ; b1_grad = backprop_grad.sum(0)
     return [-W1_grad, -W2_grad, -b1_grad, -b2_grad] *)
Definition mlp_compute_grads (n K : nat) (W2 H X Y G : Mat) : MlpP :=
  let tau := tau_hat K Y G in
  let bp := mlp_backprop K tau W2 H in
  {| mW1 := mneg (tmatmul n X bp); mW2 := mneg (tmatmul n H tau);
     mb1 := vneg (colsum n bp); mb2 := vneg (colsum n tau) |}.
Definition mlp_infer_p (d h K : nat) (p : MlpP) (X : Mat) : Mat :=
  mlp_infer o d h K (mW1 p) (mb1 p) (mW2 p) (mb2 p) X.
Definition mlp_step_grads (n d h K : nat) (p : MlpP) (X G : Mat) : MlpP :=
  mlp_compute_grads n K (mW2 p) (mlp_hidden o d h (mW1 p) (mb1 p) X) X (mlp_infer_p d h K p X) G.

(* ------------------------------------------------------------------ SparseMLPModel (skip connection) *)
(* _get_weights: [W1_, W2_, W_skip_, b1_, b2_] *)
Record SMlpP := { sW1 : Mat; sW2 : Mat; sWskip : Mat; sb1 : Vec; sb2 : Vec }.
(* SparseMLPModel._compute_grads: as MLPModel plus W_skip_grad = X.T @ tau_hat_grad
     return [-W1_grad, -W2_grad, -W_skip_grad, -b1_grad, -b2_grad] *)
Definition sparse_mlp_compute_grads (n K : nat) (W2 H X Y G : Mat) : SMlpP :=
  let tau := tau_hat K Y G in
  let bp := mlp_backprop K tau W2 H in
  {| sW1 := mneg (tmatmul n X bp); sW2 := mneg (tmatmul n H tau); sWskip := mneg (tmatmul n X tau);
     sb1 := vneg (colsum n bp); sb2 := vneg (colsum n tau) |}.
Definition sparse_mlp_infer_p (d h K : nat) (p : SMlpP) (X : Mat) : Mat :=
  sparse_mlp_infer o d h K (sW1 p) (sb1 p) (sW2 p) (sb2 p) (sWskip p) X.
Definition sparse_mlp_step_grads (n d h K : nat) (p : SMlpP) (X G : Mat) : SMlpP :=
  sparse_mlp_compute_grads n K (sW2 p) (mlp_hidden o d h (sW1 p) (sb1 p) X) X (sparse_mlp_infer_p d h K p X) G.

(* ------------------------------------------------------------------ CategoricalModel *)
(* _compute_grads: return [-tau_hat_grad]     (parameters: one row of logits per training sample) *)
Definition categorical_compute_grads (K : nat) (Y G : Mat) : Mat := mneg (tau_hat K Y G).
Definition categorical_step_grads (K : nat) (logits G : Mat) : Mat :=
  categorical_compute_grads K (categorical_infer o K logits) G.

(* ------------------------------------------------------------------ Douglas *)
(* F used features, every feature with B = n_cuts + 1 soft bins, L = B^F leaves.  Retained by _infer:
   self._all_binnings[f] = bins f (n x B), self._leaf = leafm (n x L), self._all_orders[f] = orders f.
   The leaf index is the row-major index of (bin of feature 0, ..., bin of feature F-1)
   (_merge_leaf: einsum "ij,ik->ijk" then reshape), so the bin of feature f is digit number f. *)
Definition digit (F B f l : nat) : nat := (l / B ^ (F - 1 - f)) mod B.
(* binning_backprop = y_pred_grad @ self.leaf_scores_.T ; (reshape) ; binning_backprop *= self._leaf *)
Definition dg_binning_backprop (K : nat) (tau S leafm : Mat) : Mat :=
  fun i l => nmul o (sum K (fun k => nmul o (tau i k) (S l k))) (leafm i l).
(* softmax_grad = binning_backprop.sum(all bin axes but f's)
   softmax_grad = np.divide(softmax_grad, bins_f, out=zeros, where=bins_f != 0) *)
Definition dg_softmax_grad (F B L f : nat) (bb bin : Mat) : Mat :=
  fun i m =>
    let s := sum L (fun l => if digit F B f l =? m then bb i l else n0 o) in
    if neqb o (bin i m) (n0 o) then n0 o else ndiv o s (bin i m).
(* bin_grad = bins_f * (softmax_grad - (bins_f * softmax_grad).sum(1, keepdims=True)) ; bin_grad /= temperature *)
Definition dg_bin_grad (B : nat) (temp : T) (bin sg : Mat) : Mat :=
  fun i m => ndiv o (nmul o (bin i m) (nsub o (sg i m) (sum B (fun c => nmul o (bin i c) (sg i c))))) temp.
(* bias_grad = bin_grad.sum(0)[1:] *)
Definition dg_bias_grad (n : nat) (bg : Mat) : Vec := fun m => sum n (fun i => bg i (S m)).
(* cumsum_grad = -np.cumsum(bias_grad[::-1])[::-1] : entry q is -(bias_grad[c-1] + ... + bias_grad[q]) *)
Definition dg_cumsum_grad (c : nat) (bias_grad : Vec) : Vec :=
  fun q => nneg o (sum (c - q) (fun r => bias_grad (c - 1 - r))).
(* np.argsort(order)[p] for a permutation `order`: the position of p in it *)
Fixpoint pos_in (p : nat) (l : list nat) : nat :=
  match l with [] => 0 | x :: r => if x =? p then 0 else S (pos_in p r) end.
(* cut_grad = cumsum_grad[np.argsort(self._all_orders[f])] ; updates += [-cut_grad] *)
Definition dg_cut_direction (n F c L K f : nat) (temp : T) (S leafm : Mat) (bin : Mat) (order : list nat)
  (tau : Mat) : Vec :=
  let bb := dg_binning_backprop K tau S leafm in
  let sg := dg_softmax_grad F (c + 1) L f bb bin in
  let bg := dg_bin_grad (c + 1) temp bin sg in
  let cg := dg_cumsum_grad c (dg_bias_grad n bg) in
  fun p => nneg o (cg (pos_in p order)).
(* Douglas._compute_grads: updates = [-(self._leaf.T @ y_pred_grad)] + [-cut_grad_f for every used feature]
   (_get_weights: [leaf_scores_] + the cut point vectors) *)
Definition douglas_compute_grads (n F c K : nat) (temp : T) (S leafm : Mat) (bins : nat -> Mat)
  (orders : nat -> list nat) (Y G : Mat) : Mat * (nat -> Vec) :=
  let tau := tau_hat K Y G in
  let L := (c + 1) ^ F in
  (mneg (tmatmul n leafm tau),
   fun f => dg_cut_direction n F c L K f temp S leafm (bins f) (orders f) tau).

(* ------------------------------------------------------------------ mlcl decoration composed with a backward pass *)
Definition to_rows (n K : nat) (M : Mat) : list (list T) :=
  map (fun i => map (fun k => M i k) (seq 0 K)) (seq 0 n).
Definition of_rows (L : list (list T)) : Mat := fun i k => nth k (nth i L []) (n0 o).
(* intercept_grads(X, y_pred, gradient): the gradient is modified in place by the cannot-link loop (+=) and
   the must-link loop (-=) — Model/Mlcl.v::decorate_grads — and handed to the wrapped _compute_grads.
   idx = gemini_model._batchify.indices, the true sample indices of the batch rows. *)
Definition decorated_gradient (f : T) (idx : list nat) (n K : nat) (Y : Mat) (ml cl : list (nat * nat)) (G : Mat) : Mat :=
  of_rows (decorate_grads o f idx (to_rows n K Y) ml cl (to_rows n K G)).

(* ------------------------------------------------------------------ one step of fit's inner loop *)
(* grads = self._compute_grads(...) ; self._update_weights(weights, grads): the optimiser's update rule
   (sklearn's SGDOptimizer / AdamOptimizer, then the proximal operator for the sparse models) is an oracle *)
Definition train_step {P : Type} (update : P -> P -> P) (grads : P -> P) (theta : P) : P :=
  update theta (grads theta).
End Backprop.
(* EXTRACT: tau_hat tmatmul colsum linear_compute_grads linear_step_grads rim_update_grads rim_step_grads kernel_rim_compute_grads kernel_rim_step_grads mlp_compute_grads mlp_step_grads sparse_mlp_compute_grads sparse_mlp_step_grads categorical_compute_grads categorical_step_grads digit douglas_compute_grads decorated_gradient to_rows of_rows train_step *)
